//! Small helpers shared by property binaries.

pub fn hex(b: &[u8]) -> String {
    let mut s = String::with_capacity(b.len() * 2);
    for x in b {
        s.push_str(&format!("{x:02x}"));
    }
    s
}

pub fn unhex(s: &str) -> Vec<u8> {
    let s: Vec<u8> = s.bytes().filter(|c| c.is_ascii_hexdigit()).collect();
    s.chunks(2)
        .filter(|c| c.len() == 2)
        .map(|c| u8::from_str_radix(std::str::from_utf8(c).unwrap(), 16).unwrap())
        .collect()
}

/// Monotone index mapping for shrinking: maps a u16 "selector" onto 0..len.
pub fn pick(sel: u16, len: usize) -> usize {
    if len == 0 {
        0
    } else {
        ((sel as usize) * len) >> 16
    }
}

/// True iff the pointer range of `inner` lies within `outer`.
pub fn within(outer: &[u8], inner: &[u8]) -> bool {
    if inner.is_empty() {
        return true;
    }
    let o0 = outer.as_ptr() as usize;
    let o1 = o0 + outer.len();
    let i0 = inner.as_ptr() as usize;
    let i1 = i0 + inner.len();
    i0 >= o0 && i1 <= o1
}

/// Debug aid: route rs-matter's `log` output to stderr with virtual timestamps when `VH_LOG`
/// is set (`VH_LOG=trace|debug|info`). Never used by oracles.
pub fn init_stderr_log() {
    struct L;
    impl log::Log for L {
        fn enabled(&self, _: &log::Metadata) -> bool {
            true
        }
        fn log(&self, r: &log::Record) {
            eprintln!(
                "[{} {} t={}] {}",
                r.level(),
                r.target(),
                crate::sim::clock::now().saturating_sub(1_000_000_000),
                r.args()
            );
        }
        fn flush(&self) {}
    }
    static LOGGER: L = L;
    if let Ok(v) = std::env::var("VH_LOG") {
        let _ = log::set_logger(&LOGGER);
        log::set_max_level(match v.as_str() {
            "trace" => log::LevelFilter::Trace,
            "info" => log::LevelFilter::Info,
            _ => log::LevelFilter::Debug,
        });
    }
}
