//! Node-level group *transmission*: one node, one fabric, 2-4 groups mapped to one or two key
//! sets under generated multicast-address policies (per-group address / the one IANA address),
//! and a generated sequence of group messages sent through the real `Exchange::initiate_group`.
//!
//! Oracle (what a member of the addressed group relies on): the k-th datagram on the wire is a
//! group data message that authenticates under the operational key of the key set the addressed
//! group is mapped to, carries that key set's group session id, names the addressed group as its
//! destination and contains the payload that was sent.

use proptest::prelude::*;
use serde::{Deserialize, Serialize};

use rs_matter::crypto::{CanonAeadKey, CanonAeadKeyRef};
use rs_matter::dm::clusters::decl::groupcast::MulticastAddrPolicyEnum;
use rs_matter::fabric::GroupKeyMapping;
use rs_matter::group_keys::{GroupEpochKeyEntry, GroupKeySet};
use rs_matter::transport::exchange::{Exchange, MessageMeta};
use rs_matter::transport::network::NoNetwork;
use rs_matter::transport::packet::PacketHdr;
use rs_matter::utils::storage::ParseBuf;

use crate::sim::fabric::{install, new_member, Ca};
use crate::sim::kv::MemKv;
use crate::sim::net::Net;
use crate::sim::node::{mk_crypto, new_matter};
use crate::sim::{Exec, Sched, Stop, SEC};

#[derive(Debug, Clone, Serialize, Deserialize)]
pub struct GroupSpec {
    /// key set 1 or 2
    pub key_set: u8,
    /// the IANA groupcast address (shared by all such groups) instead of a per-group address
    pub iana: bool,
}

#[derive(Debug, Clone, Serialize, Deserialize)]
pub struct GtxCase {
    pub seed: u32,
    /// group ids are 0x0101 + index
    pub groups: Vec<GroupSpec>,
    /// (group selector, payload length)
    pub sends: Vec<(u16, u8)>,
    /// keep the exchange of a send open while the next ones are made
    pub hold: bool,
}

pub fn gtx_case() -> impl Strategy<Value = GtxCase> {
    (
        any::<u32>(),
        prop::collection::vec((1u8..=2, prop::bool::weighted(0.6)).prop_map(|(key_set, iana)| GroupSpec { key_set, iana }), 2..=4),
        prop::collection::vec((any::<u16>(), 0u8..40), 2..10),
        any::<bool>(),
    )
        .prop_map(|(seed, groups, sends, hold)| GtxCase { seed, groups, sends, hold })
}

const SENDER: u64 = 0xD033;
const EPOCH: [[u8; 16]; 2] = [[0x51; 16], [0x62; 16]];

pub struct Verdict {
    pub fail: Option<(String, String)>,
    pub inconclusive: Option<String>,
    /// two consecutive sends went to different groups that share key set and address
    pub shared_session_shape: bool,
}

pub fn run(case: &GtxCase) -> Verdict {
    let mut v = Verdict { fail: None, inconclusive: None, shared_session_shape: false };
    crate::sim::reset_universe();
    let crypto = mk_crypto(case.seed);
    let gen = mk_crypto(0x6774_7801);
    let setup = (|| -> Result<_, String> {
        let ca = Ca::new(&gen, 0xFAB0_0033, false, 7).map_err(|e| format!("ca: {e:?}"))?;
        let m = new_member(&gen, &ca, SENDER, &[]).map_err(|e| format!("member: {e:?}"))?;
        Ok((ca, m))
    })();
    let (ca, member) = match setup {
        Ok(x) => x,
        Err(e) => {
            v.inconclusive = Some(e);
            return v;
        }
    };
    let node = new_matter(5540);
    let fab_idx = match install(&node, &crypto, &ca, &member, 0x1000) {
        Ok(i) => i,
        Err(e) => {
            v.inconclusive = Some(format!("install: {e:?}"));
            return v;
        }
    };
    let keyed: Result<u64, String> = node.with_state(|st| {
        let f = st.fabrics.fabric_mut(fab_idx).map_err(|e| format!("{e:?}"))?;
        let cfid = f.compressed_fabric_id();
        for (i, epoch) in EPOCH.iter().enumerate() {
            let mut epoch_keys = rs_matter::utils::storage::Vec::new();
            let mut epoch_key = CanonAeadKey::new();
            epoch_key.load_from_array(epoch);
            epoch_keys.push(GroupEpochKeyEntry { epoch_key, epoch_start_time: 0 }).map_err(|_| "epoch keys".to_string())?;
            f.groups_mut()
                .key_set_add(GroupKeySet { group_key_set_id: i as u16 + 1, group_key_security_policy: 0, epoch_keys })
                .map_err(|e| format!("key_set_add: {e:?}"))?;
        }
        for (i, g) in case.groups.iter().enumerate() {
            let gid = 0x0101 + i as u16;
            f.groups_mut()
                .key_map_add(GroupKeyMapping { group_id: gid, group_key_set_id: g.key_set as u16 })
                .map_err(|e| format!("key_map_add: {e:?}"))?;
            f.groups_mut()
                .groupcast_join(gid, &[], false, Some(if g.iana { MulticastAddrPolicyEnum::IanaAddr } else { MulticastAddrPolicyEnum::PerGroup }))
                .map_err(|e| format!("groupcast_join: {e:?}"))?;
        }
        Ok(cfid)
    });
    let cfid = match keyed {
        Ok(c) => c,
        Err(e) => {
            v.inconclusive = Some(e);
            return v;
        }
    };
    let plan: Vec<(usize, Vec<u8>)> = case
        .sends
        .iter()
        .enumerate()
        .map(|(k, (sel, len))| {
            let gi = crate::util::pick(*sel, case.groups.len());
            let mut p = vec![k as u8, gi as u8];
            p.extend((0..*len).map(|j| (j as u8).wrapping_mul(7).wrapping_add(k as u8)));
            (gi, p)
        })
        .collect();
    for w in plan.windows(2) {
        let (a, b) = (&case.groups[w[0].0], &case.groups[w[1].0]);
        if w[0].0 != w[1].0 && a.key_set == b.key_set && a.iana && b.iana {
            v.shared_session_shape = true;
        }
    }
    let net = Net::new(1);
    let kv = MemKv::new();
    let done = core::cell::Cell::new(false);
    let errs: core::cell::RefCell<Vec<String>> = core::cell::RefCell::new(Vec::new());
    {
        let mut ex = Exec::new(Sched::Fifo);
        ex.add_time_source(&net);
        ex.spawn("dev.run", async {
            let _ = node.run(&crypto, net.end(0), net.end(0), NoNetwork).await;
        });
        let (node_r, crypto_r, kv_r, plan_r, done_r, errs_r) = (&node, &crypto, &kv, &plan, &done, &errs);
        let hold = case.hold;
        ex.spawn("app", async move {
            let access = node_r.kv(kv_r.clone());
            let mut held: Vec<Exchange<'_>> = Vec::new();
            for (k, (gi, payload)) in plan_r.iter().enumerate() {
                match Exchange::initiate_group(node_r, crypto_r, &access, fab_idx, 0x0101 + *gi as u16) {
                    Ok(mut e) => {
                        if let Err(err) = e.send(MessageMeta::new(0x00F7, 1, false), payload).await {
                            errs_r.borrow_mut().push(format!("send #{k}: {:?}", err.code()));
                        }
                        // the datagram leaves before the next send is made
                        embassy_time::Timer::after(embassy_time::Duration::from_millis(2)).await;
                        if hold && held.len() < 2 {
                            held.push(e);
                        }
                    }
                    Err(err) => errs_r.borrow_mut().push(format!("initiate_group #{k}: {:?}", err.code())),
                }
            }
            drop(held);
            done_r.set(true);
        });
        let dl = crate::sim::clock::now() + 30 * SEC;
        if ex.run_until(dl, || done.get()) == Stop::PollLimit {
            v.inconclusive = Some("poll watchdog".into());
            return v;
        }
        ex.run_for(50 * crate::sim::MS);
    }
    if let Some(e) = errs.borrow().first() {
        v.inconclusive = Some(e.clone());
        return v;
    }
    let sent: Vec<Vec<u8>> = net.with_tap(|t| t.sent.iter().map(|s| s.bytes.clone()).collect());
    if sent.len() != plan.len() {
        v.fail = Some((
            "group-tx:datagram-count".into(),
            format!("{} group messages were sent (each Ok), {} datagrams reached the wire", plan.len(), sent.len()),
        ));
        return v;
    }
    for (k, ((gi, payload), bytes)) in plan.iter().zip(sent.iter()).enumerate() {
        let gid = 0x0101 + *gi as u16;
        let spec = &case.groups[*gi];
        let (op_key, sid) = match crate::sim::grouprx::derive(cfid, &EPOCH[spec.key_set as usize - 1]) {
            Ok(x) => x,
            Err(e) => {
                v.inconclusive = Some(e);
                return v;
            }
        };
        let mut buf = bytes.clone();
        let mut pb = ParseBuf::new(buf.as_mut_slice());
        let mut hdr = PacketHdr::new();
        let what = |s: &str| format!("message #{k} sent to group {gid:#06x} (key set {}, {}): {s}; groups: {:?}", spec.key_set, if spec.iana { "IANA address" } else { "per-group address" }, case.groups);
        if hdr.decode_plain_hdr(&mut pb).is_err() {
            v.fail = Some(("group-tx:undecodable".into(), what("the datagram has no decodable message header")));
            return v;
        }
        if !hdr.plain.is_group_session() || hdr.plain.sess_id != sid {
            v.fail = Some((
                "group-tx:wrong-session-id".into(),
                what(&format!("group session flag {} session id {:#06x}, the group's key set derives {sid:#06x}", hdr.plain.is_group_session(), hdr.plain.sess_id)),
            ));
            return v;
        }
        if hdr.decode_remaining(mk_crypto(1), Some(CanonAeadKeyRef::new(&op_key)), SENDER, &mut pb).is_err() {
            v.fail = Some(("group-tx:not-authentic-for-the-group".into(), what("does not authenticate under the operational key of the group's key set")));
            return v;
        }
        if hdr.plain.get_dst_groupcast_nodeid() != Some(gid) {
            v.fail = Some((
                "group-tx:names-another-group".into(),
                what(&format!("the header names destination group {:?}", hdr.plain.get_dst_groupcast_nodeid())),
            ));
            return v;
        }
        if pb.as_slice() != payload.as_slice() {
            v.fail = Some(("group-tx:payload-differs".into(), what("the decrypted payload is not what was sent")));
            return v;
        }
    }
    v
}
