//! In-memory datagram switch with a wire tap and a pluggable per-datagram adversary.

use std::cell::RefCell;
use std::collections::VecDeque;
use std::future::poll_fn;
use std::net::{Ipv6Addr, SocketAddr, SocketAddrV6};
use std::task::{Poll, Waker};

use rs_matter::error::Error;
use rs_matter::transport::network::{Address, NetworkReceive, NetworkSend};

use super::clock;
use super::exec::TimeSource;

/// The address of simulated node `i` (port 5540 + i on `fe80::1:i`).
pub fn node_addr(i: usize) -> Address {
    Address::Udp(SocketAddr::V6(SocketAddrV6::new(
        Ipv6Addr::new(0xfe80, 0, 0, 0, 0, 0, 1, i as u16 + 1),
        5540 + i as u16,
        0,
        0,
    )))
}

/// An extra source address not owned by any node (for injected traffic).
pub fn alien_addr(i: usize) -> Address {
    Address::Udp(SocketAddr::V6(SocketAddrV6::new(
        Ipv6Addr::new(0xfe80, 0, 0, 0, 0, 0, 2, i as u16 + 1),
        6000 + i as u16,
        0,
        0,
    )))
}

/// One datagram as seen by the adversary when a node sends it.
#[derive(Debug, Clone)]
pub struct Sent {
    /// Sequence number of this `send_to` call (global, 0-based).
    pub seq: usize,
    pub t_us: u64,
    pub src: usize,
    pub dst: Option<usize>,
    pub dst_addr: Address,
    pub bytes: Vec<u8>,
}

/// One delivery into a node's socket queue.
#[derive(Debug, Clone)]
pub struct Delivered {
    pub t_us: u64,
    pub dst: usize,
    pub from: Address,
    /// `Some(seq)` if this is (a possibly modified copy of) the datagram sent with that seq.
    pub origin: Option<usize>,
    pub bytes: Vec<u8>,
    /// Whether the bytes differ from the original datagram.
    pub mutated: bool,
}

/// A datagram handed to the stack by `recv_from`.
#[derive(Debug, Clone)]
pub struct Consumed {
    pub t_us: u64,
    pub dst: usize,
    pub from: Address,
    pub origin: Option<usize>,
    pub bytes: Vec<u8>,
    pub mutated: bool,
}

/// Safety valve: no scenario legitimately sends that many datagrams.
pub const STORM_LIMIT: usize = 50_000;

/// What to do with a datagram: a list of `(delay µs, bytes)` deliveries; empty = drop.
pub type Actions = Vec<(u64, Vec<u8>)>;

/// Deliver once, unchanged, now.
pub fn deliver(s: &Sent) -> Actions {
    vec![(0, s.bytes.clone())]
}

struct Queued {
    from: Address,
    origin: Option<usize>,
    bytes: Vec<u8>,
    mutated: bool,
}

struct NodeQ {
    addr: Address,
    rx: VecDeque<Queued>,
    waker: Option<Waker>,
    /// When `false` the node is "powered off": datagrams to it vanish.
    up: bool,
}

struct Pending {
    at: u64,
    order: usize,
    dst: usize,
    from: Address,
    origin: Option<usize>,
    bytes: Vec<u8>,
    mutated: bool,
}

#[derive(Default)]
pub struct Tap {
    pub sent: Vec<Sent>,
    pub delivered: Vec<Delivered>,
    pub consumed: Vec<Consumed>,
}

struct Inner {
    nodes: Vec<NodeQ>,
    pending: Vec<Pending>,
    order: usize,
    tap: Tap,
    adversary: Option<Box<dyn FnMut(&Sent) -> Actions>>,
    /// (node, virtual microseconds): a send of that node to an address that is not a node of
    /// this net takes that long to complete (a slow link), keeping the node's TX slot busy
    slow_send: Option<(usize, u64)>,
}

pub struct Net {
    inner: RefCell<Inner>,
}

impl Net {
    pub fn new(nodes: usize) -> Self {
        Self {
            inner: RefCell::new(Inner {
                nodes: (0..nodes)
                    .map(|i| NodeQ {
                        addr: node_addr(i),
                        rx: VecDeque::new(),
                        waker: None,
                        up: true,
                    })
                    .collect(),
                pending: Vec::new(),
                order: 0,
                tap: Tap::default(),
                adversary: None,
                slow_send: None,
            }),
        }
    }

    /// Install the adversary. Without one every datagram is delivered immediately.
    pub fn set_adversary<F: FnMut(&Sent) -> Actions + 'static>(&self, f: F) {
        self.inner.borrow_mut().adversary = Some(Box::new(f));
    }

    /// Sends of `node` to addresses outside this net take `us` of virtual time to complete.
    pub fn set_slow_send(&self, node: usize, us: u64) {
        self.inner.borrow_mut().slow_send = Some((node, us));
    }

    fn send_delay(&self, node: usize, addr: &Address) -> u64 {
        let g = self.inner.borrow();
        match g.slow_send {
            Some((n, us)) if n == node && !(0..g.nodes.len()).any(|i| node_addr(i) == *addr) => us,
            _ => 0,
        }
    }

    pub fn clear_adversary(&self) {
        self.inner.borrow_mut().adversary = None;
    }

    pub fn end(&self, node: usize) -> NetEnd<'_> {
        NetEnd { net: self, node }
    }

    pub fn set_up(&self, node: usize, up: bool) {
        let mut g = self.inner.borrow_mut();
        g.nodes[node].up = up;
        if !up {
            g.nodes[node].rx.clear();
            g.pending.retain(|p| p.dst != node);
        }
    }

    /// Inject a crafted datagram into `dst`'s socket as if it came from `from`.
    pub fn inject(&self, dst: usize, from: Address, bytes: Vec<u8>) {
        let mut g = self.inner.borrow_mut();
        Self::enqueue(&mut g, dst, from, None, bytes, true);
    }

    fn enqueue(
        g: &mut Inner,
        dst: usize,
        from: Address,
        origin: Option<usize>,
        bytes: Vec<u8>,
        mutated: bool,
    ) {
        if !g.nodes[dst].up {
            return;
        }
        g.tap.delivered.push(Delivered {
            t_us: clock::now(),
            dst,
            from,
            origin,
            bytes: bytes.clone(),
            mutated,
        });
        g.nodes[dst].rx.push_back(Queued {
            from,
            origin,
            bytes,
            mutated,
        });
        if let Some(w) = g.nodes[dst].waker.take() {
            w.wake();
        }
    }

    /// `true` once more than [`STORM_LIMIT`] datagrams were sent: everything after is dropped.
    pub fn storm(&self) -> bool {
        self.inner.borrow().tap.sent.len() >= STORM_LIMIT
    }

    fn send(&self, src: usize, data: &[u8], addr: Address) {
        let mut g = self.inner.borrow_mut();
        if g.tap.sent.len() >= STORM_LIMIT {
            return;
        }
        let dst = g.nodes.iter().position(|n| n.addr == addr);
        let sent = Sent {
            seq: g.tap.sent.len(),
            t_us: clock::now(),
            src,
            dst,
            dst_addr: addr,
            bytes: data.to_vec(),
        };
        g.tap.sent.push(sent.clone());
        let Some(dst) = dst else {
            return;
        };
        let from = g.nodes[src].addr;
        // The adversary is called without the borrow held so it may inspect the tap.
        let mut adv = g.adversary.take();
        drop(g);
        let actions = match adv.as_mut() {
            Some(a) => a(&sent),
            None => deliver(&sent),
        };
        let mut g = self.inner.borrow_mut();
        if g.adversary.is_none() {
            g.adversary = adv;
        }
        for (delay, bytes) in actions {
            let mutated = bytes != sent.bytes;
            if delay == 0 {
                Self::enqueue(&mut g, dst, from, Some(sent.seq), bytes, mutated);
            } else {
                g.order += 1;
                let order = g.order;
                g.pending.push(Pending {
                    at: clock::now() + delay,
                    order,
                    dst,
                    from,
                    origin: Some(sent.seq),
                    bytes,
                    mutated,
                });
            }
        }
    }

    /// Read access to the tap.
    pub fn with_tap<R>(&self, f: impl FnOnce(&Tap) -> R) -> R {
        f(&self.inner.borrow().tap)
    }

    pub fn sent_count(&self) -> usize {
        self.inner.borrow().tap.sent.len()
    }

    pub fn queued(&self, node: usize) -> usize {
        self.inner.borrow().nodes[node].rx.len()
    }

    pub fn pending_count(&self) -> usize {
        self.inner.borrow().pending.len()
    }
}

impl TimeSource for Net {
    fn next_due(&self) -> Option<u64> {
        self.inner.borrow().pending.iter().map(|p| p.at).min()
    }

    fn fire(&self, now: u64) {
        let mut g = self.inner.borrow_mut();
        let mut due: Vec<Pending> = Vec::new();
        let mut i = 0;
        while i < g.pending.len() {
            if g.pending[i].at <= now {
                due.push(g.pending.swap_remove(i));
            } else {
                i += 1;
            }
        }
        due.sort_by_key(|p| (p.at, p.order));
        for p in due {
            Self::enqueue(&mut g, p.dst, p.from, p.origin, p.bytes, p.mutated);
        }
    }
}

/// One node's socket. `Copy`, so the same value serves as sender and receiver.
#[derive(Clone, Copy)]
pub struct NetEnd<'a> {
    net: &'a Net,
    node: usize,
}

impl NetworkSend for NetEnd<'_> {
    async fn send_to(&mut self, data: &[u8], addr: Address) -> Result<(), Error> {
        let d = self.net.send_delay(self.node, &addr);
        if d > 0 {
            embassy_time::Timer::after(embassy_time::Duration::from_micros(d)).await;
        }
        self.net.send(self.node, data, addr);
        Ok(())
    }
}

impl NetworkReceive for NetEnd<'_> {
    async fn wait_available(&mut self) -> Result<(), Error> {
        poll_fn(|cx| {
            let mut g = self.net.inner.borrow_mut();
            let n = &mut g.nodes[self.node];
            if !n.rx.is_empty() {
                Poll::Ready(Ok(()))
            } else {
                n.waker = Some(cx.waker().clone());
                Poll::Pending
            }
        })
        .await
    }

    async fn recv_from(&mut self, buffer: &mut [u8]) -> Result<(usize, Address), Error> {
        poll_fn(|cx| {
            let mut g = self.net.inner.borrow_mut();
            let node = self.node;
            if let Some(q) = g.nodes[node].rx.pop_front() {
                let len = q.bytes.len().min(buffer.len());
                buffer[..len].copy_from_slice(&q.bytes[..len]);
                g.tap.consumed.push(Consumed {
                    t_us: clock::now(),
                    dst: node,
                    from: q.from,
                    origin: q.origin,
                    bytes: q.bytes,
                    mutated: q.mutated,
                });
                Poll::Ready(Ok((len, q.from)))
            } else {
                g.nodes[node].waker = Some(cx.waker().clone());
                Poll::Pending
            }
        })
        .await
    }
}
