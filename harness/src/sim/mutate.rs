//! Datagram mutation helpers for unencrypted (handshake) messages: locate the protocol payload
//! and the TLV value bytes inside it, and apply generated mutations.

use proptest::prelude::*;
use serde::{Deserialize, Serialize};

use super::node::{decode_wire, Wire};
use crate::util::pick;

/// `(offset, len)` of every octet/UTF-8 string *value* inside a well-formed TLV payload, in
/// document order. A deliberately small walker: it only needs to understand what the secure
/// channel messages contain.
pub fn tlv_string_values(p: &[u8]) -> Vec<(usize, usize)> {
    let mut out = Vec::new();
    let mut i = 0usize;
    while i < p.len() {
        let ctrl = p[i];
        i += 1;
        let tag_len = match ctrl >> 5 {
            0 => 0,
            1 => 1,
            2 | 4 => 2,
            3 | 5 => 4,
            6 => 6,
            _ => 8,
        };
        i += tag_len;
        let ty = ctrl & 0x1f;
        match ty {
            0x00 | 0x04 => i += 1,
            0x01 | 0x05 => i += 2,
            0x02 | 0x06 | 0x0a => i += 4,
            0x03 | 0x07 | 0x0b => i += 8,
            0x08 | 0x09 | 0x14 => {}
            0x0c..=0x13 => {
                let lw = 1usize << (ty & 0x03);
                if i + lw > p.len() {
                    break;
                }
                let mut len = 0usize;
                for k in 0..lw.min(8) {
                    len |= (p[i + k] as usize) << (8 * k);
                }
                i += lw;
                if i + len > p.len() {
                    break;
                }
                out.push((i, len));
                i += len;
            }
            0x15..=0x17 | 0x18 => {}
            _ => break,
        }
    }
    out
}

#[derive(Debug, Clone, PartialEq, Eq, Serialize, Deserialize)]
pub enum MutKind {
    /// flip one bit of the `field`-th string value (selector-mapped), at `byte`/`bit`
    FlipValueBit { field: u16, byte: u16, bit: u8 },
    /// flip one bit anywhere in the protocol payload
    FlipPayloadBit { byte: u16, bit: u8 },
    /// cut the payload after `keep` (selector-mapped) bytes
    Truncate { keep: u16 },
    /// append bytes after the payload
    Extend { extra: Vec<u8> },
    /// replace the first 65-byte string value by a hostile curve point
    BadPoint { which: u8 },
    /// replace the payload by that of the same-opcode message recorded earlier (replay)
    ReplayOld,
}

#[derive(Debug, Clone, PartialEq, Eq, Serialize, Deserialize)]
pub struct Mutation {
    /// secure channel opcode of the message to attack
    pub opcode: u8,
    pub kind: MutKind,
    /// apply to every transmission of that message (true) or to the first only
    pub consistent: bool,
}

pub fn mut_kind() -> impl Strategy<Value = MutKind> {
    prop_oneof![
        5 => (any::<u16>(), any::<u16>(), 0u8..8).prop_map(|(field, byte, bit)| MutKind::FlipValueBit { field, byte, bit }),
        3 => (any::<u16>(), 0u8..8).prop_map(|(byte, bit)| MutKind::FlipPayloadBit { byte, bit }),
        1 => any::<u16>().prop_map(|keep| MutKind::Truncate { keep }),
        1 => prop::collection::vec(any::<u8>(), 1..6).prop_map(|extra| MutKind::Extend { extra }),
        2 => (0u8..6).prop_map(|which| MutKind::BadPoint { which }),
        1 => Just(MutKind::ReplayOld),
    ]
}

/// Where the protocol payload starts in an *unencrypted* datagram.
pub fn payload_offset(bytes: &[u8]) -> Option<(Wire, usize)> {
    let w = decode_wire(bytes, None, 0)?;
    if w.encrypted {
        return None;
    }
    let off = bytes.len().checked_sub(w.payload.len())?;
    Some((w, off))
}

/// The SPAKE2+ point M (P-256, uncompressed) — a valid curve point an attacker can always send.
pub const SPAKE2P_M: [u8; 65] = [
    0x04, 0x88, 0x6e, 0x2f, 0x97, 0xac, 0xe4, 0x6e, 0x55, 0xba, 0x9d, 0xd7, 0x24, 0x25, 0x79, 0xf2,
    0x99, 0x3b, 0x64, 0xe1, 0x6e, 0xf3, 0xdc, 0xab, 0x95, 0xaf, 0xd4, 0x97, 0x33, 0x3d, 0x8f, 0xa1,
    0x2f, 0x5f, 0xf3, 0x55, 0x16, 0x3e, 0x43, 0xce, 0x22, 0x4e, 0x0b, 0x0e, 0x65, 0xff, 0x02, 0xac,
    0x8e, 0x5c, 0x7b, 0xe0, 0x94, 0x19, 0xc7, 0x85, 0xe0, 0xca, 0x54, 0x7d, 0x55, 0xa1, 0x2e, 0x2d,
    0x20,
];

/// The P-256 base point G (uncompressed).
pub const P256_G: [u8; 65] = [
    0x04, 0x6b, 0x17, 0xd1, 0xf2, 0xe1, 0x2c, 0x42, 0x47, 0xf8, 0xbc, 0xe6, 0xe5, 0x63, 0xa4, 0x40,
    0xf2, 0x77, 0x03, 0x7d, 0x81, 0x2d, 0xeb, 0x33, 0xa0, 0xf4, 0xa1, 0x39, 0x45, 0xd8, 0x98, 0xc2,
    0x96, 0x4f, 0xe3, 0x42, 0xe2, 0xfe, 0x1a, 0x7f, 0x9b, 0x8e, 0xe7, 0xeb, 0x4a, 0x7c, 0x0f, 0x9e,
    0x16, 0x2b, 0xce, 0x33, 0x57, 0x6b, 0x31, 0x5e, 0xce, 0xcb, 0xb6, 0x40, 0x68, 0x37, 0xbf, 0x51,
    0xf5,
];

/// Result of applying a mutation: the new datagram and how the change is classified.
#[derive(Debug, Clone, PartialEq, Eq)]
pub enum Class {
    /// bytes unchanged
    None,
    /// a string *value* (or, for transcript-bound messages, any payload byte) changed
    Value,
    /// only TLV structure / trailing bytes changed: the effect on the handshake is not stated
    Structural,
}

/// Apply `kind` to the datagram `bytes`. `old` = payload of the same-opcode message of an earlier
/// handshake (for `ReplayOld`). `whole_payload_bound` = every payload byte is covered by the
/// handshake transcript (PBKDFParamRequest/Response, Sigma1/2/3), so any change is a value change.
pub fn apply(
    bytes: &[u8],
    kind: &MutKind,
    old: Option<&[u8]>,
    whole_payload_bound: bool,
) -> (Vec<u8>, Class) {
    let Some((w, off)) = payload_offset(bytes) else {
        return (bytes.to_vec(), Class::None);
    };
    let plen = w.payload.len();
    let mut out = bytes.to_vec();
    let bound = |c: Class| -> Class {
        if whole_payload_bound && c == Class::Structural {
            Class::Value
        } else {
            c
        }
    };
    match kind {
        MutKind::FlipValueBit { field, byte, bit } => {
            let vals: Vec<(usize, usize)> = tlv_string_values(&w.payload)
                .into_iter()
                .filter(|(_, l)| *l > 0)
                .collect();
            if vals.is_empty() {
                return (out, Class::None);
            }
            let (vo, vl) = vals[pick(*field, vals.len())];
            let b = vo + pick(*byte, vl);
            out[off + b] ^= 1 << (bit & 7);
            (out, Class::Value)
        }
        MutKind::FlipPayloadBit { byte, bit } => {
            if plen == 0 {
                return (out, Class::None);
            }
            let b = pick(*byte, plen);
            out[off + b] ^= 1 << (bit & 7);
            let in_value = tlv_string_values(&w.payload)
                .iter()
                .any(|(vo, vl)| b >= *vo && b < vo + vl);
            (out, bound(if in_value { Class::Value } else { Class::Structural }))
        }
        MutKind::Truncate { keep } => {
            if plen == 0 {
                return (out, Class::None);
            }
            let k = pick(*keep, plen);
            out.truncate(off + k);
            (out, bound(Class::Structural))
        }
        MutKind::Extend { extra } => {
            // Bytes after the TLV structure: whether they are ignored or make the message
            // invalid is not stated, so this stays "structural" even for transcript-bound
            // messages.
            out.extend_from_slice(extra);
            (out, Class::Structural)
        }
        MutKind::BadPoint { which } => {
            let Some((vo, _)) = tlv_string_values(&w.payload)
                .into_iter()
                .find(|(_, l)| *l == 65)
            else {
                return (out, Class::None);
            };
            let dst = &mut out[off + vo..off + vo + 65];
            match which % 6 {
                0 => dst.fill(0),
                1 => {
                    dst.fill(0);
                    dst[0] = 4;
                }
                2 => dst[64] ^= 1, // off the curve (same x, y+-1)
                3 => dst.copy_from_slice(&P256_G),
                4 => dst.copy_from_slice(&SPAKE2P_M),
                _ => dst[0] = 2, // wrong format byte
            }
            if out == bytes {
                (out, Class::None)
            } else {
                (out, Class::Value)
            }
        }
        MutKind::ReplayOld => {
            let Some(old) = old else {
                return (out, Class::None);
            };
            out.truncate(off);
            out.extend_from_slice(old);
            if out == bytes {
                (out, Class::None)
            } else {
                (out, Class::Value)
            }
        }
    }
}
