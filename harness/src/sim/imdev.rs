//! Synthetic Interaction-Model device and a hand-rolled IM controller for the simulator.
//!
//! # What is in here (API summary)
//!
//! * [`tlv`] — a tiny Matter-TLV encoder ([`tlv::Enc`]) and tree decoder ([`tlv::parse`] ->
//!   [`tlv::Val`]) that do NOT use rs-matter's TLV code (so requests can be malformed on purpose
//!   and answers are decoded independently of the code under test).
//! * [`NodeSpec`] / [`EndpointSpec`] / [`ClusterSpec`] / [`AttrSpec`] / [`CmdSpec`] /
//!   [`EventSpec`] — a serde-serializable description of a node (ids, `Access` bits as `u16`,
//!   scalar/list attributes with value sizes, commands with/without response, events).
//!   [`NodeSpec::normalize`] sorts endpoints and removes duplicate ids.
//! * [`SynthNode`] — built from a `NodeSpec`; owns the metadata (`Attribute`/`Command`/`Event`/
//!   `DeviceType` vectors) and implements
//!     - `rs_matter::dm::Metadata`: every `access()` call assembles a `Node<'_>` borrowing from
//!       the `SynthNode` (nothing is leaked; endpoints can be hidden / shown at run time with
//!       [`SynthNode::set_hidden`], e.g. between two chunks of a long answer),
//!     - `rs_matter::dm::Handler` + `NonBlockingHandler`: serves generated values (octet strings of
//!       the given size, arrays of octet strings for lists, list-index reads for chunked lists),
//!       stores written values, echoes command payloads, and LOGS every read / write / invoke
//!       into [`SynthNode::calls`] ([`HandlerCall`]: path, fabric index, fabric-filtered flag,
//!       list index, data, accepted?, virtual time).
//!   The data model handed to `InteractionModel::new` is `(&node, Async(&node))`.
//! * [`ImRig`] — the two `Matter` objects (device = net node 0, controller = net node 1), the
//!   network, buffers and `InteractionModelState`. [`ImRig::run`] builds the real
//!   `InteractionModel` + `Responder::new_default` (SecureChannel + IM chain) + `dm.run()` +
//!   both `Matter::run` loops on a [`super::Exec`] and drives them until the supplied controller
//!   future completes (or the virtual deadline passes). Device-side actions that need the
//!   `InteractionModel` object (emit an event, notify an attribute change) are queued with
//!   [`ImRig::emit_event`] / [`ImRig::notify_attr_changed`] and executed by a device task;
//!   `rig.flush().await` waits until the queue is drained.
//! * [`Requester`] + [`ImRig::plant`] — plant a CASE (fabric index, node id, CATs), PASE (with or
//!   without fabric) or Group session pair; returns the controller-side internal session id for
//!   `Exchange::initiate_for_session`. Fabrics / ACLs are installed by the caller with
//!   `rig.dev.with_state(..)` (see `bin/c05.rs::install`, `tests/common/e2e.rs`).
//! * Controller helpers (hand-encoded requests, independent decoding of the whole, possibly
//!   chunked, answer): [`read`], [`subscribe`] (priming only), [`write`], [`invoke`], with
//!   [`ReadReq`], [`WriteItem`], [`InvokeItem`], optional [`Timed`] (Timed request + virtual delay),
//!   [`send_only`] (unreliable, no answer awaited: for [`Requester::Group`]),
//!   returning [`ReadOutcome`] (`Vec<ReportItem>` + `Vec<EventItem>`), [`WriteOutcome`]
//!   (`Vec<WriteStatus>`), [`InvokeOutcome`] (`Vec<InvokeResult>`). A `StatusResponse` instead of
//!   the expected message is reported in `.status`, transport errors / silence / an answer of
//!   more than [`MAX_CHUNKS`] chunks in `.error`; `.times` holds the virtual instants of the
//!   Timed request, its status, the action and the answer. [`fold_lists`] re-assembles list
//!   attributes that were reported item by item; the `on_chunk` callback of [`read`] /
//!   [`subscribe`] runs between two chunks (e.g. to call [`SynthNode::set_hidden`]).
//!
//! * Long-lived SUBSCRIBER (property C13, level L2; see the section at the end of this file):
//!   [`SubscriberHub`] — a controller-side `ExchangeHandler` that accepts the exchanges the device
//!   opens for `ReportData`, records every chunk ([`ReportRecord`]) and answers per subscription id
//!   and virtual time ([`SubReply`]: success / refusal status / no IM answer); [`ImRig::run_sub`]
//!   — [`ImRig::run`] plus controller responder tasks, an arbitrary key-value store, an optional
//!   external `InteractionModelState` ([`new_im_state`]) and `InteractionModel::startup()` for
//!   restarts with persisted subscriptions; [`plant_info`] — ids and keys of the n-th planted pair
//!   for decrypting the tap; [`decode_report_data`], [`decode_status_response`],
//!   [`decode_subscribe_response`]; [`ImRig::im_state`], [`ImRig::planted_count`].
//!
//! * Chunked WriteRequests (property C06, sub-check `write-chunked`; see the end of this file):
//!   [`encode_write_chunk`] (TimedRequest + MoreChunkedMessages flags), [`WriteChunk`],
//!   [`write_chunked`] — (Timed request,) 2..n WriteRequest chunks on one exchange, each answered
//!   by a WriteResponse, generated virtual delays between them; stops at the first chunk that
//!   is not answered by a WriteResponse; returns [`ChunkedWriteOutcome`] (one
//!   [`WriteChunkOutcome`] with virtual send / answer instants per chunk sent).
//!
//! Cost: about 0.3 ms per request (planted sessions, no handshakes). Nothing is leaked: all
//! metadata lives in `Vec`s owned by the `SynthNode`, the rig is one `Box`, futures are boxed by
//! the executor and dropped at the end of [`ImRig::run`].
//!
//! Typical use: see `bin/c06.rs::run_case`.

use std::cell::{Cell, RefCell};
use std::collections::{BTreeMap, BTreeSet, VecDeque};
use std::future::Future;
use std::num::NonZeroU8;

use embassy_futures::select::{select, Either};
use embassy_time::{Duration, Timer};
use serde::{Deserialize, Serialize};

use rs_matter::crypto::{CanonAeadKeyRef, Crypto};
use rs_matter::dm::clusters::net_comm::DummyNetworks;
use rs_matter::dm::{
    Access, Async, AttrChangeNotifier, Attribute, Cluster, Command, DeviceType, Endpoint, Event,
    EventEmitter, Handler, InvokeContext, InvokeReply, MatchContext, Metadata, Node,
    NonBlockingHandler, Quality, ReadContext, ReadReply, Reply, WriteContext,
};
use rs_matter::error::{Error, ErrorCode};
use rs_matter::im::{EventPriority, InteractionModel, InteractionModelState, OpCode};
use rs_matter::persist::DummyKvBlobStore;
use rs_matter::respond::Responder;
use rs_matter::tlv::{TLVTag, TLVWrite};
use rs_matter::transport::exchange::{Exchange, MatterBuffers};
use rs_matter::transport::network::{Address, NoNetwork};
use rs_matter::transport::session::{NocCatIds, ReservedSession, SessionMode};
use rs_matter::Matter;

use super::net::{node_addr, Net};
use super::node::{mk_crypto, new_matter};
use super::{clock, Exec, Sched, Stop, SEC};

// =================================================================================================
// Mini TLV
// =================================================================================================

pub mod tlv {
    //! Minimal Matter TLV codec, independent of rs-matter.

    #[derive(Debug, Clone, Copy, PartialEq, Eq, PartialOrd, Ord)]
    pub enum Tag {
        Anon,
        Ctx(u8),
        /// profile-specific / fully qualified tags (never used by the IM)
        Other(u64),
    }

    #[derive(Debug, Clone, PartialEq, PartialOrd)]
    pub enum Val {
        U(u64),
        I(i64),
        Bool(bool),
        F(f64),
        Bytes(Vec<u8>),
        Utf8(Vec<u8>),
        Null,
        Struct(Vec<(Tag, Val)>),
        Array(Vec<(Tag, Val)>),
        List(Vec<(Tag, Val)>),
    }

    impl Val {
        /// Member with context tag `t` of a struct / list.
        pub fn ctx(&self, t: u8) -> Option<&Val> {
            match self {
                Val::Struct(m) | Val::List(m) | Val::Array(m) => {
                    m.iter().find(|(tag, _)| *tag == Tag::Ctx(t)).map(|(_, v)| v)
                }
                _ => None,
            }
        }

        pub fn items(&self) -> &[(Tag, Val)] {
            match self {
                Val::Struct(m) | Val::List(m) | Val::Array(m) => m,
                _ => &[],
            }
        }

        pub fn u(&self) -> Option<u64> {
            match self {
                Val::U(v) => Some(*v),
                _ => None,
            }
        }

        pub fn b(&self) -> Option<bool> {
            match self {
                Val::Bool(v) => Some(*v),
                _ => None,
            }
        }

        pub fn bytes(&self) -> Option<&[u8]> {
            match self {
                Val::Bytes(v) => Some(v),
                _ => None,
            }
        }
    }

    fn take<'a>(b: &mut &'a [u8], n: usize) -> Option<&'a [u8]> {
        if b.len() < n {
            return None;
        }
        let (h, t) = b.split_at(n);
        *b = t;
        Some(h)
    }

    fn le(b: &[u8]) -> u64 {
        let mut v = 0u64;
        for (i, x) in b.iter().enumerate() {
            v |= (*x as u64) << (8 * i);
        }
        v
    }

    fn elem(b: &mut &[u8], depth: usize) -> Option<Option<(Tag, Val)>> {
        if depth > 16 {
            return None;
        }
        let c = take(b, 1)?[0];
        let ty = c & 0x1f;
        let tag = match c >> 5 {
            0 => Tag::Anon,
            1 => Tag::Ctx(take(b, 1)?[0]),
            2 | 4 => Tag::Other(le(take(b, 2)?)),
            3 | 5 => Tag::Other(le(take(b, 4)?)),
            6 => Tag::Other(le(take(b, 6)?)),
            _ => Tag::Other(le(take(b, 8)?)),
        };
        let val = match ty {
            0x00..=0x03 => {
                let n = 1usize << ty;
                let raw = le(take(b, n)?);
                let shift = 64 - 8 * n as u32;
                Val::I(((raw << shift) as i64) >> shift)
            }
            0x04..=0x07 => Val::U(le(take(b, 1usize << (ty - 4))?)),
            0x08 => Val::Bool(false),
            0x09 => Val::Bool(true),
            0x0a => Val::F(f32::from_bits(le(take(b, 4)?) as u32) as f64),
            0x0b => Val::F(f64::from_bits(le(take(b, 8)?))),
            0x0c..=0x0f => {
                let len = le(take(b, 1usize << (ty - 0x0c))?) as usize;
                Val::Utf8(take(b, len)?.to_vec())
            }
            0x10..=0x13 => {
                let len = le(take(b, 1usize << (ty - 0x10))?) as usize;
                Val::Bytes(take(b, len)?.to_vec())
            }
            0x14 => Val::Null,
            0x15..=0x17 => {
                let mut members = Vec::new();
                loop {
                    match elem(b, depth + 1)? {
                        Some(m) => members.push(m),
                        None => break,
                    }
                }
                match ty {
                    0x15 => Val::Struct(members),
                    0x16 => Val::Array(members),
                    _ => Val::List(members),
                }
            }
            0x18 => return Some(None),
            _ => return None,
        };
        Some(Some((tag, val)))
    }

    /// Decode one complete element; `None` if malformed / truncated / trailing garbage.
    pub fn parse(mut bytes: &[u8]) -> Option<(Tag, Val)> {
        let r = elem(&mut bytes, 0)??;
        if bytes.is_empty() {
            Some(r)
        } else {
            None
        }
    }

    /// Encoder (minimal-width integers, 1- or 2-byte string lengths).
    #[derive(Default, Debug, Clone)]
    pub struct Enc {
        pub buf: Vec<u8>,
    }

    impl Enc {
        pub fn new() -> Self {
            Self::default()
        }

        fn ctl(&mut self, tag: Tag, ty: u8) {
            match tag {
                Tag::Anon => self.buf.push(ty),
                Tag::Ctx(t) => {
                    self.buf.push(0x20 | ty);
                    self.buf.push(t);
                }
                Tag::Other(v) => {
                    self.buf.push(0xe0 | ty);
                    self.buf.extend_from_slice(&v.to_le_bytes());
                }
            }
        }

        pub fn uint(&mut self, tag: Tag, v: u64) -> &mut Self {
            if v <= 0xff {
                self.ctl(tag, 0x04);
                self.buf.push(v as u8);
            } else if v <= 0xffff {
                self.ctl(tag, 0x05);
                self.buf.extend_from_slice(&(v as u16).to_le_bytes());
            } else if v <= 0xffff_ffff {
                self.ctl(tag, 0x06);
                self.buf.extend_from_slice(&(v as u32).to_le_bytes());
            } else {
                self.ctl(tag, 0x07);
                self.buf.extend_from_slice(&v.to_le_bytes());
            }
            self
        }

        pub fn boolean(&mut self, tag: Tag, v: bool) -> &mut Self {
            self.ctl(tag, if v { 0x09 } else { 0x08 });
            self
        }

        pub fn null(&mut self, tag: Tag) -> &mut Self {
            self.ctl(tag, 0x14);
            self
        }

        pub fn bytes(&mut self, tag: Tag, v: &[u8]) -> &mut Self {
            if v.len() <= 0xff {
                self.ctl(tag, 0x10);
                self.buf.push(v.len() as u8);
            } else {
                self.ctl(tag, 0x11);
                self.buf.extend_from_slice(&(v.len() as u16).to_le_bytes());
            }
            self.buf.extend_from_slice(v);
            self
        }

        pub fn start_struct(&mut self, tag: Tag) -> &mut Self {
            self.ctl(tag, 0x15);
            self
        }

        pub fn start_array(&mut self, tag: Tag) -> &mut Self {
            self.ctl(tag, 0x16);
            self
        }

        pub fn start_list(&mut self, tag: Tag) -> &mut Self {
            self.ctl(tag, 0x17);
            self
        }

        pub fn end(&mut self) -> &mut Self {
            self.buf.push(0x18);
            self
        }

        /// Append an already encoded element verbatim.
        pub fn raw(&mut self, bytes: &[u8]) -> &mut Self {
            self.buf.extend_from_slice(bytes);
            self
        }
    }
}

use tlv::{Enc, Tag, Val};

// =================================================================================================
// Node specification
// =================================================================================================

#[derive(Debug, Clone, PartialEq, Eq, Serialize, Deserialize)]
pub struct AttrSpec {
    pub id: u32,
    /// raw `rs_matter::dm::Access` bits
    pub access: u16,
    pub is_list: bool,
    /// size of the scalar value / of every list item (octets)
    pub size: u16,
    /// number of list items (ignored for scalars)
    pub items: u8,
}

#[derive(Debug, Clone, PartialEq, Eq, Serialize, Deserialize)]
pub struct CmdSpec {
    pub id: u32,
    pub access: u16,
    /// id of the response command; `None` = the command answers with a status only
    pub resp: Option<u32>,
}

#[derive(Debug, Clone, PartialEq, Eq, Serialize, Deserialize)]
pub struct EventSpec {
    pub id: u32,
    pub access: u16,
}

#[derive(Debug, Clone, PartialEq, Eq, Serialize, Deserialize)]
pub struct ClusterSpec {
    pub id: u32,
    /// initial data version of the cluster instance
    pub dataver: u32,
    pub attributes: Vec<AttrSpec>,
    pub commands: Vec<CmdSpec>,
    pub events: Vec<EventSpec>,
}

#[derive(Debug, Clone, PartialEq, Eq, Serialize, Deserialize)]
pub struct EndpointSpec {
    pub id: u16,
    pub device_types: Vec<u16>,
    pub clusters: Vec<ClusterSpec>,
}

#[derive(Debug, Clone, PartialEq, Eq, Serialize, Deserialize, Default)]
pub struct NodeSpec {
    pub endpoints: Vec<EndpointSpec>,
}

impl NodeSpec {
    /// Enforce the documented `Node` invariants: endpoints strictly ascending by id; cluster ids
    /// unique per endpoint; attribute / command / event ids unique per cluster (first wins).
    pub fn normalize(&mut self) {
        self.endpoints.sort_by_key(|e| e.id);
        self.endpoints.dedup_by_key(|e| e.id);
        for e in &mut self.endpoints {
            let mut seen = BTreeSet::new();
            e.clusters.retain(|c| seen.insert(c.id));
            for c in &mut e.clusters {
                let mut s = BTreeSet::new();
                c.attributes.retain(|a| s.insert(a.id));
                let mut s = BTreeSet::new();
                c.commands.retain(|a| s.insert(a.id));
                let mut s = BTreeSet::new();
                c.events.retain(|a| s.insert(a.id));
            }
        }
    }

    pub fn endpoint(&self, id: u16) -> Option<&EndpointSpec> {
        self.endpoints.iter().find(|e| e.id == id)
    }

    pub fn cluster(&self, ep: u16, cl: u32) -> Option<&ClusterSpec> {
        self.endpoint(ep)?.clusters.iter().find(|c| c.id == cl)
    }
}

/// Value of a synthetic attribute.
#[derive(Debug, Clone, PartialEq, Eq, PartialOrd, Ord, Serialize, Deserialize)]
pub enum Value {
    Scalar(Vec<u8>),
    List(Vec<Vec<u8>>),
}

impl Value {
    pub fn to_val(&self) -> Val {
        match self {
            Value::Scalar(b) => Val::Bytes(b.clone()),
            Value::List(items) => Val::Array(items.iter().map(|i| (Tag::Anon, Val::Bytes(i.clone()))).collect()),
        }
    }

    pub fn from_val(v: &Val) -> Option<Value> {
        match v {
            Val::Bytes(b) => Some(Value::Scalar(b.clone())),
            Val::Array(items) => {
                let mut out = Vec::new();
                for (_, i) in items {
                    out.push(i.bytes()?.to_vec());
                }
                Some(Value::List(out))
            }
            _ => None,
        }
    }

    fn encode(&self, tag: Tag, e: &mut Enc) {
        match self {
            Value::Scalar(b) => {
                e.bytes(tag, b);
            }
            Value::List(items) => {
                e.start_array(tag);
                for i in items {
                    e.bytes(Tag::Anon, i);
                }
                e.end();
            }
        }
    }
}

fn pattern(ep: u16, cl: u32, id: u32, item: u32, len: usize) -> Vec<u8> {
    let mut x = (ep as u64) << 48 ^ (cl as u64) << 24 ^ (id as u64) << 8 ^ item as u64 ^ 0x9E37_79B9_7F4A_7C15;
    (0..len)
        .map(|_| {
            x ^= x << 13;
            x ^= x >> 7;
            x ^= x << 17;
            (x >> 24) as u8
        })
        .collect()
}

/// The value a fresh [`SynthNode`] serves for an attribute (a pure function of path and spec).
pub fn initial_value(ep: u16, cl: u32, a: &AttrSpec) -> Value {
    if a.is_list {
        Value::List((0..a.items as u32).map(|i| pattern(ep, cl, a.id, i + 1, a.size as usize)).collect())
    } else {
        Value::Scalar(pattern(ep, cl, a.id, 0, a.size as usize))
    }
}

// =================================================================================================
// The synthetic node: metadata + instrumented handler
// =================================================================================================

#[derive(Debug, Clone, Copy, PartialEq, Eq, PartialOrd, Ord)]
pub enum Op {
    Read,
    Write,
    Invoke,
}

/// One call the Interaction Model made into the cluster handler.
#[derive(Debug, Clone, PartialEq, Eq)]
pub struct HandlerCall {
    pub op: Op,
    pub endpoint: u16,
    pub cluster: u32,
    pub leaf: u32,
    /// fabric index the IM engine attributes to the requester
    pub fab_idx: u8,
    /// fabric-filtered flag (reads: from the request; writes: always true)
    pub fab_filter: bool,
    /// `None` = whole attribute, `Some(None)` = null index (append / empty list), `Some(Some(i))`
    pub list_index: Option<Option<u16>>,
    /// the request path was a wildcard
    pub wildcard: bool,
    /// written value / command payload
    pub data: Option<Value>,
    /// the handler accepted the operation (returned `Ok`)
    pub accepted: bool,
    pub t_us: u64,
}

type AKey = (u16, u32, u32);

pub struct SynthNode {
    spec: NodeSpec,
    dts: Vec<Vec<DeviceType>>,
    attrs: Vec<Vec<Vec<Attribute>>>,
    cmds: Vec<Vec<Vec<Command>>>,
    events: Vec<Vec<Vec<Event>>>,
    hidden: RefCell<BTreeSet<u16>>,
    access_calls: Cell<u64>,
    values: RefCell<BTreeMap<AKey, Value>>,
    datavers: RefCell<BTreeMap<(u16, u32), u32>>,
    log: RefCell<Vec<HandlerCall>>,
}

fn all(_: &Attribute, _: u16, _: u32) -> bool {
    true
}
fn all_c(_: &Command, _: u16, _: u32) -> bool {
    true
}
fn all_e(_: &Event, _: u16, _: u32) -> bool {
    true
}

impl SynthNode {
    /// Build the metadata and the initial attribute values. The spec is normalized first.
    pub fn new(spec: &NodeSpec) -> Self {
        let mut spec = spec.clone();
        spec.normalize();
        let mut values = BTreeMap::new();
        let mut datavers = BTreeMap::new();
        let mut dts = Vec::new();
        let mut attrs = Vec::new();
        let mut cmds = Vec::new();
        let mut events = Vec::new();
        for e in &spec.endpoints {
            dts.push(e.device_types.iter().map(|d| DeviceType { dtype: *d, drev: 1 }).collect::<Vec<_>>());
            let mut ea = Vec::new();
            let mut ec = Vec::new();
            let mut ee = Vec::new();
            for c in &e.clusters {
                datavers.insert((e.id, c.id), c.dataver);
                ea.push(
                    c.attributes
                        .iter()
                        .map(|a| {
                            values.insert((e.id, c.id, a.id), initial_value(e.id, c.id, a));
                            Attribute::new(
                                a.id,
                                Access::from_bits_truncate(a.access),
                                if a.is_list { Quality::ARRAY } else { Quality::NONE },
                            )
                        })
                        .collect::<Vec<_>>(),
                );
                ec.push(
                    c.commands
                        .iter()
                        .map(|k| Command::new(k.id, k.resp, Access::from_bits_truncate(k.access)))
                        .collect::<Vec<_>>(),
                );
                ee.push(
                    c.events
                        .iter()
                        .map(|k| Event::new(k.id, Access::from_bits_truncate(k.access)))
                        .collect::<Vec<_>>(),
                );
            }
            attrs.push(ea);
            cmds.push(ec);
            events.push(ee);
        }
        Self {
            spec,
            dts,
            attrs,
            cmds,
            events,
            hidden: RefCell::new(BTreeSet::new()),
            access_calls: Cell::new(0),
            values: RefCell::new(values),
            datavers: RefCell::new(datavers),
            log: RefCell::new(Vec::new()),
        }
    }

    /// The (normalized) specification this node was built from.
    pub fn spec(&self) -> &NodeSpec {
        &self.spec
    }

    /// Endpoints in `ids` are no longer served by `Metadata::access` (until un-hidden): the node
    /// composition as seen by the Interaction Model changes. The handler keeps their values.
    pub fn set_hidden(&self, ids: &[u16]) {
        *self.hidden.borrow_mut() = ids.iter().copied().collect();
    }

    pub fn hidden(&self) -> Vec<u16> {
        self.hidden.borrow().iter().copied().collect()
    }

    /// Number of `Metadata::access` calls so far.
    pub fn access_calls(&self) -> u64 {
        self.access_calls.get()
    }

    /// The handler call log.
    pub fn calls(&self) -> Vec<HandlerCall> {
        self.log.borrow().clone()
    }

    pub fn clear_calls(&self) {
        self.log.borrow_mut().clear();
    }

    /// Current value of an attribute as stored by the handler.
    pub fn value(&self, ep: u16, cl: u32, attr: u32) -> Option<Value> {
        self.values.borrow().get(&(ep, cl, attr)).cloned()
    }

    /// Change a value behind the IM's back (pair with `ImRig::notify_attr_changed`).
    pub fn set_value(&self, ep: u16, cl: u32, attr: u32, v: Value) {
        self.values.borrow_mut().insert((ep, cl, attr), v);
    }

    /// Current data version of a cluster instance.
    pub fn dataver(&self, ep: u16, cl: u32) -> Option<u32> {
        self.datavers.borrow().get(&(ep, cl)).copied()
    }

    /// Run `f` on the `Node<'_>` currently served (same as `Metadata::access`).
    pub fn with_node<R>(&self, f: impl FnOnce(&Node<'_>) -> R) -> R {
        let hidden = self.hidden.borrow();
        let clusters: Vec<Vec<Cluster<'_>>> = self
            .spec
            .endpoints
            .iter()
            .enumerate()
            .map(|(ei, e)| {
                e.clusters
                    .iter()
                    .enumerate()
                    .map(|(ci, c)| {
                        Cluster::new(
                            c.id,
                            1,
                            0,
                            &self.attrs[ei][ci],
                            &self.cmds[ei][ci],
                            &self.events[ei][ci],
                            all,
                            all_c,
                            all_e,
                        )
                    })
                    .collect()
            })
            .collect();
        let endpoints: Vec<Endpoint<'_>> = self
            .spec
            .endpoints
            .iter()
            .enumerate()
            .filter(|(_, e)| !hidden.contains(&e.id))
            .map(|(ei, e)| Endpoint::new(e.id, &self.dts[ei], &clusters[ei]))
            .collect();
        drop(hidden);
        f(&Node::new(&endpoints))
    }

    fn push(&self, c: HandlerCall) -> usize {
        let mut l = self.log.borrow_mut();
        l.push(c);
        l.len() - 1
    }

    fn accept(&self, idx: usize) {
        if let Some(c) = self.log.borrow_mut().get_mut(idx) {
            c.accepted = true;
        }
    }
}

impl Metadata for SynthNode {
    fn access<F, R>(&self, f: F) -> R
    where
        F: FnOnce(&Node<'_>) -> R,
    {
        self.access_calls.set(self.access_calls.get() + 1);
        self.with_node(f)
    }
}

impl Handler for SynthNode {
    fn read(&self, ctx: impl ReadContext, reply: impl ReadReply) -> Result<(), Error> {
        let a = ctx.attr();
        let key = (a.endpoint_id, a.cluster_id, a.attr_id);
        let li: Option<Option<u16>> = a.list_index.clone().map(|l| l.into_option());
        let idx = self.push(HandlerCall {
            op: Op::Read,
            endpoint: key.0,
            cluster: key.1,
            leaf: key.2,
            fab_idx: a.fab_idx,
            fab_filter: a.fab_filter,
            list_index: li,
            wildcard: a.wildcard,
            data: None,
            accepted: false,
            t_us: clock::now(),
        });
        let Some(value) = self.values.borrow().get(&key).cloned() else {
            return Err(ErrorCode::AttributeNotFound.into());
        };
        let dv = self.datavers.borrow().get(&(key.0, key.1)).copied().unwrap_or(0);
        let Some(mut w) = reply.with_dataver(dv)? else {
            self.accept(idx);
            return Ok(());
        };
        let tag = w.tag();
        match (&value, li) {
            (Value::Scalar(b), None) => w.writer().str(tag, b)?,
            (Value::Scalar(_), Some(_)) => return Err(ErrorCode::InvalidAction.into()),
            (Value::List(items), None) => {
                let mut tw = w.writer();
                tw.start_array(tag)?;
                for i in items {
                    tw.str(&TLVTag::Anonymous, i)?;
                }
                tw.end_container()?;
            }
            (Value::List(_), Some(None)) => {
                let mut tw = w.writer();
                tw.start_array(tag)?;
                tw.end_container()?;
            }
            (Value::List(items), Some(Some(i))) => {
                let item = items.get(i as usize).ok_or(ErrorCode::ConstraintError)?;
                w.writer().str(tag, item)?;
            }
        }
        w.complete()?;
        self.accept(idx);
        Ok(())
    }

    fn write(&self, ctx: impl WriteContext) -> Result<(), Error> {
        let a = ctx.attr();
        let key = (a.endpoint_id, a.cluster_id, a.attr_id);
        let li: Option<Option<u16>> = a.list_index.clone().map(|l| l.into_option());
        let data = ctx.data();
        // decode what we were handed (octet string or array of octet strings)
        let decoded: Option<Value> = if let Ok(b) = data.str() {
            Some(Value::Scalar(b.to_vec()))
        } else if let Ok(seq) = data.array() {
            let mut items = Vec::new();
            let mut ok = true;
            for i in seq.iter() {
                match i.and_then(|i| i.str().map(|s| s.to_vec())) {
                    Ok(s) => items.push(s),
                    Err(_) => {
                        ok = false;
                        break;
                    }
                }
            }
            ok.then_some(Value::List(items))
        } else {
            None
        };
        let idx = self.push(HandlerCall {
            op: Op::Write,
            endpoint: key.0,
            cluster: key.1,
            leaf: key.2,
            fab_idx: a.fab_idx,
            fab_filter: a.fab_filter,
            list_index: li,
            wildcard: a.wildcard,
            data: decoded.clone(),
            accepted: false,
            t_us: clock::now(),
        });
        let dv = self.datavers.borrow().get(&(key.0, key.1)).copied().unwrap_or(0);
        a.check_dataver(dv)?;
        let mut values = self.values.borrow_mut();
        let Some(slot) = values.get_mut(&key) else {
            return Err(ErrorCode::AttributeNotFound.into());
        };
        let Some(decoded) = decoded else {
            return Err(ErrorCode::InvalidDataType.into());
        };
        match (&mut *slot, decoded, li) {
            (Value::Scalar(s), Value::Scalar(n), None) => *s = n,
            (Value::List(l), Value::List(n), None) => *l = n,
            (Value::List(l), Value::Scalar(n), Some(None)) => l.push(n),
            (_, _, Some(Some(_))) => return Err(ErrorCode::InvalidAction.into()),
            _ => return Err(ErrorCode::InvalidDataType.into()),
        }
        drop(values);
        self.accept(idx);
        Ok(())
    }

    fn invoke(&self, ctx: impl InvokeContext, reply: impl InvokeReply) -> Result<(), Error> {
        let c = ctx.cmd();
        let data = ctx.data();
        // payload convention: struct { 0: octet string }
        let payload: Option<Vec<u8>> = data
            .structure()
            .ok()
            .and_then(|s| s.find_ctx(0).ok())
            .and_then(|e| e.str().ok().map(|b| b.to_vec()));
        let idx = self.push(HandlerCall {
            op: Op::Invoke,
            endpoint: c.endpoint_id,
            cluster: c.cluster_id,
            leaf: c.cmd_id,
            fab_idx: c.fab_idx,
            fab_filter: false,
            list_index: None,
            wildcard: c.wildcard,
            data: payload.clone().map(Value::Scalar),
            accepted: false,
            t_us: clock::now(),
        });
        let Some(spec) = self
            .spec
            .cluster(c.endpoint_id, c.cluster_id)
            .and_then(|cl| cl.commands.iter().find(|k| k.id == c.cmd_id))
        else {
            return Err(ErrorCode::CommandNotFound.into());
        };
        if let Some(resp) = spec.resp {
            let mut w = reply.with_command(resp)?;
            let tag = w.tag();
            {
                let mut tw = w.writer();
                tw.start_struct(tag)?;
                tw.str(&TLVTag::Context(0), payload.as_deref().unwrap_or(&[]))?;
                tw.end_container()?;
            }
            w.complete()?;
        }
        self.accept(idx);
        Ok(())
    }

    fn bump_dataver(&self, ctx: impl MatchContext) {
        let (ep, cl) = (ctx.endpt(), ctx.cluster());
        for ((e, c), v) in self.datavers.borrow_mut().iter_mut() {
            if ep.is_none_or(|x| x == *e) && cl.is_none_or(|x| x == *c) {
                *v = v.wrapping_add(1);
            }
        }
    }
}

impl NonBlockingHandler for SynthNode {}

// =================================================================================================
// Rig: device + controller + network
// =================================================================================================

/// Who sends the requests.
#[derive(Debug, Clone, PartialEq, Eq, Serialize, Deserialize)]
pub enum Requester {
    /// Operational session on fabric `fab_idx` (device-local index, >= 1) of peer `node_id`.
    Case { fab_idx: u8, node_id: u64, cats: [u32; 3] },
    /// Commissioning session; `fab_idx` 0 = no fabric yet, otherwise after AddNOC.
    Pase { fab_idx: u8 },
    /// A session whose device side is a *group* session (the device treats everything arriving
    /// on it as group-cast: no responses).
    Group { fab_idx: u8, group_id: u16 },
}

enum DevCmd {
    Emit { ep: u16, cl: u32, ev: u32, prio: u8, payload: Vec<u8> },
    AttrChanged(u16, u32, u32),
    AllChanged,
}

pub const DEV_NODE_ID: u64 = 0x0000_0000_0001_B66A;
/// Events buffer size of the rig's `InteractionModelState` (per priority ring).
pub const RIG_EVENTS_BUF: usize = 2048;

pub struct ImRig<C> {
    pub net: Net,
    /// the device under test (net node 0)
    pub dev: Matter<'static>,
    /// the controller (net node 1)
    pub ctrl: Matter<'static>,
    pub dev_crypto: C,
    pub ctrl_crypto: C,
    buffers: MatterBuffers,
    state: InteractionModelState<DummyNetworks, { rs_matter::im::subscriptions::DEFAULT_MAX_SUBSCRIPTIONS }, RIG_EVENTS_BUF>,
    queue: RefCell<VecDeque<DevCmd>>,
    /// results of the queued `emit_event` calls, in order (`Ok(event number)`)
    pub emitted: RefCell<Vec<Result<u64, String>>>,
    planted: Cell<u16>,
}

impl ImRig<()> {
    /// A fresh rig; the RNG streams of both nodes are a pure function of `seed`. Call
    /// `vh::sim::reset_universe()` first.
    pub fn new(seed: u32) -> Box<ImRig<impl Crypto>> {
        Box::new(ImRig {
            net: Net::new(2),
            dev: new_matter(5540),
            ctrl: new_matter(5541),
            dev_crypto: mk_crypto(seed),
            ctrl_crypto: mk_crypto(seed ^ 0x00c0_ffee),
            buffers: MatterBuffers::new(),
            state: InteractionModelState::new(DummyNetworks),
            queue: RefCell::new(VecDeque::new()),
            emitted: RefCell::new(Vec::new()),
            planted: Cell::new(0),
        })
    }
}

impl<C: Crypto> ImRig<C> {
    /// Plant a session pair for `who`; returns the controller-side internal session id (for
    /// [`Exchange::initiate_for_session`] on `rig.ctrl` with `&rig.ctrl_crypto`).
    pub fn plant(&self, who: &Requester) -> Result<u32, Error> {
        let n = self.planted.get();
        self.planted.set(n + 1);
        let ctrl_sess = 0x0100 + n;
        let dev_sess = 0x0200 + n;
        let mut key_cd = [0u8; 16]; // controller -> device
        let mut key_dc = [0u8; 16];
        for i in 0..16 {
            key_cd[i] = (n as u8).wrapping_mul(31).wrapping_add(i as u8 * 7 + 1);
            key_dc[i] = (n as u8).wrapping_mul(17).wrapping_add(i as u8 * 13 + 5);
        }
        let (dev_mode, ctrl_mode, ctrl_node, dev_node) = match who {
            Requester::Case { fab_idx, node_id, cats } => (
                SessionMode::Case {
                    fab_idx: NonZeroU8::new((*fab_idx).max(1)).unwrap(),
                    cat_ids: *cats,
                },
                SessionMode::Case {
                    fab_idx: NonZeroU8::new(1).unwrap(),
                    cat_ids: NocCatIds::default(),
                },
                *node_id,
                DEV_NODE_ID,
            ),
            Requester::Pase { fab_idx } => (
                SessionMode::Pase { fab_idx: *fab_idx },
                SessionMode::Pase { fab_idx: 0 },
                0,
                0,
            ),
            Requester::Group { fab_idx, group_id } => (
                SessionMode::Group {
                    fab_idx: NonZeroU8::new((*fab_idx).max(1)).unwrap(),
                    group_id: *group_id,
                },
                SessionMode::Case {
                    fab_idx: NonZeroU8::new(1).unwrap(),
                    cat_ids: NocCatIds::default(),
                },
                0x0000_0000_0001_B669,
                DEV_NODE_ID,
            ),
        };
        plant_half(&self.dev, &self.dev_crypto, dev_mode, dev_node, ctrl_node, dev_sess, ctrl_sess, node_addr(1), &key_cd, &key_dc)?;
        plant_half(&self.ctrl, &self.ctrl_crypto, ctrl_mode, ctrl_node, dev_node, ctrl_sess, dev_sess, node_addr(0), &key_dc, &key_cd)
    }

    /// Open a controller exchange on a planted session.
    pub fn exchange(&self, ctrl_session: u32) -> Result<Exchange<'_>, Error> {
        Exchange::initiate_for_session(&self.ctrl, &self.ctrl_crypto, ctrl_session)
    }

    /// (added for C14) The numbers of the events the device currently stores, in the order in which
    /// its queue is iterated when reporting (verif hook `Events::verif_stored_event_numbers`).
    pub fn stored_event_numbers(&self) -> Vec<u64> {
        let mut v = Vec::new();
        self.state.events().verif_stored_event_numbers(&mut |n| v.push(n));
        v
    }

    /// (added for C14) Wait for the next exchange the device opens towards the controller (e.g. a
    /// subscription report).
    pub async fn accept(&self) -> Result<Exchange<'_>, Error> {
        Exchange::accept(&self.ctrl).await
    }

    /// Queue "emit an event on the device" (payload = one encoded TLV element with an anonymous
    /// tag, normally a struct; a field with context tag 0xFE makes it fabric-sensitive).
    pub fn emit_event(&self, ep: u16, cl: u32, ev: u32, prio: u8, payload: Vec<u8>) {
        self.queue.borrow_mut().push_back(DevCmd::Emit { ep, cl, ev, prio, payload });
    }

    /// Queue `notify_attr_changed` on the device's Interaction Model.
    pub fn notify_attr_changed(&self, ep: u16, cl: u32, attr: u32) {
        self.queue.borrow_mut().push_back(DevCmd::AttrChanged(ep, cl, attr));
    }

    pub fn notify_all_changed(&self) {
        self.queue.borrow_mut().push_back(DevCmd::AllChanged);
    }

    /// Wait (cooperatively) until the device task executed all queued commands.
    pub async fn flush(&self) {
        while !self.queue.borrow().is_empty() {
            embassy_futures::yield_now().await;
        }
    }

    /// Run the device (real `InteractionModel` over `node`, default responder chain with
    /// `handlers` handler tasks) and the controller transport, plus `client`, until `client`
    /// completes or `deadline_s` virtual seconds have passed. Returns how the run stopped and
    /// whether the client completed.
    pub fn run<F: Future<Output = ()>>(
        &self,
        node: &SynthNode,
        sched: Sched,
        handlers: usize,
        deadline_s: u64,
        client: F,
    ) -> (Stop, bool) {
        self.state.suppress_start_up_event();
        let kv = self.dev.kv(DummyKvBlobStore);
        let dm = InteractionModel::new(&self.dev, &self.dev_crypto, &self.buffers, (node, Async(node)), &kv, &self.state);
        let responder = Responder::new_default(&dm);
        let done = Cell::new(false);
        let stop;
        {
            let mut ex = Exec::new(sched);
            ex.add_time_source(&self.net);
            ex.spawn("dev.run", async {
                let _ = self.dev.run(&self.dev_crypto, self.net.end(0), self.net.end(0), NoNetwork).await;
            });
            ex.spawn("dev.dm", async {
                let _ = dm.run().await;
            });
            for h in 0..handlers.max(1) {
                let r = &responder;
                ex.spawn(&format!("dev.h{h}"), async move {
                    let _ = r.handle(h).await;
                });
            }
            {
                let (dm, q, out) = (&dm, &self.queue, &self.emitted);
                ex.spawn("dev.ctl", async move {
                    loop {
                        loop {
                            let cmd = q.borrow_mut().pop_front();
                            let Some(cmd) = cmd else { break };
                            match cmd {
                                DevCmd::Emit { ep, cl, ev, prio, payload } => {
                                    let prio = match prio {
                                        0 => EventPriority::Debug,
                                        1 => EventPriority::Info,
                                        _ => EventPriority::Critical,
                                    };
                                    let r = dm.emit_event(ep, cl, ev, prio, |mut tw| {
                                        // re-tag the anonymous element as EventDataIB.Data (7)
                                        write_retagged(&mut tw, &payload)
                                    });
                                    out.borrow_mut().push(r.map_err(|e| format!("{:?}", e.code())));
                                }
                                DevCmd::AttrChanged(e, c, a) => dm.notify_attr_changed(e, c, a),
                                DevCmd::AllChanged => dm.notify_all_changed(),
                            }
                        }
                        // Poll again in the next executor round (all tasks share one waker).
                        Pending1::default().await;
                    }
                });
            }
            ex.spawn("ctrl.run", async {
                let _ = self.ctrl.run(&self.ctrl_crypto, self.net.end(1), self.net.end(1), NoNetwork).await;
            });
            let d = &done;
            ex.spawn("client", async move {
                client.await;
                d.set(true);
            });
            let dl = clock::now() + deadline_s * SEC;
            stop = ex.run_until(dl, || done.get());
        }
        (stop, done.get())
    }
}

/// A future that is pending exactly once without waking anybody: the task is polled again in the
/// next executor round (every round polls every live task).
#[derive(Default)]
struct Pending1(bool);

impl Future for Pending1 {
    type Output = ();
    fn poll(mut self: std::pin::Pin<&mut Self>, _cx: &mut std::task::Context<'_>) -> std::task::Poll<()> {
        if self.0 {
            std::task::Poll::Ready(())
        } else {
            self.0 = true;
            std::task::Poll::Pending
        }
    }
}

/// Write the TLV element `bytes` (anonymous tag) with context tag 7 (EventDataIB.Data).
fn write_retagged<W: TLVWrite>(tw: &mut W, bytes: &[u8]) -> Result<(), Error> {
    fn put<W: TLVWrite>(tw: &mut W, tag: &TLVTag, v: &Val) -> Result<(), Error> {
        match v {
            Val::U(x) => tw.u64(tag, *x),
            Val::I(x) => tw.i64(tag, *x),
            Val::Bool(b) => tw.bool(tag, *b),
            Val::F(_) => Err(ErrorCode::Invalid.into()),
            Val::Bytes(b) => tw.str(tag, b),
            Val::Utf8(b) => tw.utf8(tag, core::str::from_utf8(b).map_err(|_| ErrorCode::Invalid)?),
            Val::Null => tw.null(tag),
            Val::Struct(m) | Val::Array(m) | Val::List(m) => {
                match v {
                    Val::Struct(_) => tw.start_struct(tag)?,
                    Val::Array(_) => tw.start_array(tag)?,
                    _ => tw.start_list(tag)?,
                }
                for (t, x) in m {
                    let t = match t {
                        Tag::Anon => TLVTag::Anonymous,
                        Tag::Ctx(c) => TLVTag::Context(*c),
                        Tag::Other(_) => return Err(ErrorCode::Invalid.into()),
                    };
                    put(tw, &t, x)?;
                }
                tw.end_container()
            }
        }
    }
    let (_, v) = tlv::parse(bytes).ok_or(ErrorCode::Invalid)?;
    put(tw, &TLVTag::Context(7), &v)
}

/// Plant one half of a session with an arbitrary `SessionMode`. Returns the internal session id.
#[allow(clippy::too_many_arguments)]
pub fn plant_half<C: Crypto>(
    matter: &Matter<'_>,
    crypto: C,
    mode: SessionMode,
    local_node: u64,
    peer_node: u64,
    local_sess: u16,
    peer_sess: u16,
    peer_addr: Address,
    dec: &[u8; 16],
    enc: &[u8; 16],
) -> Result<u32, Error> {
    let mut s = ReservedSession::reserve_now(matter, crypto)?;
    s.update(
        local_node,
        peer_node,
        peer_sess,
        local_sess,
        peer_addr,
        mode,
        Some(CanonAeadKeyRef::new(dec)),
        Some(CanonAeadKeyRef::new(enc)),
        None,
        None,
    )?;
    s.complete();
    drop(s);
    let id = matter.with_state(|st| {
        st.verif_sessions()
            .verif_snapshots()
            .filter(|s| s.local_sess_id == local_sess && s.peer_addr == peer_addr && !s.reserved)
            .map(|s| s.id)
            .last()
    });
    id.ok_or_else(|| ErrorCode::NoSession.into())
}

// =================================================================================================
// Controller side: requests
// =================================================================================================

/// A (possibly wildcard) endpoint / cluster / leaf path; `None` = wildcard (field omitted).
#[derive(Debug, Clone, Copy, PartialEq, Eq, PartialOrd, Ord, Serialize, Deserialize, Default)]
pub struct Path {
    pub endpoint: Option<u16>,
    pub cluster: Option<u32>,
    pub leaf: Option<u32>,
}

impl Path {
    pub fn new(endpoint: Option<u16>, cluster: Option<u32>, leaf: Option<u32>) -> Self {
        Self { endpoint, cluster, leaf }
    }

    pub fn concrete(ep: u16, cl: u32, leaf: u32) -> Self {
        Self::new(Some(ep), Some(cl), Some(leaf))
    }

    pub fn is_wildcard(&self) -> bool {
        self.endpoint.is_none() || self.cluster.is_none() || self.leaf.is_none()
    }

    pub fn matches(&self, ep: u16, cl: u32, leaf: u32) -> bool {
        self.endpoint.is_none_or(|e| e == ep) && self.cluster.is_none_or(|c| c == cl) && self.leaf.is_none_or(|l| l == leaf)
    }
}

#[derive(Debug, Clone, PartialEq, Eq, Serialize, Deserialize, Default)]
pub struct ReadReq {
    /// `None` = the AttributeRequests field is omitted
    pub attrs: Option<Vec<Path>>,
    /// `None` = the EventRequests field is omitted
    pub events: Option<Vec<Path>>,
    pub fabric_filtered: bool,
    /// (endpoint, cluster, data version)
    pub dataver_filters: Vec<(u16, u32, u32)>,
    /// EventFilters: minimum event number
    pub event_min: Option<u64>,
}

#[derive(Debug, Clone, PartialEq, Eq, Serialize, Deserialize)]
pub struct SubscribeReq {
    pub read: ReadReq,
    pub keep_subscriptions: bool,
    pub min_interval_s: u16,
    pub max_interval_s: u16,
}

#[derive(Debug, Clone, PartialEq, Eq, Serialize, Deserialize)]
pub struct WriteItem {
    pub path: Path,
    /// `Some(None)` = null list index (append one item)
    pub list_index: Option<Option<u16>>,
    pub dataver: Option<u32>,
    pub value: Value,
}

#[derive(Debug, Clone, PartialEq, Eq, Serialize, Deserialize)]
pub struct InvokeItem {
    pub path: Path,
    /// sent as `CommandFields = struct { 0: octet string }`
    pub payload: Vec<u8>,
    pub command_ref: Option<u16>,
}

/// A Timed request sent before the Write / Invoke, and the virtual delay between the reception of
/// its status and the transmission of the action.
#[derive(Debug, Clone, Copy, PartialEq, Eq, Serialize, Deserialize)]
pub struct Timed {
    pub timeout_ms: u16,
    pub delay_us: u64,
}

const IM_REV: u64 = 13;

fn enc_attr_path(e: &mut Enc, tag: Tag, p: &Path, list_index: Option<Option<u16>>) {
    e.start_list(tag);
    if let Some(x) = p.endpoint {
        e.uint(Tag::Ctx(2), x as u64);
    }
    if let Some(x) = p.cluster {
        e.uint(Tag::Ctx(3), x as u64);
    }
    if let Some(x) = p.leaf {
        e.uint(Tag::Ctx(4), x as u64);
    }
    match list_index {
        None => {}
        Some(None) => {
            e.null(Tag::Ctx(5));
        }
        Some(Some(i)) => {
            e.uint(Tag::Ctx(5), i as u64);
        }
    }
    e.end();
}

fn enc_read_fields(e: &mut Enc, r: &ReadReq, base: u8) {
    // base = 0 for ReadRequest (attr=0, event=1, filters=2, fabricFiltered=3, dataver=4),
    // base = 3 for SubscribeRequest (attr=3, event=4, filters=5, fabricFiltered=7, dataver=8)
    let (t_attr, t_ev, t_flt, t_ff, t_dv) = if base == 0 { (0, 1, 2, 3, 4) } else { (3, 4, 5, 7, 8) };
    if let Some(attrs) = &r.attrs {
        e.start_array(Tag::Ctx(t_attr));
        for p in attrs {
            enc_attr_path(e, Tag::Anon, p, None);
        }
        e.end();
    }
    if let Some(events) = &r.events {
        e.start_array(Tag::Ctx(t_ev));
        for p in events {
            e.start_list(Tag::Anon);
            if let Some(x) = p.endpoint {
                e.uint(Tag::Ctx(1), x as u64);
            }
            if let Some(x) = p.cluster {
                e.uint(Tag::Ctx(2), x as u64);
            }
            if let Some(x) = p.leaf {
                e.uint(Tag::Ctx(3), x as u64);
            }
            e.end();
        }
        e.end();
    }
    if let Some(min) = r.event_min {
        e.start_array(Tag::Ctx(t_flt));
        e.start_struct(Tag::Anon).uint(Tag::Ctx(1), min).end();
        e.end();
    }
    e.boolean(Tag::Ctx(t_ff), r.fabric_filtered);
    if !r.dataver_filters.is_empty() {
        e.start_array(Tag::Ctx(t_dv));
        for (ep, cl, dv) in &r.dataver_filters {
            e.start_struct(Tag::Anon);
            e.start_list(Tag::Ctx(0)).uint(Tag::Ctx(1), *ep as u64).uint(Tag::Ctx(2), *cl as u64).end();
            e.uint(Tag::Ctx(1), *dv as u64);
            e.end();
        }
        e.end();
    }
}

pub fn encode_read(r: &ReadReq) -> Vec<u8> {
    let mut e = Enc::new();
    e.start_struct(Tag::Anon);
    enc_read_fields(&mut e, r, 0);
    e.uint(Tag::Ctx(0xff), IM_REV).end();
    e.buf
}

pub fn encode_subscribe(s: &SubscribeReq) -> Vec<u8> {
    let mut e = Enc::new();
    e.start_struct(Tag::Anon);
    e.boolean(Tag::Ctx(0), s.keep_subscriptions);
    e.uint(Tag::Ctx(1), s.min_interval_s as u64);
    e.uint(Tag::Ctx(2), s.max_interval_s as u64);
    enc_read_fields(&mut e, &s.read, 3);
    e.uint(Tag::Ctx(0xff), IM_REV).end();
    e.buf
}

pub fn encode_write(items: &[WriteItem], timed_flag: bool) -> Vec<u8> {
    let mut e = Enc::new();
    e.start_struct(Tag::Anon);
    e.boolean(Tag::Ctx(0), false);
    e.boolean(Tag::Ctx(1), timed_flag);
    e.start_array(Tag::Ctx(2));
    for i in items {
        e.start_struct(Tag::Anon);
        if let Some(dv) = i.dataver {
            e.uint(Tag::Ctx(0), dv as u64);
        }
        enc_attr_path(&mut e, Tag::Ctx(1), &i.path, i.list_index);
        i.value.encode(Tag::Ctx(2), &mut e);
        e.end();
    }
    e.end();
    e.uint(Tag::Ctx(0xff), IM_REV).end();
    e.buf
}

pub fn encode_invoke(items: &[InvokeItem], timed_flag: bool) -> Vec<u8> {
    let mut e = Enc::new();
    e.start_struct(Tag::Anon);
    e.boolean(Tag::Ctx(0), false);
    e.boolean(Tag::Ctx(1), timed_flag);
    e.start_array(Tag::Ctx(2));
    for i in items {
        e.start_struct(Tag::Anon);
        e.start_list(Tag::Ctx(0));
        if let Some(x) = i.path.endpoint {
            e.uint(Tag::Ctx(0), x as u64);
        }
        if let Some(x) = i.path.cluster {
            e.uint(Tag::Ctx(1), x as u64);
        }
        if let Some(x) = i.path.leaf {
            e.uint(Tag::Ctx(2), x as u64);
        }
        e.end();
        e.start_struct(Tag::Ctx(1)).bytes(Tag::Ctx(0), &i.payload).end();
        if let Some(r) = i.command_ref {
            e.uint(Tag::Ctx(2), r as u64);
        }
        e.end();
    }
    e.end();
    e.uint(Tag::Ctx(0xff), IM_REV).end();
    e.buf
}

fn encode_status(code: u16) -> Vec<u8> {
    let mut e = Enc::new();
    e.start_struct(Tag::Anon).uint(Tag::Ctx(0), code as u64).uint(Tag::Ctx(0xff), IM_REV).end();
    e.buf
}

fn encode_timed(timeout_ms: u16) -> Vec<u8> {
    let mut e = Enc::new();
    e.start_struct(Tag::Anon).uint(Tag::Ctx(0), timeout_ms as u64).uint(Tag::Ctx(0xff), IM_REV).end();
    e.buf
}

// =================================================================================================
// Controller side: answers
// =================================================================================================

#[derive(Debug, Clone, PartialEq)]
pub enum ReportBody {
    Data { dataver: Option<u32>, value: Val },
    Status(u16),
}

#[derive(Debug, Clone, PartialEq)]
pub struct ReportItem {
    pub path: Path,
    pub list_index: Option<Option<u16>>,
    pub body: ReportBody,
    /// index of the ReportData message that carried the item
    pub chunk: usize,
}

#[derive(Debug, Clone, PartialEq)]
pub enum EventBody {
    Data { number: u64, priority: u8, value: Val },
    Status(u16),
}

#[derive(Debug, Clone, PartialEq)]
pub struct EventItem {
    pub path: Path,
    pub body: EventBody,
    pub chunk: usize,
}

#[derive(Debug, Clone, Default, PartialEq)]
pub struct ReadOutcome {
    pub attrs: Vec<ReportItem>,
    pub events: Vec<EventItem>,
    /// number of ReportData messages received
    pub chunks: usize,
    /// a StatusResponse was received instead of (or after some) ReportData
    pub status: Option<u16>,
    /// (subscription id, max interval) of the SubscribeResponse
    pub subscribed: Option<(u32, u16)>,
    /// transport error, silence, or an undecodable / unexpected message
    pub error: Option<String>,
    /// (added for C14) the payload octets of every ReportData message received, in order
    /// (`raw.len() >= chunks`: an undecodable message is recorded too)
    pub raw: Vec<Vec<u8>>,
}

#[derive(Debug, Clone, PartialEq)]
pub struct WriteStatus {
    pub path: Path,
    pub list_index: Option<Option<u16>>,
    pub status: u16,
}

#[derive(Debug, Clone, Default, PartialEq)]
pub struct WriteOutcome {
    /// status of the StatusResponse to the Timed request (if one was sent)
    pub timed_status: Option<u16>,
    pub statuses: Vec<WriteStatus>,
    /// a StatusResponse was received instead of the WriteResponse
    pub status: Option<u16>,
    pub responded: bool,
    pub error: Option<String>,
    /// virtual time (µs) when: the Timed request was sent (or the action, if untimed), its status
    /// arrived, the action was sent, the answer arrived
    pub times: [u64; 4],
}

#[derive(Debug, Clone, PartialEq)]
pub enum InvokeBody {
    /// response command id, CommandFields
    Data { resp_cmd: u32, value: Val },
    Status(u16),
}

#[derive(Debug, Clone, PartialEq)]
pub struct InvokeResult {
    pub path: Path,
    pub command_ref: Option<u16>,
    pub body: InvokeBody,
}

#[derive(Debug, Clone, Default, PartialEq)]
pub struct InvokeOutcome {
    pub timed_status: Option<u16>,
    pub results: Vec<InvokeResult>,
    pub status: Option<u16>,
    pub responded: bool,
    pub error: Option<String>,
    /// see [`WriteOutcome::times`]
    pub times: [u64; 4],
}

fn dec_attr_path(v: &Val) -> Option<(Path, Option<Option<u16>>)> {
    let li = match v.ctx(5) {
        None => None,
        Some(Val::Null) => Some(None),
        Some(x) => Some(Some(x.u()? as u16)),
    };
    Some((
        Path {
            endpoint: v.ctx(2).and_then(|x| x.u()).map(|x| x as u16),
            cluster: v.ctx(3).and_then(|x| x.u()).map(|x| x as u32),
            leaf: v.ctx(4).and_then(|x| x.u()).map(|x| x as u32),
        },
        li,
    ))
}

fn dec_status_ib(v: &Val) -> Option<u16> {
    Some(v.ctx(0)?.u()? as u16)
}

fn dec_report(msg: &Val, chunk: usize, out: &mut ReadOutcome) -> Option<(bool, bool)> {
    if let Some(reports) = msg.ctx(1) {
        for (_, r) in reports.items() {
            if let Some(st) = r.ctx(0) {
                let (path, li) = dec_attr_path(st.ctx(0)?)?;
                out.attrs.push(ReportItem { path, list_index: li, body: ReportBody::Status(dec_status_ib(st.ctx(1)?)?), chunk });
            } else if let Some(d) = r.ctx(1) {
                let (path, li) = dec_attr_path(d.ctx(1)?)?;
                out.attrs.push(ReportItem {
                    path,
                    list_index: li,
                    body: ReportBody::Data { dataver: d.ctx(0).and_then(|x| x.u()).map(|x| x as u32), value: d.ctx(2)?.clone() },
                    chunk,
                });
            } else {
                return None;
            }
        }
    }
    if let Some(reports) = msg.ctx(2) {
        for (_, r) in reports.items() {
            let dec_path = |p: &Val| Path {
                endpoint: p.ctx(1).and_then(|x| x.u()).map(|x| x as u16),
                cluster: p.ctx(2).and_then(|x| x.u()).map(|x| x as u32),
                leaf: p.ctx(3).and_then(|x| x.u()).map(|x| x as u32),
            };
            if let Some(st) = r.ctx(0) {
                out.events.push(EventItem { path: dec_path(st.ctx(0)?), body: EventBody::Status(dec_status_ib(st.ctx(1)?)?), chunk });
            } else if let Some(d) = r.ctx(1) {
                out.events.push(EventItem {
                    path: dec_path(d.ctx(0)?),
                    body: EventBody::Data { number: d.ctx(1)?.u()?, priority: d.ctx(2)?.u()? as u8, value: d.ctx(7)?.clone() },
                    chunk,
                });
            } else {
                return None;
            }
        }
    }
    let more = msg.ctx(3).and_then(|x| x.b()).unwrap_or(false);
    let suppress = msg.ctx(4).and_then(|x| x.b()).unwrap_or(false);
    Some((more, suppress))
}

/// A report with more chunks than this is given up (`error` = "answer does not end").
pub const MAX_CHUNKS: usize = 1000;

thread_local! {
    static CHUNK_CAP: Cell<usize> = const { Cell::new(MAX_CHUNKS) };
}

/// (added for C14) Lower the number of ReportData chunks after which the controller helpers of
/// THIS thread give an answer up (at most [`MAX_CHUNKS`]); call it at the start of every case.
pub fn set_chunk_cap(n: usize) {
    CHUNK_CAP.with(|c| c.set(n.clamp(1, MAX_CHUNKS)));
}

/// How long the controller waits for an answer (virtual time) before giving up.
pub const ANSWER_TIMEOUT_S: u64 = 40;

async fn recv_msg(ex: &mut Exchange<'_>) -> Result<(u8, Vec<u8>), String> {
    match select(ex.recv(), Timer::after(Duration::from_secs(ANSWER_TIMEOUT_S))).await {
        Either::First(Ok(rx)) => {
            let m = rx.meta();
            if m.proto_id != rs_matter::im::PROTO_ID_INTERACTION_MODEL {
                return Err(format!("unexpected protocol {:#x} opcode {}", m.proto_id, m.proto_opcode));
            }
            Ok((m.proto_opcode, rx.payload().to_vec()))
        }
        Either::First(Err(e)) => Err(format!("recv: {:?}", e.code())),
        Either::Second(_) => Err("no answer".into()),
    }
}

async fn send_msg(ex: &mut Exchange<'_>, op: OpCode, payload: &[u8]) -> Result<(), String> {
    match select(ex.send(op, payload), Timer::after(Duration::from_secs(ANSWER_TIMEOUT_S))).await {
        Either::First(Ok(())) => Ok(()),
        Either::First(Err(e)) => Err(format!("send: {:?}", e.code())),
        Either::Second(_) => Err("send timed out".into()),
    }
}

fn dec_status_resp(payload: &[u8]) -> Option<u16> {
    let (_, v) = tlv::parse(payload)?;
    Some(v.ctx(0)?.u()? as u16)
}

async fn report_loop(ex: &mut Exchange<'_>, subscribe: bool, on_chunk: &mut dyn FnMut(usize, &ReadOutcome)) -> ReadOutcome {
    let mut out = ReadOutcome::default();
    loop {
        let (op, payload) = match recv_msg(ex).await {
            Ok(x) => x,
            Err(e) => {
                out.error = Some(e);
                return out;
            }
        };
        if op == OpCode::StatusResponse as u8 {
            match dec_status_resp(&payload) {
                Some(s) => out.status = Some(s),
                None => out.error = Some("undecodable StatusResponse".into()),
            }
            break;
        } else if op == OpCode::ReportData as u8 {
            out.raw.push(payload.clone());
            let Some((_, msg)) = tlv::parse(&payload) else {
                out.error = Some("undecodable ReportData (TLV)".into());
                break;
            };
            let chunk = out.chunks;
            out.chunks += 1;
            let cap = CHUNK_CAP.with(|c| c.get()).min(MAX_CHUNKS);
            if out.chunks > cap {
                out.error = Some(format!("answer does not end (more than {cap} ReportData chunks)"));
                return out;
            }
            let Some((more, suppress)) = dec_report(&msg, chunk, &mut out) else {
                out.error = Some("undecodable ReportData (structure)".into());
                break;
            };
            on_chunk(chunk, &out);
            if more || !suppress {
                if let Err(e) = send_msg(ex, OpCode::StatusResponse, &encode_status(0)).await {
                    out.error = Some(e);
                    return out;
                }
            }
            if !more && !subscribe {
                break;
            }
        } else if op == OpCode::SubscribeResponse as u8 && subscribe {
            match tlv::parse(&payload) {
                Some((_, v)) => match (v.ctx(0).and_then(|x| x.u()), v.ctx(2).and_then(|x| x.u())) {
                    (Some(id), Some(max)) => out.subscribed = Some((id as u32, max as u16)),
                    _ => out.error = Some("undecodable SubscribeResponse".into()),
                },
                None => out.error = Some("undecodable SubscribeResponse (TLV)".into()),
            }
            break;
        } else {
            out.error = Some(format!("unexpected IM opcode {op}"));
            break;
        }
    }
    let _ = select(ex.acknowledge(), Timer::after(Duration::from_secs(5))).await;
    out
}

/// Send a ReadRequest and collect the whole (possibly chunked) answer. `on_chunk(i, so_far)` is
/// called after chunk `i` was decoded and before it is confirmed to the device.
pub async fn read(ex: &mut Exchange<'_>, req: &ReadReq, on_chunk: &mut dyn FnMut(usize, &ReadOutcome)) -> ReadOutcome {
    if let Err(e) = send_msg(ex, OpCode::ReadRequest, &encode_read(req)).await {
        return ReadOutcome { error: Some(e), ..Default::default() };
    }
    report_loop(ex, false, on_chunk).await
}

/// Where [`subscribe_gated`] stops before it answers a priming chunk.
#[derive(Debug, Clone, Copy, PartialEq, Eq, Serialize, Deserialize)]
pub enum HoldChunk {
    /// before the StatusResponse to the FIRST priming chunk
    First,
    /// before the StatusResponse to the LAST priming chunk (the one that completes the priming)
    Last,
}

/// Rendezvous between a subscribe in flight and whoever does something meanwhile.
pub struct SubGate {
    pub hold: HoldChunk,
    /// set (to the chunk index) once the client holds back its StatusResponse
    pub reached: Cell<Option<usize>>,
    /// set by the other side to let the client go on
    pub release: Cell<bool>,
}

impl SubGate {
    pub fn new(hold: HoldChunk) -> Self {
        Self { hold, reached: Cell::new(None), release: Cell::new(false) }
    }
}

/// [`subscribe`], but the StatusResponse to one priming chunk (see [`HoldChunk`]) is held back
/// until `gate.release` is set: the device has sent (part of) the priming report and waits for
/// the subscriber's confirmation - the subscription is not in its table yet.
pub async fn subscribe_gated(ex: &mut Exchange<'_>, req: &SubscribeReq, gate: &SubGate) -> ReadOutcome {
    if let Err(e) = send_msg(ex, OpCode::SubscribeRequest, &encode_subscribe(req)).await {
        return ReadOutcome { error: Some(e), ..Default::default() };
    }
    let mut out = ReadOutcome::default();
    loop {
        let (op, payload) = match recv_msg(ex).await {
            Ok(x) => x,
            Err(e) => {
                out.error = Some(e);
                return out;
            }
        };
        if op == OpCode::StatusResponse as u8 {
            match dec_status_resp(&payload) {
                Some(s) => out.status = Some(s),
                None => out.error = Some("undecodable StatusResponse".into()),
            }
            break;
        } else if op == OpCode::ReportData as u8 {
            out.raw.push(payload.clone());
            let Some((_, msg)) = tlv::parse(&payload) else {
                out.error = Some("undecodable ReportData (TLV)".into());
                break;
            };
            let chunk = out.chunks;
            out.chunks += 1;
            if out.chunks > MAX_CHUNKS {
                out.error = Some("answer does not end".into());
                return out;
            }
            let Some((more, suppress)) = dec_report(&msg, chunk, &mut out) else {
                out.error = Some("undecodable ReportData (structure)".into());
                break;
            };
            let hold_here = gate.reached.get().is_none()
                && match gate.hold {
                    HoldChunk::First => chunk == 0,
                    HoldChunk::Last => !more,
                };
            if hold_here {
                gate.reached.set(Some(chunk));
                while !gate.release.get() {
                    Timer::after(Duration::from_millis(5)).await;
                }
            }
            if more || !suppress {
                if let Err(e) = send_msg(ex, OpCode::StatusResponse, &encode_status(0)).await {
                    out.error = Some(e);
                    return out;
                }
            }
        } else if op == OpCode::SubscribeResponse as u8 {
            match tlv::parse(&payload) {
                Some((_, v)) => match (v.ctx(0).and_then(|x| x.u()), v.ctx(2).and_then(|x| x.u())) {
                    (Some(id), Some(max)) => out.subscribed = Some((id as u32, max as u16)),
                    _ => out.error = Some("undecodable SubscribeResponse".into()),
                },
                None => out.error = Some("undecodable SubscribeResponse (TLV)".into()),
            }
            break;
        } else {
            out.error = Some(format!("unexpected IM opcode {op}"));
            break;
        }
    }
    let _ = select(ex.acknowledge(), Timer::after(Duration::from_secs(5))).await;
    out
}

/// Send a SubscribeRequest and collect the priming report and the SubscribeResponse.
pub async fn subscribe(ex: &mut Exchange<'_>, req: &SubscribeReq, on_chunk: &mut dyn FnMut(usize, &ReadOutcome)) -> ReadOutcome {
    if let Err(e) = send_msg(ex, OpCode::SubscribeRequest, &encode_subscribe(req)).await {
        return ReadOutcome { error: Some(e), ..Default::default() };
    }
    report_loop(ex, true, on_chunk).await
}

/// (added for C14) Collect one device-initiated report (a subscription report) on an exchange
/// obtained from [`ImRig::accept`]: all its ReportData chunks, each confirmed with a success
/// StatusResponse unless it is the last one and asks for no response.
pub async fn report(ex: &mut Exchange<'_>, on_chunk: &mut dyn FnMut(usize, &ReadOutcome)) -> ReadOutcome {
    report_loop(ex, false, on_chunk).await
}

async fn do_timed(ex: &mut Exchange<'_>, t: &Timed, times: &mut [u64; 4]) -> Result<u16, String> {
    times[0] = clock::now();
    send_msg(ex, OpCode::TimedRequest, &encode_timed(t.timeout_ms)).await?;
    let (op, payload) = recv_msg(ex).await?;
    times[1] = clock::now();
    if op != OpCode::StatusResponse as u8 {
        return Err(format!("unexpected opcode {op} after TimedRequest"));
    }
    let st = dec_status_resp(&payload).ok_or("undecodable StatusResponse")?;
    if t.delay_us > 0 {
        Timer::after(Duration::from_micros(t.delay_us)).await;
    }
    Ok(st)
}

/// (Timed request,) WriteRequest with the `timed_flag` TimedRequest field, WriteResponse.
pub async fn write(ex: &mut Exchange<'_>, timed: Option<Timed>, timed_flag: bool, items: &[WriteItem]) -> WriteOutcome {
    let mut out = WriteOutcome::default();
    if let Some(t) = &timed {
        let mut times = [0u64; 4];
        let r = do_timed(ex, t, &mut times).await;
        out.times = times;
        match r {
            Ok(s) => out.timed_status = Some(s),
            Err(e) => {
                out.error = Some(e);
                return out;
            }
        }
    } else {
        out.times[0] = clock::now();
        out.times[1] = out.times[0];
    }
    out.times[2] = clock::now();
    if let Err(e) = send_msg(ex, OpCode::WriteRequest, &encode_write(items, timed_flag)).await {
        out.error = Some(e);
        return out;
    }
    let answer = recv_msg(ex).await;
    out.times[3] = clock::now();
    match answer {
        Err(e) => out.error = Some(e),
        Ok((op, payload)) if op == OpCode::StatusResponse as u8 => match dec_status_resp(&payload) {
            Some(s) => out.status = Some(s),
            None => out.error = Some("undecodable StatusResponse".into()),
        },
        Ok((op, payload)) if op == OpCode::WriteResponse as u8 => {
            out.responded = true;
            let parsed = tlv::parse(&payload).and_then(|(_, v)| {
                let mut st = Vec::new();
                for (_, s) in v.ctx(0)?.items() {
                    let (path, li) = dec_attr_path(s.ctx(0)?)?;
                    st.push(WriteStatus { path, list_index: li, status: dec_status_ib(s.ctx(1)?)? });
                }
                Some(st)
            });
            match parsed {
                Some(st) => out.statuses = st,
                None => out.error = Some("undecodable WriteResponse".into()),
            }
        }
        Ok((op, _)) => out.error = Some(format!("unexpected IM opcode {op}")),
    }
    let _ = select(ex.acknowledge(), Timer::after(Duration::from_secs(5))).await;
    out
}

/// (Timed request,) InvokeRequest, InvokeResponse.
pub async fn invoke(ex: &mut Exchange<'_>, timed: Option<Timed>, timed_flag: bool, items: &[InvokeItem]) -> InvokeOutcome {
    let mut out = InvokeOutcome::default();
    if let Some(t) = &timed {
        let mut times = [0u64; 4];
        let r = do_timed(ex, t, &mut times).await;
        out.times = times;
        match r {
            Ok(s) => out.timed_status = Some(s),
            Err(e) => {
                out.error = Some(e);
                return out;
            }
        }
    } else {
        out.times[0] = clock::now();
        out.times[1] = out.times[0];
    }
    out.times[2] = clock::now();
    if let Err(e) = send_msg(ex, OpCode::InvokeRequest, &encode_invoke(items, timed_flag)).await {
        out.error = Some(e);
        return out;
    }
    let answer = recv_msg(ex).await;
    out.times[3] = clock::now();
    match answer {
        Err(e) => out.error = Some(e),
        Ok((op, payload)) if op == OpCode::StatusResponse as u8 => match dec_status_resp(&payload) {
            Some(s) => out.status = Some(s),
            None => out.error = Some("undecodable StatusResponse".into()),
        },
        Ok((op, payload)) if op == OpCode::InvokeResponse as u8 => {
            out.responded = true;
            let parsed = tlv::parse(&payload).and_then(|(_, v)| {
                let mut res = Vec::new();
                let dec_path = |p: &Val| Path {
                    endpoint: p.ctx(0).and_then(|x| x.u()).map(|x| x as u16),
                    cluster: p.ctx(1).and_then(|x| x.u()).map(|x| x as u32),
                    leaf: p.ctx(2).and_then(|x| x.u()).map(|x| x as u32),
                };
                if let Some(list) = v.ctx(1) {
                    for (_, r) in list.items() {
                        if let Some(d) = r.ctx(0) {
                            let p = dec_path(d.ctx(0)?);
                            res.push(InvokeResult {
                                path: p,
                                command_ref: d.ctx(2).and_then(|x| x.u()).map(|x| x as u16),
                                body: InvokeBody::Data { resp_cmd: p.leaf?, value: d.ctx(1).cloned().unwrap_or(Val::Null) },
                            });
                        } else if let Some(s) = r.ctx(1) {
                            res.push(InvokeResult {
                                path: dec_path(s.ctx(0)?),
                                command_ref: s.ctx(2).and_then(|x| x.u()).map(|x| x as u16),
                                body: InvokeBody::Status(dec_status_ib(s.ctx(1)?)?),
                            });
                        } else {
                            return None;
                        }
                    }
                }
                Some(res)
            });
            match parsed {
                Some(r) => out.results = r,
                None => out.error = Some("undecodable InvokeResponse".into()),
            }
        }
        Ok((op, _)) => out.error = Some(format!("unexpected IM opcode {op}")),
    }
    let _ = select(ex.acknowledge(), Timer::after(Duration::from_secs(5))).await;
    out
}

/// Send one IM message unreliably (as a group message would be) and linger for `linger_ms` of
/// virtual time so that the device can process it. No answer is awaited.
pub async fn send_only(ex: &mut Exchange<'_>, op: OpCode, payload: &[u8], linger_ms: u64) -> Result<(), String> {
    let meta = rs_matter::transport::exchange::MessageMeta::new(rs_matter::im::PROTO_ID_INTERACTION_MODEL, op as u8, false);
    match select(ex.send(meta, payload), Timer::after(Duration::from_secs(ANSWER_TIMEOUT_S))).await {
        Either::First(Ok(())) => {}
        Either::First(Err(e)) => return Err(format!("send: {:?}", e.code())),
        Either::Second(_) => return Err("send timed out".into()),
    }
    Timer::after(Duration::from_millis(linger_ms)).await;
    Ok(())
}

/// Fold the pieces of chunked list attributes: a `Data` item with a null list index is appended
/// to the closest preceding `Data` item of the same path whose value is an array. Returns
/// `(path, body)` per attribute report, in wire order. `Err` if an append has no list to go to.
pub fn fold_lists(items: &[ReportItem]) -> Result<Vec<(Path, ReportBody)>, String> {
    let mut out: Vec<(Path, ReportBody)> = Vec::new();
    for it in items {
        match (&it.body, it.list_index) {
            (ReportBody::Data { value, .. }, Some(None)) => {
                let target = out.iter_mut().rev().find(|(p, _)| *p == it.path);
                match target {
                    Some((_, ReportBody::Data { value: Val::Array(arr), .. })) => arr.push((Tag::Anon, value.clone())),
                    _ => return Err(format!("list item for {:?} without a preceding list", it.path)),
                }
            }
            (_, Some(Some(i))) => return Err(format!("unexpected list index {i} in a report for {:?}", it.path)),
            (b, None) => out.push((it.path, b.clone())),
            (b @ ReportBody::Status(_), Some(None)) => out.push((it.path, b.clone())),
        }
    }
    Ok(out)
}

// =================================================================================================
// Long-lived subscriber (property C13, level L2): device-initiated reports on the controller
// =================================================================================================
//
// * [`plant_info`] — session ids and keys of the n-th pair planted by [`ImRig::plant`], so that a
//   check can decrypt the tap / the datagrams seen by a network adversary (`node::decode_wire`).
// * [`SubscriberHub`] — an `ExchangeHandler` for the CONTROLLER: accepts the exchanges the device
//   opens for `ReportData`, decodes every chunk independently of rs-matter's TLV code, records
//   ([`ReportRecord`]: virtual time, subscription id, attribute items, event items, flags) and
//   answers as the scenario says ([`SubReply`], per subscription id and virtual time): success
//   status, a refusal status, or no Interaction-Model answer at all (the MRP ack still goes out).
// * [`ImRig::run_sub`] — like [`ImRig::run`], plus `ctrl_tasks` controller responder tasks around a
//   hub, an arbitrary key-value store, an optional external `InteractionModelState` and an
//   optional `InteractionModel::startup()` (restart of the Interaction-Model layer with persisted
//   subscriptions: run once, then run again with a fresh state and the same store).
// * [`ImRig::im_state`], [`ImRig::planted_count`].

use rs_matter::persist::KvBlobStore;
use rs_matter::respond::ExchangeHandler;

/// Session ids and keys of one planted pair.
#[derive(Debug, Clone, PartialEq, Eq)]
pub struct PlantInfo {
    /// local session id of the controller half = the id in the header of device -> controller
    /// datagrams
    pub ctrl_sess: u16,
    /// local session id of the device half = the id in the header of controller -> device datagrams
    pub dev_sess: u16,
    /// key of controller -> device traffic
    pub key_cd: [u8; 16],
    /// key of device -> controller traffic
    pub key_dc: [u8; 16],
}

/// What [`ImRig::plant`] uses for its `n`-th call (n = 0, 1, ...).
pub fn plant_info(n: u16) -> PlantInfo {
    let mut key_cd = [0u8; 16];
    let mut key_dc = [0u8; 16];
    for i in 0..16 {
        key_cd[i] = (n as u8).wrapping_mul(31).wrapping_add(i as u8 * 7 + 1);
        key_dc[i] = (n as u8).wrapping_mul(17).wrapping_add(i as u8 * 13 + 5);
    }
    PlantInfo { ctrl_sess: 0x0100 + n, dev_sess: 0x0200 + n, key_cd, key_dc }
}

/// How the subscriber answers one ReportData chunk.
#[derive(Debug, Clone, Copy, PartialEq, Eq, Serialize, Deserialize)]
pub enum SubReply {
    /// StatusResponse(Success) (nothing if the device asked to suppress the response)
    Accept,
    /// StatusResponse with this (non-success) Interaction-Model status, then the exchange ends
    Reject(u16),
    /// no Interaction-Model answer (the message is acknowledged at MRP level only); the exchange
    /// is held for that many virtual seconds and then dropped
    Silent(u16),
}

/// One ReportData message received by the controller on a device-initiated exchange.
#[derive(Debug, Clone, PartialEq)]
pub struct ReportRecord {
    /// virtual time the handler saw the message
    pub t_us: u64,
    /// serial number of the handler invocation (one per accepted exchange)
    pub exchange: u32,
    /// index of the message inside its exchange
    pub chunk: usize,
    pub sub_id: Option<u32>,
    pub attrs: Vec<ReportItem>,
    pub events: Vec<EventItem>,
    pub more: bool,
    pub suppress: bool,
    pub reply: SubReply,
    /// `Some(error)` if sending the answer failed
    pub reply_error: Option<String>,
}

/// Decode one ReportData payload (independent TLV decoder): `(subscription id, attribute items,
/// event items, more chunks, suppress response)`.
pub fn decode_report_data(payload: &[u8], chunk: usize) -> Option<(Option<u32>, Vec<ReportItem>, Vec<EventItem>, bool, bool)> {
    let (_, msg) = tlv::parse(payload)?;
    let mut out = ReadOutcome::default();
    let (more, suppress) = dec_report(&msg, chunk, &mut out)?;
    let sub_id = msg.ctx(0).and_then(|x| x.u()).map(|x| x as u32);
    Some((sub_id, out.attrs, out.events, more, suppress))
}

/// Decode a StatusResponse payload.
pub fn decode_status_response(payload: &[u8]) -> Option<u16> {
    dec_status_resp(payload)
}

/// Decode a SubscribeResponse payload: `(subscription id, max interval)`.
pub fn decode_subscribe_response(payload: &[u8]) -> Option<(u32, u16)> {
    let (_, v) = tlv::parse(payload)?;
    Some((v.ctx(0)?.u()? as u32, v.ctx(2)?.u()? as u16))
}

/// The controller-side subscriber: log + answer policy.
#[derive(Default)]
pub struct SubscriberHub {
    /// every ReportData message seen, in arrival order
    pub log: RefCell<Vec<ReportRecord>>,
    /// anything else that arrived on a device-initiated exchange
    pub oddities: RefCell<Vec<String>>,
    /// per subscription id: `(from virtual µs, reply)` steps, ascending; before the first step
    /// (and for unknown ids) the answer is `default_reply`
    pub policy: RefCell<BTreeMap<u32, Vec<(u64, SubReply)>>>,
    /// answer for subscription ids without a policy (a real subscriber refuses reports of
    /// subscriptions it does not know; the default here is `Accept`)
    pub default_reply: Cell<Option<SubReply>>,
    serial: Cell<u32>,
}

impl SubscriberHub {
    pub fn new() -> Self {
        Self::default()
    }

    /// From `from_us` on, reports of subscription `sub_id` are answered with `reply`.
    pub fn set_reply(&self, sub_id: u32, from_us: u64, reply: SubReply) {
        let mut p = self.policy.borrow_mut();
        let steps = p.entry(sub_id).or_default();
        steps.push((from_us, reply));
        steps.sort_by_key(|s| s.0);
    }

    fn reply_for(&self, sub_id: Option<u32>, now: u64) -> SubReply {
        let dflt = self.default_reply.get().unwrap_or(SubReply::Accept);
        let Some(id) = sub_id else { return dflt };
        let p = self.policy.borrow();
        let Some(steps) = p.get(&id) else { return dflt };
        steps.iter().rev().find(|(t, _)| *t <= now).map(|(_, r)| *r).unwrap_or(dflt)
    }
}

impl ExchangeHandler for SubscriberHub {
    async fn handle(&self, mut exchange: Exchange<'_>) -> Result<(), Error> {
        let serial = self.serial.get();
        self.serial.set(serial + 1);
        if exchange.rx().is_err() {
            exchange.recv_fetch().await?;
        }
        let mut chunk = 0usize;
        loop {
            let (proto, op, payload) = {
                let rx = exchange.rx()?;
                let m = rx.meta();
                (m.proto_id, m.proto_opcode, rx.payload().to_vec())
            };
            let now = clock::now();
            if proto != rs_matter::im::PROTO_ID_INTERACTION_MODEL || op != OpCode::ReportData as u8 {
                self.oddities.borrow_mut().push(format!("t={now} exchange {serial}: protocol {proto:#x} opcode {op}"));
                break;
            }
            let Some((sub_id, attrs, events, more, suppress)) = decode_report_data(&payload, chunk) else {
                self.oddities.borrow_mut().push(format!("t={now} exchange {serial}: undecodable ReportData"));
                break;
            };
            let reply = self.reply_for(sub_id, now);
            let idx = {
                let mut log = self.log.borrow_mut();
                log.push(ReportRecord { t_us: now, exchange: serial, chunk, sub_id, attrs, events, more, suppress, reply, reply_error: None });
                log.len() - 1
            };
            match reply {
                SubReply::Accept => {
                    if more || !suppress {
                        if let Err(e) = send_msg(&mut exchange, OpCode::StatusResponse, &encode_status(0)).await {
                            self.log.borrow_mut()[idx].reply_error = Some(e);
                            return Ok(());
                        }
                    }
                }
                SubReply::Reject(code) => {
                    if let Err(e) = send_msg(&mut exchange, OpCode::StatusResponse, &encode_status(code)).await {
                        self.log.borrow_mut()[idx].reply_error = Some(e);
                    }
                    break;
                }
                SubReply::Silent(hold_s) => {
                    let _ = select(exchange.acknowledge(), Timer::after(Duration::from_secs(2))).await;
                    Timer::after(Duration::from_secs(hold_s as u64)).await;
                    return Ok(());
                }
            }
            if !more {
                break;
            }
            chunk += 1;
            match select(exchange.recv_fetch(), Timer::after(Duration::from_secs(ANSWER_TIMEOUT_S))).await {
                Either::First(Ok(_)) => {}
                Either::First(Err(e)) => {
                    self.oddities.borrow_mut().push(format!("t={} exchange {serial}: next chunk: {:?}", clock::now(), e.code()));
                    return Ok(());
                }
                Either::Second(_) => {
                    self.oddities.borrow_mut().push(format!("t={} exchange {serial}: next chunk never came", clock::now()));
                    return Ok(());
                }
            }
        }
        let _ = select(exchange.acknowledge(), Timer::after(Duration::from_secs(5))).await;
        Ok(())
    }
}

/// The type of the rig's (and of an external) Interaction-Model state.
pub type RigImState =
    InteractionModelState<DummyNetworks, { rs_matter::im::subscriptions::DEFAULT_MAX_SUBSCRIPTIONS }, RIG_EVENTS_BUF>;

/// A fresh Interaction-Model state of the rig's type (for restarts of the IM layer).
pub fn new_im_state() -> Box<RigImState> {
    Box::new(InteractionModelState::new(DummyNetworks))
}

impl<C: Crypto> ImRig<C> {
    /// The rig's own Interaction-Model state (subscription table, event store).
    pub fn im_state(&self) -> &RigImState {
        &self.state
    }

    /// Number of session pairs planted so far (= the `n` of the next [`ImRig::plant`]).
    pub fn planted_count(&self) -> u16 {
        self.planted.get()
    }

    /// Like [`ImRig::run`], with a controller-side responder (`ctrl_tasks` tasks around `hub`) that
    /// serves the exchanges the device initiates, the key-value store `store` behind the device's
    /// Interaction Model, `state` instead of the rig's own state if given, and — if `startup` —
    /// `InteractionModel::startup()` (re-hydration of events epoch and persisted subscriptions)
    /// before anything runs.
    #[allow(clippy::too_many_arguments)]
    pub fn run_sub<F: Future<Output = ()>, S: KvBlobStore, H: ExchangeHandler>(
        &self,
        node: &SynthNode,
        sched: Sched,
        handlers: usize,
        deadline_s: u64,
        store: S,
        state: Option<&RigImState>,
        startup: bool,
        hub: &H,
        ctrl_tasks: usize,
        client: F,
    ) -> (Stop, bool, Option<String>) {
        let state = state.unwrap_or(&self.state);
        state.suppress_start_up_event();
        let kv = self.dev.kv(store);
        let dm = InteractionModel::new(&self.dev, &self.dev_crypto, &self.buffers, (node, Async(node)), &kv, state);
        let responder = Responder::new_default(&dm);
        let ctrl_responder = Responder::new("Subscriber", hub, &self.ctrl, 0);
        let done = Cell::new(false);
        let startup_error: RefCell<Option<String>> = RefCell::new(None);
        let started = Cell::new(false);
        let stop;
        {
            let mut ex = Exec::new(sched);
            ex.add_time_source(&self.net);
            if startup {
                let (dm, err) = (&dm, &startup_error);
                let s = &started;
                ex.spawn("dev.startup", async move {
                    if let Err(e) = dm.startup().await {
                        *err.borrow_mut() = Some(format!("{:?}", e.code()));
                    }
                    s.set(true);
                });
                let now = clock::now();
                let _ = ex.run_until(now, || started.get());
            }
            ex.spawn("dev.run", async {
                let _ = self.dev.run(&self.dev_crypto, self.net.end(0), self.net.end(0), NoNetwork).await;
            });
            ex.spawn("dev.dm", async {
                let _ = dm.run().await;
            });
            for h in 0..handlers.max(1) {
                let r = &responder;
                ex.spawn(&format!("dev.h{h}"), async move {
                    let _ = r.handle(h).await;
                });
            }
            {
                let (dm, q, out) = (&dm, &self.queue, &self.emitted);
                ex.spawn("dev.ctl", async move {
                    loop {
                        loop {
                            let cmd = q.borrow_mut().pop_front();
                            let Some(cmd) = cmd else { break };
                            match cmd {
                                DevCmd::Emit { ep, cl, ev, prio, payload } => {
                                    let prio = match prio {
                                        0 => EventPriority::Debug,
                                        1 => EventPriority::Info,
                                        _ => EventPriority::Critical,
                                    };
                                    let r = dm.emit_event(ep, cl, ev, prio, |mut tw| write_retagged(&mut tw, &payload));
                                    out.borrow_mut().push(r.map_err(|e| format!("{:?}", e.code())));
                                }
                                DevCmd::AttrChanged(e, c, a) => dm.notify_attr_changed(e, c, a),
                                DevCmd::AllChanged => dm.notify_all_changed(),
                            }
                        }
                        Pending1::default().await;
                    }
                });
            }
            ex.spawn("ctrl.run", async {
                let _ = self.ctrl.run(&self.ctrl_crypto, self.net.end(1), self.net.end(1), NoNetwork).await;
            });
            for h in 0..ctrl_tasks {
                let r = &ctrl_responder;
                ex.spawn(&format!("ctrl.h{h}"), async move {
                    let _ = r.handle(h).await;
                });
            }
            let d = &done;
            ex.spawn("client", async move {
                client.await;
                d.set(true);
            });
            let dl = clock::now() + deadline_s * SEC;
            stop = ex.run_until(dl, || done.get());
        }
        let err = startup_error.into_inner();
        (stop, done.get(), err)
    }
}

// =================================================================================================
// Chunked WriteRequests (added for C06 `write-chunked`)
// =================================================================================================

/// Like [`encode_write`], with the MoreChunkedMessages field (context tag 3; omitted when false).
pub fn encode_write_chunk(items: &[WriteItem], timed_flag: bool, more_chunks: bool) -> Vec<u8> {
    let mut e = Enc::new();
    e.start_struct(Tag::Anon);
    e.boolean(Tag::Ctx(0), false);
    e.boolean(Tag::Ctx(1), timed_flag);
    e.start_array(Tag::Ctx(2));
    for i in items {
        e.start_struct(Tag::Anon);
        if let Some(dv) = i.dataver {
            e.uint(Tag::Ctx(0), dv as u64);
        }
        enc_attr_path(&mut e, Tag::Ctx(1), &i.path, i.list_index);
        i.value.encode(Tag::Ctx(2), &mut e);
        e.end();
    }
    e.end();
    if more_chunks {
        e.boolean(Tag::Ctx(3), true);
    }
    e.uint(Tag::Ctx(0xff), IM_REV).end();
    e.buf
}

/// One WriteRequest message of a chunked write.
#[derive(Debug, Clone, PartialEq, Eq, Serialize, Deserialize)]
pub struct WriteChunk {
    pub items: Vec<WriteItem>,
    /// the TimedRequest field of this chunk
    pub timed_flag: bool,
    /// virtual delay before this chunk is sent (after the previous answer arrived; for the first
    /// chunk in addition to [`Timed::delay_us`])
    pub delay_us: u64,
}

#[derive(Debug, Clone, Default, PartialEq)]
pub struct WriteChunkOutcome {
    pub statuses: Vec<WriteStatus>,
    /// a StatusResponse was received instead of the WriteResponse
    pub status: Option<u16>,
    pub responded: bool,
    pub error: Option<String>,
    /// virtual instants (µs) when the chunk was sent and when its answer arrived
    pub t_sent: u64,
    pub t_answered: u64,
}

#[derive(Debug, Clone, Default, PartialEq)]
pub struct ChunkedWriteOutcome {
    /// status of the StatusResponse to the Timed request (if one was sent)
    pub timed_status: Option<u16>,
    /// virtual instants (µs) when the Timed request was sent / its status arrived (both = start
    /// of the write if untimed)
    pub t_timed_sent: u64,
    pub t_timed_acked: u64,
    /// one entry per chunk that was SENT (sending stops after the first chunk that is not
    /// answered by a WriteResponse)
    pub chunks: Vec<WriteChunkOutcome>,
    /// the Timed phase failed (nothing was sent)
    pub error: Option<String>,
}

/// (Timed request,) then the chunks as WriteRequests on the same exchange: all but the last with
/// MoreChunkedMessages = true, each preceded by its virtual delay and followed by waiting for its
/// answer. `on_chunk(i, outcome_i)` runs right after the answer to chunk `i` arrived (or failed
/// to). Chunks after one that was not answered by a WriteResponse are not sent.
pub async fn write_chunked(
    ex: &mut Exchange<'_>,
    timed: Option<Timed>,
    chunks: &[WriteChunk],
    on_chunk: &mut dyn FnMut(usize, &WriteChunkOutcome),
) -> ChunkedWriteOutcome {
    let mut out = ChunkedWriteOutcome::default();
    if let Some(t) = &timed {
        let mut times = [0u64; 4];
        let r = do_timed(ex, t, &mut times).await;
        out.t_timed_sent = times[0];
        out.t_timed_acked = times[1];
        match r {
            Ok(s) => out.timed_status = Some(s),
            Err(e) => {
                out.error = Some(e);
                return out;
            }
        }
    } else {
        out.t_timed_sent = clock::now();
        out.t_timed_acked = out.t_timed_sent;
    }
    for (i, c) in chunks.iter().enumerate() {
        if c.delay_us > 0 {
            Timer::after(Duration::from_micros(c.delay_us)).await;
        }
        let mut co = WriteChunkOutcome { t_sent: clock::now(), ..Default::default() };
        let more = i + 1 < chunks.len();
        match send_msg(ex, OpCode::WriteRequest, &encode_write_chunk(&c.items, c.timed_flag, more)).await {
            Err(e) => co.error = Some(e),
            Ok(()) => match recv_msg(ex).await {
                Err(e) => co.error = Some(e),
                Ok((op, payload)) if op == OpCode::StatusResponse as u8 => match dec_status_resp(&payload) {
                    Some(s) => co.status = Some(s),
                    None => co.error = Some("undecodable StatusResponse".into()),
                },
                Ok((op, payload)) if op == OpCode::WriteResponse as u8 => {
                    let parsed = tlv::parse(&payload).and_then(|(_, v)| {
                        let mut st = Vec::new();
                        for (_, s) in v.ctx(0)?.items() {
                            let (path, li) = dec_attr_path(s.ctx(0)?)?;
                            st.push(WriteStatus { path, list_index: li, status: dec_status_ib(s.ctx(1)?)? });
                        }
                        Some(st)
                    });
                    match parsed {
                        Some(st) => {
                            co.responded = true;
                            co.statuses = st;
                        }
                        None => co.error = Some("undecodable WriteResponse".into()),
                    }
                }
                Ok((op, _)) => co.error = Some(format!("unexpected IM opcode {op}")),
            },
        }
        co.t_answered = clock::now();
        on_chunk(i, &co);
        let go_on = co.responded;
        out.chunks.push(co);
        if !go_on {
            break;
        }
    }
    let _ = select(ex.acknowledge(), Timer::after(Duration::from_secs(5))).await;
    out
}
