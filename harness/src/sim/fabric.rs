//! Fabric material for simulated nodes: a small certificate authority built on the public
//! `onboard` generators, and helpers to install a fabric member on a `Matter` object.

use core::num::NonZeroU8;

use rs_matter::cert::gen::VALID_FOREVER;
use rs_matter::cert::MAX_CERT_TLV_AND_ASN1_LEN;
use rs_matter::crypto::{
    CanonAeadKeyRef, CanonPkcSecretKey, CanonPkcSecretKeyRef, Crypto, SecretKey, SigningSecretKey,
};
use rs_matter::error::Error;
use rs_matter::onboard::cac::{IcacGenerator, RcacGenerator};
use rs_matter::onboard::noc::NocGenerator;
use rs_matter::Matter;

/// One fabric's certificate authority (root, optional intermediate, IPK).
pub struct Ca {
    pub fabric_id: u64,
    pub rcac: Vec<u8>,
    pub rcac_key: [u8; 32],
    pub icac: Option<(Vec<u8>, [u8; 32])>,
    pub ipk: [u8; 16],
}

impl Ca {
    /// Like [`Ca::try_new`], retried with fresh randomness: the repository's RCAC/ICAC
    /// generators draw an unconstrained random serial number and refuse about one draw in 250
    /// themselves (recorded as an observation in DESIGN.md).
    pub fn new<C: Crypto>(crypto: &C, fabric_id: u64, with_icac: bool, ipk_seed: u8) -> Result<Self, Error> {
        let mut last = None;
        for _ in 0..16 {
            match Self::try_new(crypto, fabric_id, with_icac, ipk_seed) {
                Ok(ca) => return Ok(ca),
                Err(e) => last = Some(e),
            }
        }
        Err(last.unwrap())
    }

    pub fn try_new<C: Crypto>(crypto: &C, fabric_id: u64, with_icac: bool, ipk_seed: u8) -> Result<Self, Error> {
        let mut buf = [0u8; MAX_CERT_TLV_AND_ASN1_LEN];
        let mut g = RcacGenerator::new(&mut buf);
        let (rkey, rcac) = g.generate(crypto, fabric_id, VALID_FOREVER)?;
        let rcac = rcac.to_vec();
        let rcac_key = *rkey.access();
        let icac = if with_icac {
            let mut ibuf = [0u8; MAX_CERT_TLV_AND_ASN1_LEN];
            let mut ig = IcacGenerator::new(&mut ibuf);
            let (ikey, icac) = ig.generate(crypto, rkey.reference(), &rcac, VALID_FOREVER)?;
            Some((icac.to_vec(), *ikey.access()))
        } else {
            None
        };
        let mut ipk = [0u8; 16];
        for (i, b) in ipk.iter_mut().enumerate() {
            *b = ipk_seed.wrapping_mul(29).wrapping_add(i as u8 * 11 + 3);
        }
        Ok(Self {
            fabric_id,
            rcac,
            rcac_key,
            icac,
            ipk,
        })
    }

    pub fn icac_bytes(&self) -> &[u8] {
        self.icac.as_ref().map(|(c, _)| c.as_slice()).unwrap_or(&[])
    }

    fn signing_key(&self) -> &[u8; 32] {
        self.icac.as_ref().map(|(_, k)| k).unwrap_or(&self.rcac_key)
    }

    /// Issue a NOC for the public key in `csr`.
    pub fn issue<C: Crypto>(
        &self,
        crypto: &C,
        csr: &[u8],
        node_id: u64,
        cats: &[u32],
    ) -> Result<Vec<u8>, Error> {
        let mut buf = [0u8; MAX_CERT_TLV_AND_ASN1_LEN];
        let mut ng = NocGenerator::create(
            CanonPkcSecretKeyRef::new(self.signing_key()),
            &self.rcac,
            self.icac_bytes(),
            &mut buf,
        )?;
        Ok(ng.generate(crypto, csr, node_id, cats, VALID_FOREVER)?.to_vec())
    }
}

/// A member identity: operational key + NOC.
pub struct Member {
    pub node_id: u64,
    pub cats: Vec<u32>,
    pub key: [u8; 32],
    pub noc: Vec<u8>,
}

/// Generate an operational key and have `ca` certify it.
pub fn new_member<C: Crypto>(crypto: &C, ca: &Ca, node_id: u64, cats: &[u32]) -> Result<Member, Error> {
    let sk = crypto.generate_secret_key()?;
    let mut csr_buf = [0u8; 256];
    let csr = sk.csr(&mut csr_buf)?;
    let mut canon = CanonPkcSecretKey::new();
    sk.write_canon(&mut canon)?;
    let noc = ca.issue(crypto, csr, node_id, cats)?;
    Ok(Member {
        node_id,
        cats: cats.to_vec(),
        key: *canon.access(),
        noc,
    })
}

/// Install `member` of fabric `ca` into `matter`'s fabric table; returns the local fabric index.
pub fn install<C: Crypto>(
    matter: &Matter<'_>,
    crypto: &C,
    ca: &Ca,
    member: &Member,
    case_admin_subject: u64,
) -> Result<NonZeroU8, Error> {
    matter.with_state(|state| {
        state
            .fabrics
            .add(
                crypto,
                CanonPkcSecretKeyRef::new(&member.key),
                &ca.rcac,
                &member.noc,
                ca.icac_bytes(),
                Some(CanonAeadKeyRef::new(&ca.ipk)),
                0xFFF1,
                case_admin_subject,
            )
            .map(|f| f.fab_idx())
    })
}
