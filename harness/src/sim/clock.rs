//! Virtual clock: an `embassy-time` driver whose "now" and alarm queue are thread-local,
//! so every worker thread (and therefore every generated case) lives in its own universe.
//!
//! Tick rate is embassy-time's default 1 MHz: ticks are microseconds.

use std::cell::{Cell, RefCell};
use std::task::Waker;

thread_local! {
    static NOW: Cell<u64> = const { Cell::new(0) };
    static ALARMS: RefCell<Vec<(u64, Waker)>> = const { RefCell::new(Vec::new()) };
}

struct VirtualDriver;

impl embassy_time_driver::Driver for VirtualDriver {
    fn now(&self) -> u64 {
        NOW.with(|n| n.get())
    }

    fn schedule_wake(&self, at: u64, waker: &Waker) {
        if at <= NOW.with(|n| n.get()) {
            waker.wake_by_ref();
            return;
        }
        ALARMS.with(|a| {
            let mut a = a.borrow_mut();
            // Same task re-arming the same instant: no need for a second entry.
            if !a.iter().any(|(t, w)| *t == at && w.will_wake(waker)) {
                a.push((at, waker.clone()));
            }
        });
    }
}

embassy_time_driver::time_driver_impl!(static DRIVER: VirtualDriver = VirtualDriver);

/// Reset the clock of this thread to `t` microseconds and forget all alarms.
pub fn reset(t: u64) {
    NOW.with(|n| n.set(t));
    ALARMS.with(|a| a.borrow_mut().clear());
}

/// Current virtual time in microseconds.
pub fn now() -> u64 {
    NOW.with(|n| n.get())
}

/// Earliest pending alarm, if any.
pub fn next_alarm() -> Option<u64> {
    ALARMS.with(|a| a.borrow().iter().map(|(t, _)| *t).min())
}

/// Number of pending alarms (diagnostics).
pub fn alarm_count() -> usize {
    ALARMS.with(|a| a.borrow().len())
}

/// Move the clock forward to `t` (never backwards) and fire every alarm that is due.
pub fn advance_to(t: u64) {
    NOW.with(|n| {
        if t > n.get() {
            n.set(t)
        }
    });
    let now = now();
    let due: Vec<Waker> = ALARMS.with(|a| {
        let mut a = a.borrow_mut();
        let mut due = Vec::new();
        let mut i = 0;
        while i < a.len() {
            if a[i].0 <= now {
                due.push(a.swap_remove(i).1);
            } else {
                i += 1;
            }
        }
        due
    });
    for w in due {
        w.wake();
    }
}

/// Advance by `d` microseconds.
pub fn advance_by(d: u64) {
    advance_to(now().saturating_add(d));
}
