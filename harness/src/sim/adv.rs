//! Generated per-datagram adversary plans (drop / duplicate / delay / reorder) for two-node
//! scenarios. Direction 0 = node 0 -> node 1, direction 1 = node 1 -> node 0.

use std::cell::RefCell;
use std::rc::Rc;

use proptest::prelude::*;
use serde::{Deserialize, Serialize};

use super::net::{Actions, Net, Sent};
use super::MS;

#[derive(Debug, Clone, PartialEq, Eq, Serialize, Deserialize)]
pub enum Act {
    Deliver,
    Drop,
    /// deliver `n + 1` copies now
    Dup(u8),
    /// deliver once after that many ms (later datagrams may overtake it)
    Delay(u32),
    /// deliver now and once more after that many ms
    DupDelay(u32),
}

#[derive(Debug, Clone, Default, PartialEq, Eq, Serialize, Deserialize)]
pub struct Plan {
    /// decisions for the datagrams of each direction, in sending order; then `Deliver`
    pub dir: [Vec<Act>; 2],
    /// from that datagram index on, everything in the direction is dropped
    pub blackhole_from: [Option<u16>; 2],
}

pub fn act() -> impl Strategy<Value = Act> {
    prop_oneof![
        8 => Just(Act::Deliver),
        5 => Just(Act::Drop),
        2 => (0u8..3).prop_map(Act::Dup),
        2 => prop_oneof![1u32..50, 50u32..800, 800u32..5000].prop_map(Act::Delay),
        1 => prop_oneof![1u32..400, 400u32..3000].prop_map(Act::DupDelay),
    ]
}

/// A plan with up to `n` explicit decisions per direction.
pub fn plan(n: usize) -> impl Strategy<Value = Plan> {
    (
        prop::collection::vec(act(), 0..n),
        prop::collection::vec(act(), 0..n),
        prop_oneof![6 => Just(None), 1 => (0u16..12).prop_map(Some)],
        prop_oneof![6 => Just(None), 1 => (0u16..12).prop_map(Some)],
    )
        .prop_map(|(a, b, ha, hb)| Plan {
            dir: [a, b],
            blackhole_from: [ha, hb],
        })
}

impl Plan {
    pub fn is_noop(&self) -> bool {
        self.blackhole_from == [None, None]
            && self.dir.iter().all(|d| d.iter().all(|a| *a == Act::Deliver))
    }
}

/// What the adversary did, for oracles that need it.
#[derive(Debug, Default, Clone)]
pub struct AdvLog {
    /// per sent datagram (by `Sent::seq`): the action applied
    pub applied: Vec<(usize, Act)>,
    pub dropped: usize,
    pub duplicated: usize,
    pub delayed: usize,
}

/// Install `plan` on `net` for the node pair (0, 1). Returns a handle to the log.
pub fn install(net: &Net, plan: &Plan) -> Rc<RefCell<AdvLog>> {
    let log = Rc::new(RefCell::new(AdvLog::default()));
    let log2 = log.clone();
    let plan = plan.clone();
    let mut idx = [0usize; 2];
    net.set_adversary(move |s: &Sent| -> Actions {
        let d = if s.src == 0 { 0 } else { 1 };
        let i = idx[d];
        idx[d] += 1;
        let mut act = plan.dir[d].get(i).cloned().unwrap_or(Act::Deliver);
        if let Some(from) = plan.blackhole_from[d] {
            if i >= from as usize {
                act = Act::Drop;
            }
        }
        let mut l = log2.borrow_mut();
        l.applied.push((s.seq, act.clone()));
        match act {
            Act::Deliver => vec![(0, s.bytes.clone())],
            Act::Drop => {
                l.dropped += 1;
                vec![]
            }
            Act::Dup(n) => {
                l.duplicated += 1;
                (0..=n).map(|_| (0, s.bytes.clone())).collect()
            }
            Act::Delay(ms) => {
                l.delayed += 1;
                vec![(ms as u64 * MS, s.bytes.clone())]
            }
            Act::DupDelay(ms) => {
                l.duplicated += 1;
                vec![(0, s.bytes.clone()), (ms as u64 * MS, s.bytes.clone())]
            }
        }
    });
    log
}
