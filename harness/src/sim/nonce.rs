//! Wire-tap oracle for C15: retransmissions are bit-for-bit identical, counters of first
//! transmissions increase strictly per secure session, so no (key, counter, source) is ever
//! used for two different messages.

use std::collections::BTreeMap;

use super::net::Net;
use super::node::decode_plain;

/// How far a first transmission may lag behind the highest counter already seen on the wire.
const REORDER_SLACK: u32 = 256;

#[derive(Debug, Default, Clone)]
pub struct NonceReport {
    /// number of (sender, destination, session, counter) groups with >= 2 transmissions
    pub retransmitted_groups: usize,
    /// number of secure-session datagrams looked at
    pub secure_datagrams: usize,
    /// number of distinct secure (sender, session) streams
    pub secure_streams: usize,
}

/// Check every datagram the nodes sent (the tap records them before the adversary touches them).
pub fn check_tap(net: &Net) -> Result<NonceReport, (String, String)> {
    let mut rep = NonceReport::default();
    net.with_tap(|tap| {
        // (src, dst addr text, session id, encrypted, counter) -> first bytes seen
        let mut groups: BTreeMap<(usize, String, u16, bool, u32), (usize, Vec<u8>, usize)> = BTreeMap::new();
        // (src, dst, session id) -> last first-transmission counter
        let mut streams: BTreeMap<(usize, String, u16), u32> = BTreeMap::new();
        for s in &tap.sent {
            let Some((sess, ctr, enc)) = decode_plain(&s.bytes) else {
                return Err((
                    "wire:undecodable-header".to_string(),
                    format!("datagram #{} sent by node {} has no decodable message header", s.seq, s.src),
                ));
            };
            let dst = format!("{}", s.dst_addr);
            let key = (s.src, dst.clone(), sess, enc, ctr);
            if enc {
                rep.secure_datagrams += 1;
            }
            match groups.get_mut(&key) {
                Some((first_seq, bytes, n)) => {
                    *n += 1;
                    if *bytes != s.bytes {
                        let d = bytes
                            .iter()
                            .zip(s.bytes.iter())
                            .position(|(a, b)| a != b)
                            .unwrap_or(bytes.len().min(s.bytes.len()));
                        return Err((
                            if enc { "nonce:retransmission-differs".to_string() } else { "unsecured:retransmission-differs".to_string() },
                            format!(
                                "node {} sent two different datagrams with session {sess:#x} counter {ctr:#x} (encrypted={enc}): #{} ({} bytes) and #{} ({} bytes), first difference at byte {d}",
                                s.src, first_seq, bytes.len(), s.seq, s.bytes.len()
                            ),
                        ));
                    }
                }
                None => {
                    groups.insert(key, (s.seq, s.bytes.clone(), 1));
                    if enc {
                        let sk = (s.src, dst, sess);
                        // Counters are assigned when a message is built; a message built earlier
                        // may reach the wire after one built later (e.g. an immediate stand-alone
                        // acknowledgement overtaking a queued message), so small inversions in
                        // wire order are legitimate. A counter far below the highest one used
                        // means the counter went backwards.
                        let last = streams.get(&sk).copied();
                        if let Some(last) = last {
                            if ctr.saturating_add(REORDER_SLACK) <= last {
                                return Err((
                                    "nonce:counter-went-backwards".to_string(),
                                    format!(
                                        "node {} session {sess:#x}: new message #{} carries counter {ctr:#x} although counter {:#x} was already used",
                                        s.src, s.seq, last
                                    ),
                                ));
                            }
                        }
                        streams.insert(sk, last.map(|l| l.max(ctr)).unwrap_or(ctr));
                    }
                }
            }
        }
        rep.retransmitted_groups = groups.values().filter(|(_, _, n)| *n > 1).count();
        rep.secure_streams = streams.len();
        Ok(())
    })?;
    Ok(rep)
}
