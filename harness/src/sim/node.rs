//! Node helpers: deterministic crypto, `Matter` construction, planted session pairs and a
//! wire decoder for the tap.

use core::num::NonZeroU8;

use rs_matter::crypto::{default_crypto, CanonAeadKeyRef, Crypto, WeakTestOnlyRand};
use rs_matter::dm::devices::test::{DAC_PRIVKEY, TEST_DEV_ATT, TEST_DEV_COMM, TEST_DEV_DET};
use rs_matter::error::Error;
use rs_matter::transport::network::Address;
use rs_matter::transport::packet::PacketHdr;
use rs_matter::transport::session::verif::SessionSnapshot;
use rs_matter::transport::session::{NocCatIds, ReservedSession, SessionMode};
use rs_matter::utils::storage::ParseBuf;
use rs_matter::Matter;

use serde::{Deserialize, Serialize};

/// Deterministic crypto provider: the RNG stream is a pure function of `seed`.
pub fn mk_crypto(seed: u32) -> impl Crypto {
    default_crypto(WeakTestOnlyRand::new(seed | 1), DAC_PRIVKEY)
}

/// A fresh `Matter` object with the test device details.
pub fn new_matter(port: u16) -> Matter<'static> {
    Matter::new(&TEST_DEV_DET, TEST_DEV_COMM, &TEST_DEV_ATT, port)
}

#[derive(Debug, Clone, Copy, PartialEq, Eq, Serialize, Deserialize)]
pub enum SessKind {
    Plain,
    Pase,
    Case,
}

/// Everything the harness knows about one planted session pair (A = node index `a`, B = `b`).
#[derive(Debug, Clone)]
pub struct Planted {
    pub kind: SessKind,
    pub a_node_id: u64,
    pub b_node_id: u64,
    pub a_sess_id: u16,
    pub b_sess_id: u16,
    /// key used for A -> B traffic (A's enc key, B's dec key)
    pub key_ab: [u8; 16],
    /// key used for B -> A traffic
    pub key_ba: [u8; 16],
    /// rs-matter internal (unique) session ids on each side
    pub a_internal: u32,
    pub b_internal: u32,
}

/// Plant one half of a session. Returns the internal (unique) session id.
#[allow(clippy::too_many_arguments)]
pub fn plant_half<C: Crypto>(
    matter: &Matter<'_>,
    crypto: C,
    kind: SessKind,
    local_node: u64,
    peer_node: u64,
    local_sess: u16,
    peer_sess: u16,
    peer_addr: Address,
    dec: &[u8; 16],
    enc: &[u8; 16],
    fab_idx: u8,
    cat_ids: NocCatIds,
) -> Result<u32, Error> {
    let mut s = ReservedSession::reserve_now(matter, crypto)?;
    let mode = match kind {
        SessKind::Plain => SessionMode::PlainText,
        SessKind::Pase => SessionMode::Pase { fab_idx: 0 },
        SessKind::Case => SessionMode::Case {
            fab_idx: NonZeroU8::new(fab_idx.max(1)).unwrap(),
            cat_ids,
        },
    };
    let (d, e) = if kind == SessKind::Plain {
        (None, None)
    } else {
        (
            Some(CanonAeadKeyRef::new(dec)),
            Some(CanonAeadKeyRef::new(enc)),
        )
    };
    s.update(
        local_node, peer_node, peer_sess, local_sess, peer_addr, mode, d, e, None, None,
    )?;
    s.complete();
    drop(s);
    // The session just completed is the one whose local session id we chose.
    let id = matter.with_state(|st| {
        st.verif_sessions()
            .verif_snapshots()
            .filter(|s| s.local_sess_id == local_sess && s.peer_addr == peer_addr && !s.reserved)
            .map(|s| s.id)
            .last()
    });
    id.ok_or_else(|| rs_matter::error::ErrorCode::NoSession.into())
}

/// Plant a matching session on two nodes.
#[allow(clippy::too_many_arguments)]
pub fn plant_pair<CA: Crypto, CB: Crypto>(
    a: &Matter<'_>,
    ca: CA,
    a_addr: Address,
    b: &Matter<'_>,
    cb: CB,
    b_addr: Address,
    kind: SessKind,
    a_sess_id: u16,
    b_sess_id: u16,
    key_seed: u8,
) -> Result<Planted, Error> {
    let (a_node_id, b_node_id) = match kind {
        // PASE sessions carry no node ids (nonce uses the unspecified node id 0)
        SessKind::Pase => (0, 0),
        SessKind::Plain => (0x1111_0000_0000_0001, 0x2222_0000_0000_0002),
        SessKind::Case => (0x0000_0000_0001_B669, 0x0000_0000_0001_B66A),
    };
    let mut key_ab = [0u8; 16];
    let mut key_ba = [0u8; 16];
    for i in 0..16 {
        key_ab[i] = key_seed.wrapping_mul(31).wrapping_add(i as u8 * 7 + 1);
        key_ba[i] = key_seed.wrapping_mul(17).wrapping_add(i as u8 * 13 + 5);
    }
    let (sa, sb) = if kind == SessKind::Plain {
        (0, 0)
    } else {
        (a_sess_id, b_sess_id)
    };
    let a_internal = plant_half(
        a,
        ca,
        kind,
        a_node_id,
        b_node_id,
        sa,
        sb,
        b_addr,
        &key_ba,
        &key_ab,
        1,
        NocCatIds::default(),
    )?;
    let b_internal = plant_half(
        b,
        cb,
        kind,
        b_node_id,
        a_node_id,
        sb,
        sa,
        a_addr,
        &key_ab,
        &key_ba,
        1,
        NocCatIds::default(),
    )?;
    Ok(Planted {
        kind,
        a_node_id,
        b_node_id,
        a_sess_id: sa,
        b_sess_id: sb,
        key_ab,
        key_ba,
        a_internal,
        b_internal,
    })
}

/// A decoded datagram (what the tap can see with the session keys).
#[derive(Debug, Clone, PartialEq, Eq, Serialize, Deserialize)]
pub struct Wire {
    pub sess_id: u16,
    pub ctr: u32,
    pub encrypted: bool,
    pub src_node: Option<u64>,
    pub dst_node: Option<u64>,
    pub exch_id: u16,
    pub proto_id: u16,
    pub opcode: u8,
    pub initiator: bool,
    pub reliable: bool,
    pub ack: Option<u32>,
    pub payload: Vec<u8>,
}

/// Decode a datagram. `key`/`nonce_node` are needed for encrypted packets: the receiver's
/// decryption key and the sender's node id as used in the nonce.
pub fn decode_wire(bytes: &[u8], key: Option<&[u8; 16]>, nonce_node: u64) -> Option<Wire> {
    let mut buf = bytes.to_vec();
    let mut pb = ParseBuf::new(buf.as_mut_slice());
    let mut hdr = PacketHdr::new();
    hdr.decode_plain_hdr(&mut pb).ok()?;
    let crypto = mk_crypto(1);
    if hdr.plain.is_encrypted() {
        let key = key?;
        hdr.decode_remaining(&crypto, Some(CanonAeadKeyRef::new(key)), nonce_node, &mut pb)
            .ok()?;
    } else {
        hdr.decode_remaining(&crypto, None, 0, &mut pb).ok()?;
    }
    Some(Wire {
        sess_id: hdr.plain.sess_id,
        ctr: hdr.plain.ctr,
        encrypted: hdr.plain.is_encrypted(),
        src_node: hdr.plain.get_src_nodeid(),
        dst_node: hdr.plain.get_dst_unicast_nodeid(),
        exch_id: hdr.proto.exch_id,
        proto_id: hdr.proto.proto_id,
        opcode: hdr.proto.proto_opcode,
        initiator: hdr.proto.is_initiator(),
        reliable: hdr.proto.is_reliable(),
        ack: hdr.proto.get_ack(),
        payload: pb.as_slice().to_vec(),
    })
}

/// Only the unencrypted message header (session id, counter) — always available.
pub fn decode_plain(bytes: &[u8]) -> Option<(u16, u32, bool)> {
    let mut buf = bytes.to_vec();
    let mut pb = ParseBuf::new(buf.as_mut_slice());
    let mut hdr = PacketHdr::new();
    hdr.decode_plain_hdr(&mut pb).ok()?;
    Some((hdr.plain.sess_id, hdr.plain.ctr, hdr.plain.is_encrypted()))
}

/// Snapshot of every session of a node.
pub fn sessions(matter: &Matter<'_>) -> Vec<SessionSnapshot> {
    matter.with_state(|s| s.verif_sessions().verif_snapshots().collect())
}

/// `StatusReport(Success, CloseSession)` as the peer of a session sends it on an exchange the
/// receiver initiated: secured with `key` (the key the receiver decrypts with; `src_node` = the
/// sender's node id for the nonce), or unsecured (`key` = None, `dst_node` = the ephemeral
/// initiator node id of the receiver's unsecured session).
pub fn craft_close_session(
    key: Option<&[u8; 16]>,
    src_node: u64,
    dst_node: Option<u64>,
    sess_id: u16,
    ctr: u32,
    exch_id: u16,
) -> Option<Vec<u8>> {
    use rs_matter::sc::{GeneralCode, OpCode, SCStatusCodes, StatusReport, PROTO_ID_SECURE_CHANNEL};
    use rs_matter::utils::storage::WriteBuf;
    let mut hdr = PacketHdr::new();
    hdr.plain.sess_id = sess_id;
    hdr.plain.ctr = ctr;
    if key.is_none() {
        hdr.plain.set_dst_unicast_nodeid(dst_node);
    }
    hdr.proto.exch_id = exch_id;
    hdr.proto.unset_initiator();
    hdr.proto.unset_reliable();
    hdr.proto.proto_id = PROTO_ID_SECURE_CHANNEL;
    hdr.proto.proto_opcode = OpCode::StatusReport as u8;
    let mut status_buf = [0u8; 16];
    let body = {
        let mut wb = WriteBuf::new(&mut status_buf);
        StatusReport {
            general_code: GeneralCode::Success,
            proto_id: PROTO_ID_SECURE_CHANNEL as u32,
            proto_code: SCStatusCodes::CloseSession as u16,
            proto_data: &[],
        }
        .write(&mut wb)
        .ok()?;
        wb.as_slice().to_vec()
    };
    let mut buf = vec![0u8; 128];
    let reserve = PacketHdr::HDR_RESERVE;
    let end = reserve + body.len();
    buf[reserve..end].copy_from_slice(&body);
    let crypto = mk_crypto(1);
    let mut wb = WriteBuf::new_with(&mut buf, reserve, end);
    hdr.encode(&crypto, key.map(|k| CanonAeadKeyRef::new(k)), src_node, &mut wb).ok()?;
    Some(wb.as_slice().to_vec())
}

/// An application message secured with `key` (the key the receiver decrypts with; `src_node` =
/// the sender's node id for the nonce), for the receiver's local session id `sess_id`.
#[allow(clippy::too_many_arguments)]
pub fn craft_secured(
    key: &[u8; 16],
    src_node: u64,
    sess_id: u16,
    ctr: u32,
    exch_id: u16,
    initiator: bool,
    reliable: bool,
    proto_id: u16,
    opcode: u8,
    payload: &[u8],
) -> Option<Vec<u8>> {
    use rs_matter::utils::storage::WriteBuf;
    let mut hdr = PacketHdr::new();
    hdr.plain.sess_id = sess_id;
    hdr.plain.ctr = ctr;
    hdr.proto.exch_id = exch_id;
    if initiator {
        hdr.proto.set_initiator();
    } else {
        hdr.proto.unset_initiator();
    }
    if reliable {
        hdr.proto.set_reliable();
    } else {
        hdr.proto.unset_reliable();
    }
    hdr.proto.proto_id = proto_id;
    hdr.proto.proto_opcode = opcode;
    let mut buf = vec![0u8; payload.len() + 128];
    let reserve = PacketHdr::HDR_RESERVE;
    let end = reserve + payload.len();
    buf[reserve..end].copy_from_slice(payload);
    let crypto = mk_crypto(1);
    let mut wb = WriteBuf::new_with(&mut buf, reserve, end);
    hdr.encode(&crypto, Some(CanonAeadKeyRef::new(key)), src_node, &mut wb).ok()?;
    Some(wb.as_slice().to_vec())
}
