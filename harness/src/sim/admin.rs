//! Administrative simulated device + commissioner (used by C08; meant for C07 and C11 too).
//!
//! # What this module gives you
//!
//! * **A simulated DEVICE** whose root endpoint is served by the repository's own cluster
//!   handlers, wired exactly like `rs-matter/tests/commissioning.rs`: `Matter`, `MatterBuffers`,
//!   `InteractionModelState`, `root_endpoint!(eth|wifi)` + `endpoints::{Eth,Wifi}SysHandlerBuilder`,
//!   `InteractionModel::new(..)`, `Responder::new_default(&dm)`, and the three futures
//!   `matter.run(..)`, `responder.run::<4>()`, `dm.run()` (the latter drives the fail-safe timer /
//!   `run_timeout_checks`). The persistent store is the logging [`MemKv`]. The `os` feature is off,
//!   so the Wi-Fi variant uses the crate's own no-OS pieces: `WifiNetworks<4>` as the store and
//!   `NoopWirelessNetCtl` as controller/diagnostics.
//!
//!   One *incarnation* of the device is one call of [`boot`]: it builds all objects on the
//!   caller's stack, optionally re-hydrates them from the KV store (`resume = true` runs
//!   `Matter::startup(kv)` + `InteractionModel::startup()`), spawns the device (and controller
//!   transport) futures into a fresh [`Exec`] and hands a [`Boot`] to the caller's closure.
//!   When the closure returns every future and the `Matter`/IM objects are dropped: calling
//!   [`boot`] again with the same [`MemKv`] handle and `resume = true` is a **restart**.
//!   To boot from a crash prefix use `MemKv::from_map(kv.materialize(prefix))`.
//!
//! * **A COMMISSIONER**: [`Controller`]s (plain `Matter` stacks on net nodes `1..`), fabric
//!   material ([`FabricKit`] = CA + admin identity, [`initial_kv`] = a KV image with fabrics
//!   already commissioned), session helpers ([`Boot::plant_pase`], [`Boot::plant_case`],
//!   [`Boot::pase_handshake`], [`Boot::case_handshake`]) and [`Boot::invoke`] which runs ONE
//!   administrative command ([`Cmd`]) over a given session and returns the decoded
//!   [`Outcome`] (response struct status + fields, or IM status, or transport error).
//!   Requests are encoded field by field with the tags of the cluster IDL (same bytes the
//!   generated typed builders used by `onboard.rs` produce); adding a command means adding a
//!   `Cmd` variant and its `(cluster, command, fields)` row in [`Cmd::wire`].
//!
//! * **A canonical SNAPSHOT** of the administrative state: [`Boot::snapshot`] = TLV bytes and a
//!   readable summary of every fabric in `state.fabrics` (identity, ACL, groups, label), the
//!   network store (`Networks::save`), the fail-safe armed flag + breadcrumb (hook
//!   `MatterState::verif_failsafe`), and the KV contents. [`fabrics_from_kv`] boots a scratch
//!   `Matter` from a KV image and returns the same fabric map, so "memory == what a reboot
//!   would see" is one comparison.
//!
//! * **For C07** (added later, [`boot`] unchanged): [`boot_with`] + [`BootOpts`] (run the debounced
//!   resumption-cache writer), [`Boot::read`] / [`Boot::subscribe`] (hand-rolled IM client of
//!   `sim::imdev`), [`Boot::device_sessions`], [`Boot::resumption_records`], [`Boot::subscriptions`],
//!   [`Boot::fabric_identities`], [`Boot::device_sc_opcodes_since`] (wire tap: e.g. did the device
//!   answer Sigma2_Resume?). Controllers may outlive a device incarnation.
//!
//! * **Removal inside a handshake** (C07 follow-up): [`Boot::case_spawn`] / [`Boot::case_finish`]
//!   run a real CASE handshake as a background task; [`Boot::hold_install`] / [`Boot::hold_release`]
//!   hold back its k-th unencrypted secure-channel message (either direction) meanwhile.
//!
//! # Typical use
//!
//! ```ignore
//! vh::sim::reset_universe();
//! let net = Net::new(1 + 3);
//! let gen = mk_crypto(seed ^ 0x5eed);
//! let kit_a = FabricKit::new(&gen, 0xA, false, 0x1000, 3)?;       // existing fabric A
//! let dev_a = kit_a.device_member(&gen, 0x2000)?;
//! let kv = MemKv::from_map(initial_kv(&gen, &[(&kit_a, &dev_a)])?);
//! let ctrls = vec![new_controller(seed, 0), new_controller(seed, 1)];
//! let cfg = BootCfg { seed, net: NetKind::Wifi, resume: true, open_window_secs: Some(600), sched: Sched::Fifo };
//! boot(&cfg, &kv, &net, &ctrls, |b| {
//!     let p = b.plant_pase(0)?;                                    // or b.pase_handshake(0, 20202021)
//!     let out = b.invoke(0, p.ctrl_sid, &Cmd::ArmFailSafe { secs: 60, breadcrumb: 1 });
//!     assert!(out.accepted());
//!     let s0 = b.snapshot();
//!     ...
//! })?;
//! // restart:
//! boot(&BootCfg { resume: true, ..cfg }, &kv, &net, &new_ctrls, |b| { ... })?;
//! ```

use core::num::NonZeroU8;
use std::cell::RefCell;
use std::collections::BTreeMap;
use std::future::Future;
use std::pin::pin;
use std::rc::Rc;
use std::task::{Context, Poll, Waker};

use serde::{Deserialize, Serialize};

use rs_matter::crypto::{CanonAeadKeyRef, Crypto, WeakTestOnlyRand};
use rs_matter::dm::clusters::net_comm::{NetworkType, Networks, NetworksAccess};
use rs_matter::dm::endpoints::{self, ROOT_ENDPOINT_ID};
use rs_matter::dm::networks::eth::EthNetwork;
use rs_matter::dm::networks::wireless::{NoopWirelessNetCtl, WifiNetworks};
use rs_matter::dm::clusters::desc::{self, ClusterHandler as _};
use rs_matter::dm::clusters::groups::{self, ClusterHandler as _};
use rs_matter::dm::clusters::identify::{self, IdentifyHandler};
use rs_matter::dm::devices::DEV_TYPE_ON_OFF_LIGHT;
use rs_matter::dm::{Async, DataModel, Dataver, Endpoint, EpClMatcher, Node};
use rs_matter::{clusters, devices};
use rs_matter::error::{Error, ErrorCode};
use rs_matter::fabric::Fabric;
use rs_matter::im::client::ImClient;
use rs_matter::im::{CmdDataTag, CmdResp, InteractionModel, InteractionModelState};
use rs_matter::respond::Responder;
use rs_matter::sc::case::CaseInitiator;
use rs_matter::sc::pase::PaseInitiator;
use rs_matter::tlv::{TLVElement, TLVTag, TLVWrite, ToTLV};
use rs_matter::transport::exchange::{Exchange, MatterBuffers};
use rs_matter::transport::network::NoNetwork;
use rs_matter::transport::session::{NocCatIds, ReservedSession, SessionMode};
use rs_matter::utils::storage::WriteBuf;
use rs_matter::{root_endpoint, Matter};

use super::fabric::{install, new_member, Ca, Member};
use super::kv::MemKv;
use super::net::{node_addr, Net};
use super::node::{mk_crypto, new_matter, sessions};
use super::{clock, Exec, Sched, Stop, SEC};

// ------------------------------------------------------------------------------------------
// cluster / command ids (Matter Core spec; same values as the IDL under rs-matter-codegen)
// ------------------------------------------------------------------------------------------

pub const CL_IDENTIFY: u32 = 0x0003;
pub const CL_GROUPS: u32 = 0x0004;
pub const CL_ACL: u32 = 0x001F;
pub const CL_BASIC_INFO: u32 = 0x0028;
pub const CL_GEN_COMM: u32 = 0x0030;
pub const CL_NET_COMM: u32 = 0x0031;
pub const CL_ADM_COMM: u32 = 0x003C;
pub const CL_OP_CREDS: u32 = 0x003E;
pub const CL_GRP_KEY: u32 = 0x003F;

/// Persistent-store keys of interest (mirror `rs_matter::persist`).
pub const KEY_NETWORKS: u16 = rs_matter::persist::NETWORKS_KEY;
pub const KEY_FABRICS_END: u16 = 256;

/// The default test passcode of `TEST_DEV_COMM`.
pub const PASSCODE: u32 = 20202021;

// ------------------------------------------------------------------------------------------
// request encoding
// ------------------------------------------------------------------------------------------

/// One TLV field of a request body (context tag, value).
#[derive(Debug, Clone, PartialEq, Eq, Serialize, Deserialize)]
pub enum Field {
    U8(u8, u8),
    U16(u8, u16),
    U32(u8, u32),
    U64(u8, u64),
    Bool(u8, bool),
    Bytes(u8, Vec<u8>),
    Str(u8, String),
    Null(u8),
    Struct(u8, Vec<Field>),
    /// array of anonymous structs
    ArrayOfStructs(u8, Vec<Vec<Field>>),
    /// array of anonymous u64
    ArrayU64(u8, Vec<u64>),
}

fn write_field<W: TLVWrite>(w: &mut W, f: &Field) -> Result<(), Error> {
    match f {
        Field::U8(t, v) => w.u8(&TLVTag::Context(*t), *v),
        Field::U16(t, v) => w.u16(&TLVTag::Context(*t), *v),
        Field::U32(t, v) => w.u32(&TLVTag::Context(*t), *v),
        Field::U64(t, v) => w.u64(&TLVTag::Context(*t), *v),
        Field::Bool(t, v) => w.bool(&TLVTag::Context(*t), *v),
        Field::Bytes(t, v) => w.str(&TLVTag::Context(*t), v),
        Field::Str(t, v) => w.utf8(&TLVTag::Context(*t), v),
        Field::Null(t) => w.null(&TLVTag::Context(*t)),
        Field::Struct(t, fs) => {
            w.start_struct(&TLVTag::Context(*t))?;
            for f in fs {
                write_field(w, f)?;
            }
            w.end_container()
        }
        Field::ArrayOfStructs(t, items) => {
            w.start_array(&TLVTag::Context(*t))?;
            for fs in items {
                w.start_struct(&TLVTag::Anonymous)?;
                for f in fs {
                    write_field(w, f)?;
                }
                w.end_container()?;
            }
            w.end_container()
        }
        Field::ArrayU64(t, items) => {
            w.start_array(&TLVTag::Context(*t))?;
            for v in items {
                w.u64(&TLVTag::Anonymous, *v)?;
            }
            w.end_container()
        }
    }
}

/// One access-control entry for [`Cmd::WriteAcl`] (targets are always null = whole node).
#[derive(Debug, Clone, PartialEq, Eq, Serialize, Deserialize)]
pub struct AclSpec {
    /// 1 View, 3 Operate, 4 Manage, 5 Administer
    pub privilege: u8,
    /// 2 CASE, 3 Group
    pub auth_mode: u8,
    pub subjects: Vec<u64>,
}

/// One target of an access-control entry (`None` = null).
#[derive(Debug, Clone, PartialEq, Eq, Serialize, Deserialize)]
pub struct AclTargetSpec {
    pub cluster: Option<u32>,
    pub endpoint: Option<u16>,
    pub device_type: Option<u32>,
}

/// One access-control entry with targets for [`Cmd::WriteAclFull`] (empty lists are sent as null).
#[derive(Debug, Clone, PartialEq, Eq, Serialize, Deserialize)]
pub struct AclSpecFull {
    pub privilege: u8,
    pub auth_mode: u8,
    pub subjects: Vec<u64>,
    pub targets: Vec<AclTargetSpec>,
}

/// One administrative operation sent by a controller.
#[derive(Debug, Clone, PartialEq, Eq, Serialize, Deserialize)]
pub enum Cmd {
    ArmFailSafe { secs: u16, breadcrumb: u64 },
    SetRegulatoryConfig { config: u8, country: String, breadcrumb: u64 },
    CommissioningComplete,
    CsrRequest { nonce: Vec<u8>, for_update: Option<bool> },
    AddTrustedRoot { rcac: Vec<u8> },
    AddNoc { noc: Vec<u8>, icac: Option<Vec<u8>>, ipk: Vec<u8>, admin_subject: u64, vendor_id: u16 },
    UpdateNoc { noc: Vec<u8>, icac: Option<Vec<u8>> },
    UpdateFabricLabel { label: String },
    /// `vvsc` is left out (the device keeps whatever it has)
    SetVidStatement { vendor_id: Option<u16>, statement: Option<Vec<u8>> },
    RemoveFabric { idx: u8 },
    KeySetWrite { id: u16, epoch_key0: Vec<u8>, start0: u64 },
    KeySetRemove { id: u16 },
    AddWifi { ssid: Vec<u8>, pass: Vec<u8>, breadcrumb: Option<u64> },
    RemoveNetwork { id: Vec<u8>, breadcrumb: Option<u64> },
    /// timed invoke
    OpenBasicWindow { timeout: u16 },
    /// timed invoke
    RevokeCommissioning,
    /// attribute write: replace the whole ACL list of the accessing fabric
    WriteAcl { entries: Vec<AclSpec> },
    /// attribute write: GeneralCommissioning::Breadcrumb
    WriteBreadcrumb { value: u64 },
    /// attribute write: BasicInformation::NodeLabel
    WriteNodeLabel { label: String },
    /// attribute write: BasicInformation::Location
    WriteLocation { country: String },
    /// attribute write: BasicInformation::LocalConfigDisabled
    WriteLocalConfigDisabled { value: bool },
    /// attribute write: replace the whole ACL list of the accessing fabric, entries with targets
    WriteAclFull { entries: Vec<AclSpecFull> },
    /// attribute write: replace the GroupKeyMap list of the accessing fabric: (group id, key set id)
    WriteGroupKeyMap { entries: Vec<(u16, u16)> },
    // ---- application endpoints (only with [`boot_app`]): Groups and Identify clusters
    /// Groups::AddGroup on endpoint `ep`
    AddGroup { ep: u16, group: u16, name: String },
    /// Groups::ViewGroup (the response struct is in `Outcome::Response::raw`: 0 status, 1 group id, 2 name)
    ViewGroup { ep: u16, group: u16 },
    /// Groups::GetGroupMembership with an empty filter (raw: 0 capacity, 1 group list)
    GetGroupMembership { ep: u16 },
    /// Groups::RemoveGroup
    RemoveGroup { ep: u16, group: u16 },
    /// Groups::RemoveAllGroups
    RemoveAllGroups { ep: u16 },
    /// Groups::AddGroupIfIdentifying
    AddGroupIfIdentifying { ep: u16, group: u16, name: String },
    /// Identify::Identify
    Identify { ep: u16, secs: u16 },
}

/// How a [`Cmd`] goes on the wire.
pub enum Wire {
    Invoke { cluster: u32, cmd: u32, timed: bool, fields: Vec<Field> },
    Write { cluster: u32, attr: u32, value: Field },
}

impl Cmd {
    pub fn name(&self) -> &'static str {
        match self {
            Cmd::ArmFailSafe { .. } => "ArmFailSafe",
            Cmd::SetRegulatoryConfig { .. } => "SetRegulatoryConfig",
            Cmd::CommissioningComplete => "CommissioningComplete",
            Cmd::CsrRequest { .. } => "CSRRequest",
            Cmd::AddTrustedRoot { .. } => "AddTrustedRootCertificate",
            Cmd::AddNoc { .. } => "AddNOC",
            Cmd::UpdateNoc { .. } => "UpdateNOC",
            Cmd::UpdateFabricLabel { .. } => "UpdateFabricLabel",
            Cmd::SetVidStatement { .. } => "SetVIDVerificationStatement",
            Cmd::RemoveFabric { .. } => "RemoveFabric",
            Cmd::KeySetWrite { .. } => "KeySetWrite",
            Cmd::KeySetRemove { .. } => "KeySetRemove",
            Cmd::AddWifi { .. } => "AddOrUpdateWiFiNetwork",
            Cmd::RemoveNetwork { .. } => "RemoveNetwork",
            Cmd::OpenBasicWindow { .. } => "OpenBasicCommissioningWindow",
            Cmd::RevokeCommissioning => "RevokeCommissioning",
            Cmd::WriteAcl { .. } => "WriteACL",
            Cmd::WriteBreadcrumb { .. } => "WriteBreadcrumb",
            Cmd::WriteNodeLabel { .. } => "WriteNodeLabel",
            Cmd::WriteLocation { .. } => "WriteLocation",
            Cmd::WriteLocalConfigDisabled { .. } => "WriteLocalConfigDisabled",
            Cmd::WriteAclFull { .. } => "WriteACL",
            Cmd::WriteGroupKeyMap { .. } => "WriteGroupKeyMap",
            Cmd::AddGroup { .. } => "AddGroup",
            Cmd::ViewGroup { .. } => "ViewGroup",
            Cmd::GetGroupMembership { .. } => "GetGroupMembership",
            Cmd::RemoveGroup { .. } => "RemoveGroup",
            Cmd::RemoveAllGroups { .. } => "RemoveAllGroups",
            Cmd::AddGroupIfIdentifying { .. } => "AddGroupIfIdentifying",
            Cmd::Identify { .. } => "Identify",
        }
    }

    /// The endpoint the operation is addressed to (0 = root endpoint).
    pub fn endpoint(&self) -> u16 {
        match self {
            Cmd::AddGroup { ep, .. }
            | Cmd::ViewGroup { ep, .. }
            | Cmd::GetGroupMembership { ep }
            | Cmd::RemoveGroup { ep, .. }
            | Cmd::RemoveAllGroups { ep }
            | Cmd::AddGroupIfIdentifying { ep, .. }
            | Cmd::Identify { ep, .. } => *ep,
            _ => ROOT_ENDPOINT_ID,
        }
    }

    /// Cluster / command ids and request fields (tags from the cluster IDL).
    pub fn wire(&self) -> Wire {
        let inv = |cluster, cmd, fields| Wire::Invoke { cluster, cmd, timed: false, fields };
        match self {
            Cmd::ArmFailSafe { secs, breadcrumb } => {
                inv(CL_GEN_COMM, 0x00, vec![Field::U16(0, *secs), Field::U64(1, *breadcrumb)])
            }
            Cmd::SetRegulatoryConfig { config, country, breadcrumb } => inv(
                CL_GEN_COMM,
                0x02,
                vec![Field::U8(0, *config), Field::Str(1, country.clone()), Field::U64(2, *breadcrumb)],
            ),
            Cmd::CommissioningComplete => inv(CL_GEN_COMM, 0x04, vec![]),
            Cmd::CsrRequest { nonce, for_update } => {
                let mut f = vec![Field::Bytes(0, nonce.clone())];
                if let Some(u) = for_update {
                    f.push(Field::Bool(1, *u));
                }
                inv(CL_OP_CREDS, 0x04, f)
            }
            Cmd::AddTrustedRoot { rcac } => inv(CL_OP_CREDS, 0x0B, vec![Field::Bytes(0, rcac.clone())]),
            Cmd::AddNoc { noc, icac, ipk, admin_subject, vendor_id } => {
                let mut f = vec![Field::Bytes(0, noc.clone())];
                if let Some(i) = icac {
                    f.push(Field::Bytes(1, i.clone()));
                }
                f.push(Field::Bytes(2, ipk.clone()));
                f.push(Field::U64(3, *admin_subject));
                f.push(Field::U16(4, *vendor_id));
                inv(CL_OP_CREDS, 0x06, f)
            }
            Cmd::UpdateNoc { noc, icac } => {
                let mut f = vec![Field::Bytes(0, noc.clone())];
                if let Some(i) = icac {
                    f.push(Field::Bytes(1, i.clone()));
                }
                inv(CL_OP_CREDS, 0x07, f)
            }
            Cmd::UpdateFabricLabel { label } => inv(CL_OP_CREDS, 0x09, vec![Field::Str(0, label.clone())]),
            Cmd::RemoveFabric { idx } => inv(CL_OP_CREDS, 0x0A, vec![Field::U8(0, *idx)]),
            Cmd::SetVidStatement { vendor_id, statement } => {
                let mut f = Vec::new();
                if let Some(v) = vendor_id {
                    f.push(Field::U16(0, *v));
                }
                if let Some(st) = statement {
                    f.push(Field::Bytes(1, st.clone()));
                }
                inv(CL_OP_CREDS, 0x0C, f)
            }
            Cmd::KeySetWrite { id, epoch_key0, start0 } => inv(
                CL_GRP_KEY,
                0x00,
                vec![Field::Struct(
                    0,
                    vec![
                        Field::U16(0, *id),
                        Field::U8(1, 0), // TrustFirst
                        Field::Bytes(2, epoch_key0.clone()),
                        Field::U64(3, *start0),
                        Field::Null(4),
                        Field::Null(5),
                        Field::Null(6),
                        Field::Null(7),
                    ],
                )],
            ),
            Cmd::KeySetRemove { id } => inv(CL_GRP_KEY, 0x03, vec![Field::U16(0, *id)]),
            Cmd::AddWifi { ssid, pass, breadcrumb } => {
                let mut f = vec![Field::Bytes(0, ssid.clone()), Field::Bytes(1, pass.clone())];
                if let Some(b) = breadcrumb {
                    f.push(Field::U64(2, *b));
                }
                inv(CL_NET_COMM, 0x02, f)
            }
            Cmd::RemoveNetwork { id, breadcrumb } => {
                let mut f = vec![Field::Bytes(0, id.clone())];
                if let Some(b) = breadcrumb {
                    f.push(Field::U64(1, *b));
                }
                inv(CL_NET_COMM, 0x04, f)
            }
            Cmd::OpenBasicWindow { timeout } => {
                Wire::Invoke { cluster: CL_ADM_COMM, cmd: 0x01, timed: true, fields: vec![Field::U16(0, *timeout)] }
            }
            Cmd::RevokeCommissioning => Wire::Invoke { cluster: CL_ADM_COMM, cmd: 0x02, timed: true, fields: vec![] },
            Cmd::WriteAcl { entries } => Wire::Write {
                cluster: CL_ACL,
                attr: 0,
                value: Field::ArrayOfStructs(
                    2, // AttrDataTag::Data
                    entries
                        .iter()
                        .map(|e| {
                            vec![
                                Field::U8(1, e.privilege),
                                Field::U8(2, e.auth_mode),
                                if e.subjects.is_empty() { Field::Null(3) } else { Field::ArrayU64(3, e.subjects.clone()) },
                                Field::Null(4),
                            ]
                        })
                        .collect(),
                ),
            },
            Cmd::WriteBreadcrumb { value } => Wire::Write { cluster: CL_GEN_COMM, attr: 0, value: Field::U64(2, *value) },
            Cmd::WriteNodeLabel { label } => Wire::Write { cluster: CL_BASIC_INFO, attr: 0x05, value: Field::Str(2, label.clone()) },
            Cmd::WriteLocation { country } => Wire::Write { cluster: CL_BASIC_INFO, attr: 0x06, value: Field::Str(2, country.clone()) },
            Cmd::WriteLocalConfigDisabled { value } => Wire::Write { cluster: CL_BASIC_INFO, attr: 0x10, value: Field::Bool(2, *value) },
            Cmd::WriteAclFull { entries } => Wire::Write {
                cluster: CL_ACL,
                attr: 0,
                value: Field::ArrayOfStructs(
                    2,
                    entries
                        .iter()
                        .map(|e| {
                            vec![
                                Field::U8(1, e.privilege),
                                Field::U8(2, e.auth_mode),
                                if e.subjects.is_empty() { Field::Null(3) } else { Field::ArrayU64(3, e.subjects.clone()) },
                                if e.targets.is_empty() {
                                    Field::Null(4)
                                } else {
                                    Field::ArrayOfStructs(
                                        4,
                                        e.targets
                                            .iter()
                                            .map(|t| {
                                                vec![
                                                    t.cluster.map(|c| Field::U32(0, c)).unwrap_or(Field::Null(0)),
                                                    t.endpoint.map(|c| Field::U16(1, c)).unwrap_or(Field::Null(1)),
                                                    t.device_type.map(|c| Field::U32(2, c)).unwrap_or(Field::Null(2)),
                                                ]
                                            })
                                            .collect(),
                                    )
                                },
                            ]
                        })
                        .collect(),
                ),
            },
            Cmd::AddGroup { group, name, .. } => inv(CL_GROUPS, 0x00, vec![Field::U16(0, *group), Field::Str(1, name.clone())]),
            Cmd::ViewGroup { group, .. } => inv(CL_GROUPS, 0x01, vec![Field::U16(0, *group)]),
            Cmd::GetGroupMembership { .. } => inv(CL_GROUPS, 0x02, vec![Field::ArrayU64(0, vec![])]),
            Cmd::RemoveGroup { group, .. } => inv(CL_GROUPS, 0x03, vec![Field::U16(0, *group)]),
            Cmd::RemoveAllGroups { .. } => inv(CL_GROUPS, 0x04, vec![]),
            Cmd::AddGroupIfIdentifying { group, name, .. } => inv(CL_GROUPS, 0x05, vec![Field::U16(0, *group), Field::Str(1, name.clone())]),
            Cmd::Identify { secs, .. } => inv(CL_IDENTIFY, 0x00, vec![Field::U16(0, *secs)]),
            Cmd::WriteGroupKeyMap { entries } => Wire::Write {
                cluster: CL_GRP_KEY,
                attr: 0,
                value: Field::ArrayOfStructs(2, entries.iter().map(|(g, k)| vec![Field::U16(1, *g), Field::U16(2, *k)]).collect()),
            },
        }
    }
}

/// What came back for one [`Cmd`].
#[derive(Debug, Clone, PartialEq, Eq)]
pub enum Outcome {
    /// A command response struct (or a plain success status). `code` is the response's own
    /// status field (ArmFailSafeResponse/CommissioningCompleteResponse `errorCode`, NOCResponse
    /// `statusCode`, NetworkConfigResponse `networkingStatus`; 0 = OK; 0 for status-only
    /// success); `fabric_index` from NOCResponse; `csr` = the PKCS#10 request out of
    /// NOCSRElements; `raw` = the response struct TLV.
    Response { code: u8, fabric_index: Option<u8>, csr: Option<Vec<u8>>, raw: Vec<u8> },
    /// An Interaction Model error status (with optional cluster status).
    ImStatus { status: u16, cluster_status: Option<u16> },
    /// No answer on the IM level (exchange/transport error, timeout).
    Transport(String),
}

impl Outcome {
    /// The command was carried out: a response with status OK.
    pub fn accepted(&self) -> bool {
        matches!(self, Outcome::Response { code: 0, .. })
    }

    /// The device answered (whatever it said).
    pub fn answered(&self) -> bool {
        !matches!(self, Outcome::Transport(_))
    }

    pub fn brief(&self) -> String {
        match self {
            Outcome::Response { code, fabric_index, .. } => match fabric_index {
                Some(f) => format!("response(code={code},fabric={f})"),
                None => format!("response(code={code})"),
            },
            Outcome::ImStatus { status, cluster_status } => format!("im-status({status:#x},{cluster_status:?})"),
            Outcome::Transport(e) => format!("transport({e})"),
        }
    }
}

fn err_text(e: &Error) -> String {
    format!("{:?}", e.code())
}

/// Run one command on a fresh exchange of session `sess` (controller-side internal id).
pub async fn perform<C: Crypto>(matter: &Matter<'_>, crypto: &C, sess: u32, cmd: &Cmd) -> Outcome {
    let exchange = match Exchange::initiate_for_session(matter, crypto, sess) {
        Ok(e) => e,
        Err(e) => return Outcome::Transport(format!("initiate:{}", err_text(&e))),
    };
    let endpoint = cmd.endpoint();
    match cmd.wire() {
        Wire::Invoke { cluster, cmd: cmd_id, timed, fields } => {
            let chunk = exchange
                .invoke_with(if timed { Some(5000) } else { None }, |msg| {
                    msg.timed_request(timed)?
                        .invoke_requests()?
                        .push()?
                        .path(endpoint, cluster, cmd_id)?
                        .data(|w| {
                            w.start_struct(&TLVTag::Context(CmdDataTag::Data as u8))?;
                            for f in &fields {
                                write_field(w, f)?;
                            }
                            w.end_container()
                        })?
                        .end()?
                        .end()?
                        .end()
                })
                .await;
            let chunk = match chunk {
                Ok(c) => c,
                Err(e) => {
                    // A top-level StatusResponse(non-success) is mapped to an error code by the
                    // client; anything else is a transport failure. Keep them apart by code.
                    return match e.code() {
                        ErrorCode::NoSession
                        | ErrorCode::NoExchange
                        | ErrorCode::TxTimeout
                        | ErrorCode::RxTimeout
                        | ErrorCode::NoSpaceExchanges
                        | ErrorCode::NoSpaceSessions => Outcome::Transport(err_text(&e)),
                        _ => Outcome::ImStatus { status: 0xFFFF, cluster_status: None }.with_note(&e),
                    };
                }
            };
            let out = (|| -> Result<Outcome, Error> {
                let Some(resp) = chunk.response()? else {
                    return Ok(Outcome::Response { code: 0, fabric_index: None, csr: None, raw: vec![] });
                };
                let Some(list) = resp.invoke_responses.as_ref() else {
                    return Ok(Outcome::Response { code: 0, fabric_index: None, csr: None, raw: vec![] });
                };
                let Some(first) = list.iter().next() else {
                    return Ok(Outcome::Response { code: 0, fabric_index: None, csr: None, raw: vec![] });
                };
                match first? {
                    CmdResp::Status(s) => {
                        let st = s.status.status as u16;
                        if st == 0 {
                            Ok(Outcome::Response { code: 0, fabric_index: None, csr: None, raw: vec![] })
                        } else {
                            Ok(Outcome::ImStatus { status: st, cluster_status: s.status.cluster_status })
                        }
                    }
                    CmdResp::Cmd(data) => {
                        let raw = data.data.raw_value().map(|r| r.to_vec()).unwrap_or_default();
                        let st = data.data.structure()?;
                        let mut code = 0u8;
                        let mut fabric_index = None;
                        let mut csr = None;
                        if cluster == CL_OP_CREDS && data.path.cmd == Some(0x05) {
                            // CSRResponse: NOCSRElements(0) = TLV struct { csr(1), nonce(2) }
                            let elems = st.ctx(0)?.str()?;
                            let inner = TLVElement::new(elems).structure()?;
                            csr = Some(inner.ctx(1)?.str()?.to_vec());
                        } else {
                            if let Ok(c) = st.ctx(0) {
                                code = c.u8().unwrap_or(0xFF);
                            }
                            if cluster == CL_OP_CREDS {
                                if let Ok(f) = st.ctx(1) {
                                    fabric_index = f.u8().ok();
                                }
                            }
                        }
                        Ok(Outcome::Response { code, fabric_index, csr, raw })
                    }
                }
            })();
            let out = match out {
                Ok(o) => o,
                Err(e) => Outcome::Transport(format!("decode:{}", err_text(&e))),
            };
            // send the trailing ack
            let mut next = chunk.complete().await;
            while let Ok(Some(c)) = next {
                next = c.complete().await;
            }
            out
        }
        Wire::Write { cluster, attr, value } => {
            let handle = exchange
                .write_with(None, |b| {
                    b.write_requests()?
                        .push()?
                        .path(endpoint, cluster, attr)?
                        .data(|w| write_field(w, &value))?
                        .end()?
                        .end()?
                        .end()
                })
                .await;
            let handle = match handle {
                Ok(h) => h,
                Err(e) => {
                    return match e.code() {
                        ErrorCode::NoSession
                        | ErrorCode::NoExchange
                        | ErrorCode::TxTimeout
                        | ErrorCode::RxTimeout
                        | ErrorCode::NoSpaceExchanges
                        | ErrorCode::NoSpaceSessions => Outcome::Transport(err_text(&e)),
                        _ => Outcome::ImStatus { status: 0xFFFF, cluster_status: None }.with_note(&e),
                    };
                }
            };
            let r = (|| -> Result<Outcome, Error> {
                let resp = handle.response()?;
                for st in resp.write_responses.iter() {
                    let st = st?;
                    let code = st.status.status as u16;
                    if code != 0 {
                        return Ok(Outcome::ImStatus { status: code, cluster_status: st.status.cluster_status });
                    }
                }
                Ok(Outcome::Response { code: 0, fabric_index: None, csr: None, raw: vec![] })
            })();
            match r {
                Ok(o) => o,
                Err(e) => Outcome::Transport(format!("decode:{}", err_text(&e))),
            }
        }
    }
}

impl Outcome {
    fn with_note(self, _e: &Error) -> Self {
        self
    }
}

// ------------------------------------------------------------------------------------------
// fabric material
// ------------------------------------------------------------------------------------------

/// A fabric as seen by its administrator: CA + the administrator's own identity.
pub struct FabricKit {
    pub ca: Ca,
    pub fabric_id: u64,
    pub admin_node: u64,
    pub admin: Member,
}

impl FabricKit {
    pub fn new<C: Crypto>(crypto: &C, fabric_id: u64, with_icac: bool, admin_node: u64, ipk_seed: u8) -> Result<Self, Error> {
        let ca = Ca::new(crypto, fabric_id, with_icac, ipk_seed)?;
        let admin = new_member(crypto, &ca, admin_node, &[])?;
        Ok(Self { ca, fabric_id, admin_node, admin })
    }

    /// A device identity (own key) in this fabric, for fabrics that pre-exist on the device.
    pub fn device_member<C: Crypto>(&self, crypto: &C, dev_node: u64) -> Result<Member, Error> {
        new_member(crypto, &self.ca, dev_node, &[])
    }

    pub fn icac(&self) -> Option<Vec<u8>> {
        self.ca.icac.as_ref().map(|(c, _)| c.clone())
    }
}

/// KV image of a device on which the given fabrics were commissioned earlier (fabric indices
/// 1, 2, .. in order; ACL = one Administer/CASE entry for the kit's admin node).
pub fn initial_kv<C: Crypto>(crypto: &C, fabrics: &[(&FabricKit, &Member)]) -> Result<BTreeMap<u16, Vec<u8>>, Error> {
    let scratch = Box::new(new_matter(5540));
    for (kit, dev) in fabrics {
        install(&scratch, crypto, &kit.ca, dev, kit.admin_node)?;
    }
    let mut map = BTreeMap::new();
    for (idx, tlv) in fabric_tlvs(&scratch) {
        map.insert(idx as u16, tlv);
    }
    Ok(map)
}

fn fabric_tlv(f: &Fabric) -> Vec<u8> {
    let mut buf = vec![0u8; 8192];
    let mut wb = WriteBuf::new(&mut buf);
    let len = match f.to_tlv(&TLVTag::Anonymous, &mut wb) {
        Ok(()) => wb.get_tail(),
        Err(_) => 0,
    };
    buf.truncate(len);
    buf
}

/// TLV bytes (the persisted form) of every fabric in memory, by fabric index.
pub fn fabric_tlvs(matter: &Matter<'_>) -> BTreeMap<u8, Vec<u8>> {
    matter.with_state(|st| st.fabrics.iter().map(|f| (f.fab_idx().get(), fabric_tlv(f))).collect())
}

fn fnv(b: &[u8]) -> u32 {
    let mut h = 0x811c9dc5u32;
    for x in b {
        h ^= *x as u32;
        h = h.wrapping_mul(0x01000193);
    }
    h
}

/// A readable one-line summary per fabric (for failure messages).
pub fn fabric_summaries(matter: &Matter<'_>) -> BTreeMap<u8, String> {
    matter.with_state(|st| {
        st.fabrics
            .iter()
            .map(|f| {
                let acl: Vec<String> = f
                    .acl_iter()
                    .map(|e| {
                        let mut buf = [0u8; 256];
                        let mut wb = WriteBuf::new(&mut buf);
                        let len = match e.to_tlv(&TLVTag::Anonymous, &mut wb) {
                            Ok(()) => wb.get_tail(),
                            Err(_) => 0,
                        };
                        crate::util::hex(&buf[..len])
                    })
                    .collect();
                let groups = format!("{:?}", f.groups());
                (
                    f.fab_idx().get(),
                    format!(
                        "fabric#{} node={:#x} fabric_id={:#x} label={:?} noc#{:08x} icac#{:08x} root#{:08x} key#{:08x} acl={:?} groups#{:08x}",
                        f.fab_idx().get(),
                        f.node_id(),
                        f.fabric_id(),
                        f.label(),
                        fnv(f.noc()),
                        fnv(f.icac()),
                        fnv(f.root_ca()),
                        fnv(f.secret_key().access()),
                        acl,
                        fnv(groups.as_bytes()),
                    ),
                )
            })
            .collect()
    })
}

/// One row of a fabric's group table (Groups cluster): group id, name, member endpoints.
#[derive(Debug, Clone, PartialEq, Eq, PartialOrd, Ord)]
pub struct GroupRow {
    pub group_id: u16,
    pub name: String,
    pub endpoints: Vec<u16>,
}

/// The group table of every fabric in memory, by fabric index (rows in table order).
pub fn group_tables(matter: &Matter<'_>) -> BTreeMap<u8, Vec<GroupRow>> {
    matter.with_state(|st| {
        st.fabrics
            .iter()
            .map(|f| {
                let rows = f
                    .groups()
                    .iter()
                    .map(|g| GroupRow { group_id: g.group_id, name: g.group_name.to_string(), endpoints: g.endpoints.iter().copied().collect() })
                    .collect();
                (f.fab_idx().get(), rows)
            })
            .collect()
    })
}

/// Boot a scratch `Matter` from a KV image (`Matter::startup`) and return its fabric table
/// (TLV by index, summaries by index).
pub fn fabrics_from_kv(map: &BTreeMap<u16, Vec<u8>>) -> Result<(BTreeMap<u8, Vec<u8>>, BTreeMap<u8, String>), String> {
    let scratch = Box::new(new_matter(5540));
    let kv = MemKv::from_map(map.clone());
    {
        let access = scratch.kv(kv);
        scratch.startup(&access).map_err(|e| format!("Matter::startup on the KV image failed: {:?}", e.code()))?;
    }
    Ok((fabric_tlvs(&scratch), fabric_summaries(&scratch)))
}

/// Canonical snapshot of the administrative state of a running device.
#[derive(Debug, Clone, PartialEq, Eq)]
pub struct AdminSnapshot {
    /// fabric index -> TLV (identity, keys, ACL, groups, label; the persisted form)
    pub fabrics: BTreeMap<u8, Vec<u8>>,
    pub fabric_text: BTreeMap<u8, String>,
    /// `Networks::save` output of the network store (`None` = store needs no persistence)
    pub networks: Option<Vec<u8>>,
    /// network ids in the store
    pub network_ids: Vec<Vec<u8>>,
    pub armed: bool,
    pub breadcrumb: u64,
    pub kv: BTreeMap<u16, Vec<u8>>,
    /// fabric index -> group table (also part of `fabrics` / hashed in `fabric_text`)
    pub groups: BTreeMap<u8, Vec<GroupRow>>,
}

impl AdminSnapshot {
    /// KV entries the property talks about: fabric blobs and the network blob.
    pub fn kv_admin(&self) -> BTreeMap<u16, Vec<u8>> {
        self.kv.iter().filter(|(k, _)| **k < KEY_FABRICS_END || **k == KEY_NETWORKS).map(|(k, v)| (*k, v.clone())).collect()
    }
}

/// Human-readable difference of two fabric maps.
pub fn diff_fabrics(
    a_name: &str,
    a: &BTreeMap<u8, Vec<u8>>,
    a_text: &BTreeMap<u8, String>,
    b_name: &str,
    b: &BTreeMap<u8, Vec<u8>>,
    b_text: &BTreeMap<u8, String>,
) -> Option<String> {
    if a == b {
        return None;
    }
    let mut out = Vec::new();
    let keys: std::collections::BTreeSet<u8> = a.keys().chain(b.keys()).copied().collect();
    for k in keys {
        match (a.get(&k), b.get(&k)) {
            (Some(x), Some(y)) if x == y => {}
            (Some(_), Some(_)) => out.push(format!(
                "fabric {k} differs: {a_name}: [{}] vs {b_name}: [{}]",
                a_text.get(&k).cloned().unwrap_or_default(),
                b_text.get(&k).cloned().unwrap_or_default()
            )),
            (Some(_), None) => out.push(format!("fabric {k} only in {a_name}: [{}]", a_text.get(&k).cloned().unwrap_or_default())),
            (None, Some(_)) => out.push(format!("fabric {k} only in {b_name}: [{}]", b_text.get(&k).cloned().unwrap_or_default())),
            (None, None) => {}
        }
    }
    Some(out.join("; "))
}

// ------------------------------------------------------------------------------------------
// controllers and sessions
// ------------------------------------------------------------------------------------------

/// A commissioner/administrator stack living on net node `1 + idx`.
pub struct Controller<C> {
    pub matter: Box<Matter<'static>>,
    pub crypto: C,
    pub idx: usize,
    /// `ReportData` messages received from the device (filled when the report sink runs)
    pub reports: RefCell<Vec<ReportSeen>>,
}

pub fn new_controller(seed: u32, idx: usize) -> Controller<impl Crypto> {
    Controller {
        matter: Box::new(new_matter(5541 + idx as u16)),
        crypto: mk_crypto(seed.wrapping_mul(31).wrapping_add(0x100 + idx as u32 * 7)),
        idx,
        reports: RefCell::new(Vec::new()),
    }
}

impl<C: Crypto> Controller<C> {
    /// Install the administrator identity of `kit` (returns the controller-local fabric index).
    pub fn install(&self, kit: &FabricKit) -> Result<NonZeroU8, Error> {
        install(&self.matter, &self.crypto, &kit.ca, &kit.admin, kit.admin_node)
    }

    pub fn net_node(&self) -> usize {
        1 + self.idx
    }
}

/// A subscribe running in the background ([`Boot::subscribe_spawn`]).
pub struct SubTask {
    slot: Rc<RefCell<Option<super::imdev::ReadOutcome>>>,
    task: usize,
}

/// A CASE handshake running in the background ([`Boot::case_spawn`]).
pub struct CaseTask {
    pub ctrl: usize,
    before: Vec<u32>,
    slot: Rc<RefCell<Option<Result<(), Error>>>>,
    task: usize,
}

/// How a background CASE handshake ended ([`Boot::case_finish`]).
#[derive(Debug, Clone)]
pub struct CaseEnd {
    /// the initiator's verdict
    pub result: Result<(), String>,
    /// the session the controller got out of it (internal id), if any
    pub ctrl_sid: Option<u32>,
    /// the device-side local session id the controller's session talks to
    pub dev_local_sess: Option<u16>,
    /// the matching CASE session on the device (internal id), if the device has one
    pub dev_sid: Option<u32>,
}

/// The message held back by [`Boot::hold_install`].
#[derive(Debug, Clone)]
pub struct HeldMsg {
    pub src: usize,
    pub dst: usize,
    pub ctr: u32,
    /// secure-channel opcode
    pub opcode: u8,
    pub bytes: Vec<u8>,
    pub t_us: u64,
}

struct HoldState {
    node: usize,
    k: usize,
    seen: Vec<(usize, u32)>,
    held: Option<HeldMsg>,
    released: bool,
}

/// Handle on the adversary installed by [`Boot::hold_install`].
pub struct Hold {
    st: Rc<RefCell<HoldState>>,
}

impl Hold {
    /// The message being held back (or that was held back), once the k-th message was seen.
    pub fn held(&self) -> Option<HeldMsg> {
        self.st.borrow().held.clone()
    }

    /// Number of distinct unencrypted secure-channel messages seen so far.
    pub fn seen(&self) -> usize {
        self.st.borrow().seen.len()
    }
}

/// A session pair between a controller and the device.
#[derive(Debug, Clone, Copy, PartialEq, Eq)]
pub struct SessPair {
    /// controller-side internal (unique) session id: pass it to [`Boot::invoke`]
    pub ctrl_sid: u32,
    /// device-side internal session id
    pub dev_sid: u32,
    /// device-side local session id (the id on the wire towards the device)
    pub dev_local_sess: u16,
    pub ctrl: usize,
}

#[allow(clippy::too_many_arguments)]
fn plant_one(
    matter: &Matter<'_>,
    seed: u32,
    mode: SessionMode,
    local_node: u64,
    peer_node: u64,
    local_sess: u16,
    peer_sess: u16,
    peer_addr: rs_matter::transport::network::Address,
    dec: &[u8; 16],
    enc: &[u8; 16],
) -> Result<u32, Error> {
    let crypto = mk_crypto(seed);
    let mut s = ReservedSession::reserve_now(matter, &crypto)?;
    s.update(
        local_node,
        peer_node,
        peer_sess,
        local_sess,
        peer_addr,
        mode,
        Some(CanonAeadKeyRef::new(dec)),
        Some(CanonAeadKeyRef::new(enc)),
        None,
        None,
    )?;
    s.complete();
    drop(s);
    let id = matter.with_state(|st| {
        st.verif_sessions()
            .verif_snapshots()
            .filter(|s| s.local_sess_id == local_sess && s.peer_addr == peer_addr && !s.reserved)
            .map(|s| s.id)
            .last()
    });
    id.ok_or_else(|| ErrorCode::NoSession.into())
}

fn keys_for(n: u16) -> ([u8; 16], [u8; 16]) {
    let mut a = [0u8; 16];
    let mut b = [0u8; 16];
    for i in 0..16 {
        a[i] = (n as u8).wrapping_mul(31).wrapping_add(i as u8 * 7 + 1) ^ (n >> 8) as u8;
        b[i] = (n as u8).wrapping_mul(17).wrapping_add(i as u8 * 13 + 5) ^ (n >> 8) as u8;
    }
    (a, b)
}

// ------------------------------------------------------------------------------------------
// the device incarnation
// ------------------------------------------------------------------------------------------

#[derive(Debug, Clone, Copy, PartialEq, Eq, Serialize, Deserialize)]
pub enum NetKind {
    /// `root_endpoint!(eth)` + `EthSysHandlerBuilder` + `EthNetwork`
    Eth,
    /// `root_endpoint!(wifi)` + `WifiSysHandlerBuilder` + `WifiNetworks<4>` + `NoopWirelessNetCtl`
    Wifi,
}

pub struct BootCfg {
    /// seed of the device's deterministic crypto (vary it per incarnation)
    pub seed: u32,
    pub net: NetKind,
    /// `true`: `Matter::startup(kv)` + `InteractionModel::startup()` before serving
    pub resume: bool,
    /// open the basic commissioning window for that many seconds at boot
    pub open_window_secs: Option<u16>,
    pub sched: Sched,
}

/// Optional extras of an incarnation (see [`boot_with`]); `Default` = what [`boot`] does.
#[derive(Debug, Clone, Default)]
pub struct BootOpts {
    /// Run the debounced CASE resumption-cache writer (`Matter::run_persist_resumption`) as a
    /// device task with that minimum interval (ms), so that the cache reaches the KV store.
    pub persist_resumption_ms: Option<u64>,
    /// Give every controller a responder that accepts the exchanges the device opens towards it
    /// and answers `ReportData` with `StatusResponse(Success)` (what a subscriber does). Without
    /// it a report the device sends stays unanswered and blocks the device's reporter. The
    /// reports are logged in [`Controller::reports`].
    pub ctrl_report_sink: bool,
}

/// One `ReportData` message a controller received on an exchange opened by the device.
#[derive(Debug, Clone, PartialEq, Eq)]
pub struct ReportSeen {
    pub t_us: u64,
    pub subscription_id: Option<u32>,
    /// the message carried attribute or event reports (not just a keep-alive)
    pub has_data: bool,
}

/// The subscriber side of subscription reports (see [`BootOpts::ctrl_report_sink`]).
pub struct ReportSink<'a> {
    log: &'a RefCell<Vec<ReportSeen>>,
}

impl rs_matter::respond::ExchangeHandler for ReportSink<'_> {
    async fn handle(&self, mut exchange: Exchange<'_>) -> Result<(), Error> {
        use super::imdev::tlv::{parse, Val};
        loop {
            exchange.recv_fetch().await?;
            let (is_report, sub_id, has_data, more, suppress) = {
                let rx = exchange.rx()?;
                let meta = rx.meta();
                if meta.proto_id == rs_matter::im::PROTO_ID_INTERACTION_MODEL && meta.proto_opcode == rs_matter::im::OpCode::ReportData as u8 {
                    match parse(rx.payload()) {
                        Some((_, v @ Val::Struct(_))) => (
                            true,
                            v.ctx(0).and_then(|x| x.u()).map(|x| x as u32),
                            v.ctx(1).map(|x| !x.items().is_empty()).unwrap_or(false) || v.ctx(2).map(|x| !x.items().is_empty()).unwrap_or(false),
                            v.ctx(3).and_then(|x| x.b()).unwrap_or(false),
                            v.ctx(4).and_then(|x| x.b()).unwrap_or(false),
                        ),
                        _ => (true, None, false, false, false),
                    }
                } else {
                    (false, None, false, false, false)
                }
            };
            if !is_report {
                exchange.acknowledge().await?;
                return Ok(());
            }
            self.log.borrow_mut().push(ReportSeen { t_us: clock::now(), subscription_id: sub_id, has_data });
            if suppress {
                exchange.acknowledge().await?;
                return Ok(());
            }
            // StatusResponse(Success): { 0: status, 0xFF: interaction model revision }
            let status: [u8; 8] = [0x15, 0x24, 0x00, 0x00, 0x24, 0xFF, 0x0C, 0x18];
            exchange
                .send(
                    rs_matter::transport::exchange::MessageMeta::new(
                        rs_matter::im::PROTO_ID_INTERACTION_MODEL,
                        rs_matter::im::OpCode::StatusResponse as u8,
                        true,
                    ),
                    &status,
                )
                .await?;
            if !more {
                return Ok(());
            }
        }
    }
}

/// One live subscription in the device's table (hook `Subscriptions::verif_for_each_live_sub`:
/// the table plus the one being reported, unless that one is already marked for removal).
#[derive(Debug, Clone, PartialEq, Eq)]
pub struct LiveSub {
    pub id: u32,
    pub fab_idx: u8,
    pub peer_node_id: u64,
}

/// One record of the device's CASE resumption cache (`state.resumption` is public).
#[derive(Debug, Clone, PartialEq, Eq)]
pub struct RecInfo {
    pub fab_idx: u8,
    pub peer_node_id: u64,
    pub resumption_id: Vec<u8>,
    /// FNV hash of the shared secret (constant for the lifetime of a record)
    pub secret_hash: u32,
}

const NODE_ETH: Node<'static> = Node { endpoints: &[root_endpoint!(eth)] };
const NODE_WIFI: Node<'static> = Node { endpoints: &[root_endpoint!(wifi)] };

/// Application endpoints of [`boot_app`]: each carries Descriptor, Identify and Groups.
pub const APP_ENDPOINTS: [u16; 4] = [1, 2, 3, 4];

macro_rules! app_endpoint {
    ($id:expr) => {
        Endpoint::new($id, devices!(DEV_TYPE_ON_OFF_LIGHT), clusters!(desc::DescHandler::CLUSTER, identify::CLUSTER, groups::GroupsHandler::CLUSTER))
    };
}

const NODE_ETH_APP: Node<'static> =
    Node { endpoints: &[root_endpoint!(eth), app_endpoint!(1), app_endpoint!(2), app_endpoint!(3), app_endpoint!(4)] };
const NODE_WIFI_APP: Node<'static> =
    Node { endpoints: &[root_endpoint!(wifi), app_endpoint!(1), app_endpoint!(2), app_endpoint!(3), app_endpoint!(4)] };

static NOOP_WIFI_DIAG: NoopWirelessNetCtl = NoopWirelessNetCtl::new(NetworkType::Wifi);

/// One entry of the device's subscription table (hook `InteractionModel::verif_for_each_subscription`).
#[derive(Debug, Clone, PartialEq, Eq, PartialOrd, Ord)]
pub struct SubInfo {
    pub fab_idx: u8,
    pub peer_node_id: u64,
    pub min_int_secs: u16,
    pub max_int_secs: u16,
    /// the stored SubscribeRequest bytes
    pub request: Vec<u8>,
}

/// A running device incarnation plus the controllers' transports, all on one executor.
pub struct Boot<'a, CC> {
    pub ex: Exec<'a>,
    /// the device
    pub matter: &'a Matter<'static>,
    pub kv: MemKv,
    pub net: &'a Net,
    pub ctrls: &'a [Controller<CC>],
    net_blob: &'a dyn Fn() -> (Option<Vec<u8>>, Vec<Vec<u8>>),
    factory_reset: &'a dyn Fn(bool) -> Result<(), String>,
    live_subs: &'a dyn Fn() -> Vec<LiveSub>,
    subs: &'a dyn Fn() -> Vec<SubInfo>,
    #[allow(clippy::type_complexity)]
    dev_case: &'a dyn Fn(usize, NonZeroU8, u64, Rc<RefCell<Option<Result<(), Error>>>>) -> core::pin::Pin<Box<dyn core::future::Future<Output = ()> + 'a>>,
    dm_exit: &'a RefCell<Option<String>>,
    next_sess: u16,
    plant_seed: u32,
    /// virtual-time budget for one command (µs)
    pub op_timeout: u64,
}

fn poll_now<F: Future>(f: F) -> Option<F::Output> {
    let mut f = pin!(f);
    let mut cx = Context::from_waker(Waker::noop());
    for _ in 0..64 {
        if let Poll::Ready(v) = f.as_mut().poll(&mut cx) {
            return Some(v);
        }
    }
    None
}

/// Build one device incarnation (see the module docs) and run `body` against it.
pub fn boot<CC, R, F>(cfg: &BootCfg, kv: &MemKv, net: &Net, ctrls: &[Controller<CC>], body: F) -> Result<R, String>
where
    CC: Crypto,
    F: for<'a> FnOnce(&mut Boot<'a, CC>) -> R,
{
    boot_with(cfg, &BootOpts::default(), kv, net, ctrls, body)
}

/// [`boot`] with extras ([`BootOpts`]). The controllers may be the same objects across several
/// incarnations of the device (they then keep their sessions and resumption records).
pub fn boot_with<CC, R, F>(cfg: &BootCfg, opts: &BootOpts, kv: &MemKv, net: &Net, ctrls: &[Controller<CC>], body: F) -> Result<R, String>
where
    CC: Crypto,
    F: for<'a> FnOnce(&mut Boot<'a, CC>) -> R,
{
    let matter: Box<Matter<'static>> = Box::new(new_matter(5540));
    let crypto = mk_crypto(cfg.seed);
    let buffers: Box<MatterBuffers> = Box::new(MatterBuffers::new());
    let rand = WeakTestOnlyRand::new(cfg.seed | 1);
    match cfg.net {
        NetKind::Eth => {
            let state: Box<InteractionModelState<EthNetwork<'static>>> =
                Box::new(InteractionModelState::new(EthNetwork::new_default()));
            let handler = (NODE_ETH, endpoints::EthSysHandlerBuilder::new().build(rand));
            go(&matter, &crypto, &buffers, &state, handler, cfg, opts, kv, net, ctrls, body)
        }
        NetKind::Wifi => {
            let state: Box<InteractionModelState<WifiNetworks<4>>> = Box::new(InteractionModelState::new(WifiNetworks::new()));
            let handler = (
                NODE_WIFI,
                endpoints::WifiSysHandlerBuilder::new(NoopWirelessNetCtl::new(NetworkType::Wifi), &NOOP_WIFI_DIAG).build(rand),
            );
            go(&matter, &crypto, &buffers, &state, handler, cfg, opts, kv, net, ctrls, body)
        }
    }
}

/// [`boot_with`] for a device that has, besides the root endpoint, the application endpoints
/// [`APP_ENDPOINTS`], each with the Descriptor, Identify and Groups clusters (one
/// `IdentifyHandler` and one `GroupsHandler::new_with_identify` serve all of them, composed as in
/// `examples/src/bin/onoff_light.rs` / `rs-matter/tests/data_model/groups.rs`). Address them with
/// the `ep` field of `Cmd::{AddGroup, ViewGroup, GetGroupMembership, RemoveGroup, RemoveAllGroups,
/// AddGroupIfIdentifying, Identify}`. [`boot`] / [`boot_with`] are unchanged (root endpoint only).
pub fn boot_app<CC, R, F>(cfg: &BootCfg, opts: &BootOpts, kv: &MemKv, net: &Net, ctrls: &[Controller<CC>], body: F) -> Result<R, String>
where
    CC: Crypto,
    F: for<'a> FnOnce(&mut Boot<'a, CC>) -> R,
{
    let matter: Box<Matter<'static>> = Box::new(new_matter(5540));
    let crypto = mk_crypto(cfg.seed);
    let buffers: Box<MatterBuffers> = Box::new(MatterBuffers::new());
    let mut rand = WeakTestOnlyRand::new(cfg.seed.rotate_left(7) | 1);
    let identify_handler = IdentifyHandler::new(Dataver::new_rand(&mut rand));
    macro_rules! with_app {
        ($sys:expr) => {
            $sys.chain(EpClMatcher::new(None, Some(desc::DescHandler::CLUSTER.id)), Async(desc::DescHandler::new(Dataver::new_rand(&mut rand)).adapt()))
                .chain(EpClMatcher::new(None, Some(identify::CLUSTER.id)), Async(identify::HandlerAdaptor(&identify_handler)))
                .chain(
                    EpClMatcher::new(None, Some(groups::GroupsHandler::CLUSTER.id)),
                    Async(groups::GroupsHandler::new_with_identify(Dataver::new_rand(&mut rand), &identify_handler).adapt()),
                )
        };
    }
    match cfg.net {
        NetKind::Eth => {
            let state: Box<InteractionModelState<EthNetwork<'static>>> =
                Box::new(InteractionModelState::new(EthNetwork::new_default()));
            let sys = endpoints::EthSysHandlerBuilder::new().build(WeakTestOnlyRand::new(cfg.seed | 1));
            let handler = (NODE_ETH_APP, with_app!(sys));
            go(&matter, &crypto, &buffers, &state, handler, cfg, opts, kv, net, ctrls, body)
        }
        NetKind::Wifi => {
            let state: Box<InteractionModelState<WifiNetworks<4>>> = Box::new(InteractionModelState::new(WifiNetworks::new()));
            let sys = endpoints::WifiSysHandlerBuilder::new(NoopWirelessNetCtl::new(NetworkType::Wifi), &NOOP_WIFI_DIAG).build(WeakTestOnlyRand::new(cfg.seed | 1));
            let handler = (NODE_WIFI_APP, with_app!(sys));
            go(&matter, &crypto, &buffers, &state, handler, cfg, opts, kv, net, ctrls, body)
        }
    }
}

#[allow(clippy::too_many_arguments)]
fn go<N, T, DC, CC, R, F>(
    matter: &Matter<'static>,
    crypto: &DC,
    buffers: &MatterBuffers,
    state: &InteractionModelState<N>,
    handler: T,
    cfg: &BootCfg,
    opts: &BootOpts,
    kv: &MemKv,
    net: &Net,
    ctrls: &[Controller<CC>],
    body: F,
) -> Result<R, String>
where
    N: Networks,
    T: DataModel,
    DC: Crypto,
    CC: Crypto,
    F: for<'a> FnOnce(&mut Boot<'a, CC>) -> R,
{
    let kva = matter.kv(kv.clone());
    if cfg.resume {
        matter.startup(&kva).map_err(|e| format!("Matter::startup: {:?}", e.code()))?;
    }
    let dm = InteractionModel::new(matter, crypto, buffers, handler, &kva, state);
    if cfg.resume {
        match poll_now(dm.startup()) {
            Some(Ok(())) => {}
            Some(Err(e)) => return Err(format!("InteractionModel::startup: {:?}", e.code())),
            None => return Err("InteractionModel::startup did not complete".into()),
        }
    }
    if let Some(t) = cfg.open_window_secs {
        dm.open_basic_comm_window(t).map_err(|e| format!("open_basic_comm_window: {:?}", e.code()))?;
    }
    let responder = Responder::new_default(&dm);
    let net_blob = || -> (Option<Vec<u8>>, Vec<Vec<u8>>) {
        state.networks().access(|n| {
            let mut buf = vec![0u8; 4096];
            let blob = n.save(&mut buf).ok().flatten().map(|l| buf[..l].to_vec());
            let mut ids = Vec::new();
            let _ = n.networks(&mut |id| {
                ids.push(id.to_vec());
                Ok(())
            });
            (blob, ids)
        })
    };
    let live_subs = || -> Vec<LiveSub> {
        let mut v = Vec::new();
        state.subscriptions().verif_for_each_live_sub(|s| v.push(LiveSub { id: s.id, fab_idx: s.fab_idx, peer_node_id: s.peer_node_id }));
        v
    };
    // (the controllers also answer CASE handshakes the device opens towards them)
    let sinks: Vec<Responder<'_, rs_matter::respond::ChainedExchangeHandler<rs_matter::sc::SecureChannel<'_, &CC, ()>, ReportSink<'_>>>> = if opts.ctrl_report_sink {
        ctrls
            .iter()
            .map(|c| {
                Responder::new(
                    "ctrl.sink",
                    rs_matter::respond::ChainedExchangeHandler::new(rs_matter::sc::PROTO_ID_SECURE_CHANNEL, rs_matter::sc::SecureChannel::new(&c.crypto, &()), ReportSink { log: &c.reports }),
                    &c.matter,
                    0,
                )
            })
            .collect()
    } else {
        Vec::new()
    };
    let dev_case = |node: usize, fab: NonZeroU8, peer: u64, slot: Rc<RefCell<Option<Result<(), Error>>>>| -> core::pin::Pin<Box<dyn core::future::Future<Output = ()> + '_>> {
        Box::pin(async move {
            let r = async {
                let exch = Exchange::initiate_plaintext(matter, crypto, node_addr(node)).await?;
                CaseInitiator::perform(exch, crypto, fab, peer).await
            }
            .await;
            *slot.borrow_mut() = Some(r);
        })
    };
    let factory_reset = |matter_first: bool| -> Result<(), String> {
        let m = || matter.factory_reset(&kva).map_err(|e| format!("Matter::factory_reset: {:?}", e.code()));
        let i = || match poll_now(dm.factory_reset()) {
            Some(Ok(())) => Ok(()),
            Some(Err(e)) => Err(format!("InteractionModel::factory_reset: {:?}", e.code())),
            None => Err("InteractionModel::factory_reset did not complete".to_string()),
        };
        if matter_first {
            m()?;
            i()
        } else {
            i()?;
            m()
        }
    };
    let subs = || -> Vec<SubInfo> {
        let mut v = Vec::new();
        dm.verif_for_each_subscription(|s, req| {
            v.push(SubInfo {
                fab_idx: s.fab_idx,
                peer_node_id: s.peer_node_id,
                min_int_secs: s.min_int_secs,
                max_int_secs: s.max_int_secs,
                request: req.to_vec(),
            })
        });
        v
    };
    let dm_exit: RefCell<Option<String>> = RefCell::new(None);
    let mut ex = Exec::new(cfg.sched.clone());
    ex.add_time_source(net);
    ex.spawn("dev.run", async {
        let _ = matter.run(crypto, net.end(0), net.end(0), NoNetwork).await;
    });
    ex.spawn("dev.resp", async {
        let _ = responder.run::<4>().await;
    });
    {
        let (dm, dm_exit) = (&dm, &dm_exit);
        ex.spawn("dev.dm", async move {
            let r = dm.run().await;
            *dm_exit.borrow_mut() = Some(match r {
                Ok(()) => "Ok".to_string(),
                Err(e) => format!("{:?}", e.code()),
            });
        });
    }
    if let Some(ms) = opts.persist_resumption_ms {
        let kva = &kva;
        ex.spawn("dev.resumption-writer", async move {
            let _ = matter.run_persist_resumption(kva, embassy_time::Duration::from_millis(ms)).await;
        });
    }
    for c in ctrls {
        let (m, cc, e) = (&*c.matter, &c.crypto, net.end(c.net_node()));
        ex.spawn(&format!("ctrl{}.run", c.idx), async move {
            let _ = m.run(cc, e, e, NoNetwork).await;
        });
    }
    for (i, r) in sinks.iter().enumerate() {
        ex.spawn(&format!("ctrl{i}.sink"), async move {
            let _ = r.run::<2>().await;
        });
    }
    let mut boot = Boot {
        ex,
        matter,
        kv: kv.clone(),
        net,
        ctrls,
        net_blob: &net_blob,
        factory_reset: &factory_reset,
        live_subs: &live_subs,
        subs: &subs,
        dev_case: &dev_case,
        dm_exit: &dm_exit,
        next_sess: 0x1000u16.wrapping_add((cfg.seed as u16) & 0x0fff),
        plant_seed: cfg.seed ^ 0x7a7a,
        op_timeout: 40 * SEC,
    };
    boot.ex.settle();
    Ok(body(&mut boot))
}

impl<'a, CC: Crypto> Boot<'a, CC> {
    /// Run the executor for `us` microseconds of virtual time.
    pub fn run_for(&mut self, us: u64) -> Stop {
        self.ex.run_for(us)
    }

    /// Run a controller-side future to completion (bounded by `op_timeout` of virtual time).
    /// `None` = it did not finish (the task is cancelled).
    pub fn run_op<T: 'a>(&mut self, name: &str, fut: impl Future<Output = T> + 'a) -> Option<T> {
        let slot: Rc<RefCell<Option<T>>> = Rc::new(RefCell::new(None));
        let s2 = slot.clone();
        let id = self.ex.spawn(name, async move {
            let v = fut.await;
            *s2.borrow_mut() = Some(v);
        });
        let dl = clock::now() + self.op_timeout;
        let s3 = slot.clone();
        self.ex.run_until(dl, move || s3.borrow().is_some());
        self.ex.kill(id);
        let v = slot.borrow_mut().take();
        v
    }

    /// Send one command from controller `ctrl` over its session `sess` and return the outcome.
    pub fn invoke(&mut self, ctrl: usize, sess: u32, cmd: &Cmd) -> Outcome {
        let c = &self.ctrls[ctrl];
        let (m, cc) = (&*c.matter, &c.crypto);
        let cmd = cmd.clone();
        let r = self.run_op(cmd.name(), async move { perform(m, cc, sess, &cmd).await });
        // let trailing acks / session clean-up settle at the current instant
        self.ex.settle();
        r.unwrap_or_else(|| Outcome::Transport("no answer within the op timeout".into()))
    }

    fn fresh_sess_ids(&mut self) -> (u16, u16) {
        self.next_sess = self.next_sess.wrapping_add(2);
        if self.next_sess < 0x100 {
            self.next_sess = 0x100;
        }
        (self.next_sess, self.next_sess.wrapping_add(1))
    }

    /// Plant a PASE session pair (no handshake, commissioning window not needed, the fail-safe
    /// is NOT auto-armed).
    pub fn plant_pase(&mut self, ctrl: usize) -> Result<SessPair, String> {
        let (cs, ds) = self.fresh_sess_ids();
        let (kcd, kdc) = keys_for(cs);
        let c = &self.ctrls[ctrl];
        let caddr = node_addr(c.net_node());
        let mode = || SessionMode::Pase { fab_idx: 0 };
        let ctrl_sid = plant_one(&c.matter, self.plant_seed ^ cs as u32, mode(), 0, 0, cs, ds, node_addr(0), &kdc, &kcd)
            .map_err(|e| format!("plant ctrl half: {:?}", e.code()))?;
        let dev_sid = plant_one(self.matter, self.plant_seed ^ ds as u32, mode(), 0, 0, ds, cs, caddr, &kcd, &kdc)
            .map_err(|e| format!("plant device half: {:?}", e.code()))?;
        Ok(SessPair { ctrl_sid, dev_sid, dev_local_sess: ds, ctrl })
    }

    /// Plant a CASE session pair: on the device it is a session of fabric `dev_fab_idx` whose
    /// peer is `admin_node` (the ACL subject); `dev_node` is the device's node id in that fabric.
    pub fn plant_case(&mut self, ctrl: usize, ctrl_fab_idx: u8, admin_node: u64, dev_fab_idx: u8, dev_node: u64) -> Result<SessPair, String> {
        let (cs, ds) = self.fresh_sess_ids();
        let (kcd, kdc) = keys_for(cs);
        let c = &self.ctrls[ctrl];
        let caddr = node_addr(c.net_node());
        let mode = |f: u8| SessionMode::Case { fab_idx: NonZeroU8::new(f.max(1)).unwrap(), cat_ids: NocCatIds::default() };
        let ctrl_sid =
            plant_one(&c.matter, self.plant_seed ^ cs as u32, mode(ctrl_fab_idx), admin_node, dev_node, cs, ds, node_addr(0), &kdc, &kcd)
                .map_err(|e| format!("plant ctrl half: {:?}", e.code()))?;
        let dev_sid = plant_one(self.matter, self.plant_seed ^ ds as u32, mode(dev_fab_idx), dev_node, admin_node, ds, cs, caddr, &kcd, &kdc)
            .map_err(|e| format!("plant device half: {:?}", e.code()))?;
        Ok(SessPair { ctrl_sid, dev_sid, dev_local_sess: ds, ctrl })
    }

    fn newest_ctrl_session(&self, ctrl: usize, before: &[u32], pase: bool) -> Option<(u32, u16)> {
        sessions(&self.ctrls[ctrl].matter)
            .iter()
            .filter(|s| !before.contains(&s.id) && !s.reserved)
            .filter(|s| matches!(s.mode, SessionMode::Pase { .. }) == pase && !matches!(s.mode, SessionMode::PlainText))
            .map(|s| (s.id, s.peer_sess_id))
            .last()
    }

    /// Real PASE handshake (`PaseInitiator`); the window must be open. On the device this
    /// auto-arms the fail-safe (60 s) as `sc/pase/responder.rs` does.
    pub fn pase_handshake(&mut self, ctrl: usize, passcode: u32) -> Result<SessPair, String> {
        let c = &self.ctrls[ctrl];
        let before: Vec<u32> = sessions(&c.matter).iter().map(|s| s.id).collect();
        let (m, cc) = (&*c.matter, &c.crypto);
        let r = self.run_op("pase", async move {
            let exch = Exchange::initiate_plaintext(m, cc, node_addr(0)).await?;
            PaseInitiator::perform(exch, cc, passcode).await
        });
        self.ex.settle();
        match r {
            Some(Ok(())) => {}
            Some(Err(e)) => return Err(format!("PASE failed: {:?}", e.code())),
            None => return Err("PASE did not finish".into()),
        }
        let (ctrl_sid, dev_local) = self.newest_ctrl_session(ctrl, &before, true).ok_or("no PASE session on the controller")?;
        let dev_sid = sessions(self.matter)
            .iter()
            .filter(|s| s.local_sess_id == dev_local && matches!(s.mode, SessionMode::Pase { .. }))
            .map(|s| s.id)
            .last()
            .ok_or("no PASE session on the device")?;
        Ok(SessPair { ctrl_sid, dev_sid, dev_local_sess: dev_local, ctrl })
    }

    /// Real CASE handshake (`CaseInitiator`) from the controller's local fabric `ctrl_fab_idx`
    /// to the device's node `dev_node`.
    pub fn case_handshake(&mut self, ctrl: usize, ctrl_fab_idx: NonZeroU8, dev_node: u64) -> Result<SessPair, String> {
        let c = &self.ctrls[ctrl];
        let before: Vec<u32> = sessions(&c.matter).iter().map(|s| s.id).collect();
        let (m, cc) = (&*c.matter, &c.crypto);
        let r = self.run_op("case", async move {
            let exch = Exchange::initiate_plaintext(m, cc, node_addr(0)).await?;
            CaseInitiator::perform(exch, cc, ctrl_fab_idx, dev_node).await
        });
        self.ex.settle();
        match r {
            Some(Ok(())) => {}
            Some(Err(e)) => return Err(format!("CASE failed: {:?}", e.code())),
            None => return Err("CASE did not finish".into()),
        }
        let (ctrl_sid, dev_local) = self.newest_ctrl_session(ctrl, &before, false).ok_or("no CASE session on the controller")?;
        let dev_sid = sessions(self.matter)
            .iter()
            .filter(|s| s.local_sess_id == dev_local && matches!(s.mode, SessionMode::Case { .. }))
            .map(|s| s.id)
            .last()
            .ok_or("no CASE session on the device")?;
        Ok(SessPair { ctrl_sid, dev_sid, dev_local_sess: dev_local, ctrl })
    }

    /// Start a subscribe as a BACKGROUND task whose StatusResponse to one priming chunk is held
    /// back by `gate` (see `imdev::subscribe_gated`); finish it with [`Boot::subscribe_finish`].
    /// `paths`: `(endpoint, cluster, attribute)`, `None` = wildcard.
    pub fn subscribe_spawn(
        &mut self,
        ctrl: usize,
        sess: u32,
        paths: &[(Option<u16>, Option<u32>, Option<u32>)],
        min_s: u16,
        max_s: u16,
        keep: bool,
        gate: Rc<super::imdev::SubGate>,
    ) -> SubTask {
        use super::imdev::{Path, ReadOutcome, ReadReq, SubscribeReq};
        let c = &self.ctrls[ctrl];
        let (m, cc) = (&*c.matter, &c.crypto);
        let req = SubscribeReq {
            read: ReadReq {
                attrs: Some(paths.iter().map(|(e, c, a)| Path::new(*e, *c, *a)).collect()),
                events: None,
                fabric_filtered: true,
                dataver_filters: vec![],
                event_min: None,
            },
            keep_subscriptions: keep,
            min_interval_s: min_s,
            max_interval_s: max_s,
        };
        let slot: Rc<RefCell<Option<ReadOutcome>>> = Rc::new(RefCell::new(None));
        let s2 = slot.clone();
        let task = self.ex.spawn("subscribe.bg", async move {
            let r = match Exchange::initiate_for_session(m, cc, sess) {
                Ok(mut ex) => super::imdev::subscribe_gated(&mut ex, &req, &gate).await,
                Err(e) => ReadOutcome { error: Some(format!("initiate:{:?}", e.code())), ..Default::default() },
            };
            *s2.borrow_mut() = Some(r);
        });
        SubTask { slot, task }
    }

    /// Run until `cond()` holds or the background subscribe has ended (at most `max_us`).
    pub fn run_until_or_subscribe_end(&mut self, t: &SubTask, max_us: u64, mut cond: impl FnMut() -> bool) -> bool {
        let slot = t.slot.clone();
        let dl = clock::now() + max_us;
        self.ex.run_until(dl, || cond() || slot.borrow().is_some());
        cond()
    }

    /// Let the background subscribe finish (at most `max_us`, then it is cancelled).
    pub fn subscribe_finish(&mut self, t: SubTask, max_us: u64) -> super::imdev::ReadOutcome {
        let slot = t.slot.clone();
        let dl = clock::now() + max_us;
        self.ex.run_until(dl, || slot.borrow().is_some());
        self.ex.kill(t.task);
        self.ex.settle();
        let r = slot.borrow_mut().take();
        r.unwrap_or_else(|| super::imdev::ReadOutcome { error: Some("subscribe did not finish".into()), ..Default::default() })
    }

    /// Start a real CASE handshake as a BACKGROUND task (see [`Boot::case_finish`]); combine
    /// with [`Boot::hold_install`] to do something while one of its messages is held back.
    pub fn case_spawn(&mut self, ctrl: usize, ctrl_fab_idx: NonZeroU8, dev_node: u64) -> CaseTask {
        let c = &self.ctrls[ctrl];
        let before: Vec<u32> = sessions(&c.matter).iter().map(|s| s.id).collect();
        let (m, cc) = (&*c.matter, &c.crypto);
        let slot: Rc<RefCell<Option<Result<(), Error>>>> = Rc::new(RefCell::new(None));
        let s2 = slot.clone();
        let task = self.ex.spawn("case.bg", async move {
            let r = async {
                let exch = Exchange::initiate_plaintext(m, cc, node_addr(0)).await?;
                CaseInitiator::perform(exch, cc, ctrl_fab_idx, dev_node).await
            }
            .await;
            *s2.borrow_mut() = Some(r);
        });
        CaseTask { ctrl, before, slot, task }
    }

    /// As [`Boot::case_spawn`], but the DEVICE initiates the handshake towards controller `ctrl`
    /// (which answers it when the incarnation runs with `BootOpts::ctrl_report_sink`).
    pub fn dev_case_spawn(&mut self, ctrl: usize, dev_fab_idx: NonZeroU8, ctrl_node: u64) -> CaseTask {
        let c = &self.ctrls[ctrl];
        let before: Vec<u32> = sessions(&c.matter).iter().map(|s| s.id).collect();
        let slot: Rc<RefCell<Option<Result<(), Error>>>> = Rc::new(RefCell::new(None));
        let fut = (self.dev_case)(c.net_node(), dev_fab_idx, ctrl_node, slot.clone());
        let task = self.ex.spawn("dev-case.bg", fut);
        CaseTask { ctrl, before, slot, task }
    }

    /// Run the executor until `cond()` holds or the background handshake has ended, for at most
    /// `max_us` of virtual time. Returns whether `cond()` holds.
    pub fn run_until_or_case_end(&mut self, t: &CaseTask, max_us: u64, mut cond: impl FnMut() -> bool) -> bool {
        let slot = t.slot.clone();
        let dl = clock::now() + max_us;
        self.ex.run_until(dl, || cond() || slot.borrow().is_some());
        cond()
    }

    /// Let the background handshake finish (at most `max_us` of virtual time, then it is cancelled).
    pub fn case_finish(&mut self, t: CaseTask, max_us: u64) -> CaseEnd {
        let slot = t.slot.clone();
        let dl = clock::now() + max_us;
        self.ex.run_until(dl, || slot.borrow().is_some());
        self.ex.kill(t.task);
        self.ex.settle();
        let result = match slot.borrow_mut().take() {
            Some(Ok(())) => Ok(()),
            Some(Err(e)) => Err(format!("CASE failed: {:?}", e.code())),
            None => Err("CASE did not finish".to_string()),
        };
        let ctrl_sess = self.newest_ctrl_session(t.ctrl, &t.before, false);
        let dev = ctrl_sess.and_then(|(_, dev_local)| {
            sessions(self.matter)
                .iter()
                .filter(|s| s.local_sess_id == dev_local && matches!(s.mode, SessionMode::Case { .. }))
                .map(|s| (s.id, dev_local))
                .last()
        });
        CaseEnd { result, ctrl_sid: ctrl_sess.map(|(id, _)| id), dev_local_sess: ctrl_sess.map(|(_, l)| l), dev_sid: dev.map(|(id, _)| id) }
    }

    /// Install a network adversary that holds back the `k`-th (1-based; retransmissions are not
    /// counted) UNENCRYPTED secure-channel message exchanged between the device and controller
    /// `ctrl` from now on - Sigma1/2/3, Sigma2_Resume, status reports and standalone acks, both
    /// directions - until [`Boot::hold_release`]. Every copy of the held message is dropped
    /// meanwhile. Replaces any adversary installed before.
    pub fn hold_install(&mut self, ctrl: usize, k: usize) -> Hold {
        let node = self.ctrls[ctrl].net_node();
        let st = Rc::new(RefCell::new(HoldState { node, k, seen: Vec::new(), held: None, released: false }));
        let st2 = st.clone();
        self.net.set_adversary(move |s: &super::net::Sent| {
            let mut h = st2.borrow_mut();
            let between = (s.src == 0 && s.dst == Some(h.node)) || (s.src == h.node && s.dst == Some(0));
            if !between || h.released {
                return super::net::deliver(s);
            }
            let Some((w, _)) = super::mutate::payload_offset(&s.bytes) else {
                return super::net::deliver(s);
            };
            if w.proto_id != rs_matter::sc::PROTO_ID_SECURE_CHANNEL {
                return super::net::deliver(s);
            }
            let key = (s.src, w.ctr);
            if let Some(held) = &h.held {
                if (held.src, held.ctr) == key {
                    return vec![];
                }
            }
            if !h.seen.contains(&key) {
                h.seen.push(key);
                if h.seen.len() == h.k && h.held.is_none() {
                    h.held = Some(HeldMsg { src: s.src, dst: s.dst.unwrap_or(0), ctr: w.ctr, opcode: w.opcode, bytes: s.bytes.clone(), t_us: clock::now() });
                    return vec![];
                }
            }
            super::net::deliver(s)
        });
        Hold { st }
    }

    /// Release the held message (it is delivered now) and stop holding.
    pub fn hold_release(&mut self, h: &Hold) {
        let held = {
            let mut st = h.st.borrow_mut();
            st.released = true;
            st.held.clone()
        };
        if let Some(m) = held {
            self.net.inject(m.dst, node_addr(m.src), m.bytes);
        }
    }

    /// While a message TO the device is held: deliver a standalone MRP acknowledgement for
    /// whatever the held message acknowledges (what an initiator does when its next message takes
    /// longer than the acknowledgement timeout), so that the device gets on to WAITING for the
    /// held message. Built from the held datagram: same exchange, same acknowledged counter,
    /// opcode `MRPStandAloneAck`, not reliable, no payload, a counter past the held one.
    /// Returns whether an acknowledgement was sent.
    pub fn hold_early_ack(&mut self, h: &Hold) -> bool {
        use rs_matter::transport::packet::PacketHdr;
        use rs_matter::utils::storage::{ParseBuf, WriteBuf};
        let Some(m) = h.held() else { return false };
        if m.dst != 0 {
            return false;
        }
        let mut bytes = m.bytes.clone();
        let mut pb = ParseBuf::new(bytes.as_mut_slice());
        let mut hdr = PacketHdr::new();
        if hdr.decode_plain_hdr(&mut pb).is_err() || hdr.plain.is_encrypted() {
            return false;
        }
        let crypto = mk_crypto(1);
        if hdr.decode_remaining(&crypto, None, 0, &mut pb).is_err() || hdr.proto.get_ack().is_none() {
            return false;
        }
        hdr.plain.ctr = hdr.plain.ctr.wrapping_add(1);
        hdr.proto.proto_opcode = 0x10;
        hdr.proto.unset_reliable();
        let mut out = [0u8; 64];
        let mut wb = WriteBuf::new(&mut out);
        if hdr.plain.encode(&mut wb).is_err() || hdr.proto.encode(&mut wb).is_err() {
            return false;
        }
        let len = wb.get_tail();
        self.net.inject(0, node_addr(m.src), out[..len].to_vec());
        self.ex.settle();
        true
    }

    /// Remove the adversary installed by [`Boot::hold_install`].
    pub fn hold_clear(&mut self) {
        self.net.clear_adversary();
    }

    /// Does the device still hold that session (and is it usable for new exchanges)?
    pub fn device_has_session(&self, p: &SessPair) -> bool {
        sessions(self.matter).iter().any(|s| s.id == p.dev_sid && !s.expired && !s.reserved)
    }

    /// The accessing fabric index the device associates with that session (0 = none).
    pub fn device_session_fabric(&self, p: &SessPair) -> Option<u8> {
        sessions(self.matter).iter().find(|s| s.id == p.dev_sid).map(|s| match &s.mode {
            SessionMode::Case { fab_idx, .. } => fab_idx.get(),
            SessionMode::Pase { fab_idx } => *fab_idx,
            _ => 0,
        })
    }

    /// The device's live subscriptions (including one being reported right now).
    pub fn live_subscriptions(&self) -> Vec<LiveSub> {
        (self.live_subs)()
    }

    /// The device's CASE resumption cache.
    pub fn resumption_records(&self) -> Vec<RecInfo> {
        resumption_records_of(self.matter)
    }

    /// Every session of the device (hook `verif_sessions`).
    pub fn device_sessions(&self) -> Vec<rs_matter::transport::session::verif::SessionSnapshot> {
        sessions(self.matter)
    }

    /// `(fabric index, fabric id, node id, FNV of the root certificate)` of every fabric of the device.
    pub fn fabric_identities(&self) -> Vec<(u8, u64, u64, u32)> {
        self.matter
            .with_state(|st| st.fabrics.iter().map(|f| (f.fab_idx().get(), f.fabric_id(), f.node_id(), fnv(f.root_ca()))).collect())
    }

    /// Interaction-Model read of concrete attribute paths `(endpoint, cluster, attribute)` from
    /// controller `ctrl` over its session `sess` (hand-rolled client of `sim::imdev`, decoded
    /// independently of rs-matter's client).
    pub fn read(&mut self, ctrl: usize, sess: u32, paths: &[(u16, u32, u32)], fabric_filtered: bool) -> super::imdev::ReadOutcome {
        use super::imdev::{Path, ReadOutcome, ReadReq};
        let c = &self.ctrls[ctrl];
        let (m, cc) = (&*c.matter, &c.crypto);
        let req = ReadReq {
            attrs: Some(paths.iter().map(|(e, c, a)| Path::concrete(*e, *c, *a)).collect()),
            events: None,
            fabric_filtered,
            dataver_filters: vec![],
            event_min: None,
        };
        let r = self.run_op("read", async move {
            let mut ex = match Exchange::initiate_for_session(m, cc, sess) {
                Ok(e) => e,
                Err(e) => return ReadOutcome { error: Some(format!("initiate:{:?}", e.code())), ..Default::default() },
            };
            super::imdev::read(&mut ex, &req, &mut |_, _| {}).await
        });
        self.ex.settle();
        r.unwrap_or_else(|| ReadOutcome { error: Some("no answer within the op timeout".into()), ..Default::default() })
    }

    /// Subscribe (priming report + SubscribeResponse) to concrete attribute paths.
    pub fn subscribe(&mut self, ctrl: usize, sess: u32, paths: &[(u16, u32, u32)], min_s: u16, max_s: u16, keep: bool) -> super::imdev::ReadOutcome {
        use super::imdev::{Path, ReadOutcome, ReadReq, SubscribeReq};
        let c = &self.ctrls[ctrl];
        let (m, cc) = (&*c.matter, &c.crypto);
        let req = SubscribeReq {
            read: ReadReq {
                attrs: Some(paths.iter().map(|(e, c, a)| Path::concrete(*e, *c, *a)).collect()),
                events: None,
                fabric_filtered: true,
                dataver_filters: vec![],
                event_min: None,
            },
            keep_subscriptions: keep,
            min_interval_s: min_s,
            max_interval_s: max_s,
        };
        let r = self.run_op("subscribe", async move {
            let mut ex = match Exchange::initiate_for_session(m, cc, sess) {
                Ok(e) => e,
                Err(e) => return ReadOutcome { error: Some(format!("initiate:{:?}", e.code())), ..Default::default() },
            };
            super::imdev::subscribe(&mut ex, &req, &mut |_, _| {}).await
        });
        self.ex.settle();
        r.unwrap_or_else(|| ReadOutcome { error: Some("no answer within the op timeout".into()), ..Default::default() })
    }

    /// Number of datagrams sent so far (a position in the wire tap).
    pub fn tap_pos(&self) -> usize {
        self.net.sent_count()
    }

    /// Unencrypted secure-channel opcodes the device (net node 0) has sent since tap position `from`.
    pub fn device_sc_opcodes_since(&self, from: usize) -> Vec<u8> {
        self.net.with_tap(|t| {
            t.sent
                .iter()
                .skip(from)
                .filter(|s| s.src == 0)
                .filter_map(|s| super::mutate::payload_offset(&s.bytes))
                .filter(|(w, _)| w.proto_id == rs_matter::sc::PROTO_ID_SECURE_CHANNEL)
                .map(|(w, _)| w.opcode)
                .collect()
        })
    }

    pub fn failsafe_armed(&self) -> bool {
        self.matter.with_state(|s| s.verif_failsafe().is_armed())
    }

    pub fn failsafe_armed_for(&self, fab_idx: u8) -> bool {
        self.matter.with_state(|s| s.verif_failsafe().is_armed_for(fab_idx))
    }

    pub fn breadcrumb(&self) -> u64 {
        self.matter.with_state(|s| s.verif_failsafe().breadcrumb())
    }

    pub fn window_open(&self) -> bool {
        self.matter.comm_window_state().is_open()
    }

    /// `Some(result)` once `InteractionModel::run` (fail-safe timer, subscriptions) has
    /// terminated — it never should.
    pub fn dm_run_exited(&self) -> Option<String> {
        self.dm_exit.borrow().clone()
    }

    /// Factory-reset the device: `Matter::factory_reset` and `InteractionModel::factory_reset`
    /// (in that order if `matter_first`), as an application would on a reset request.
    pub fn factory_reset(&mut self, matter_first: bool) -> Result<(), String> {
        let r = (self.factory_reset)(matter_first);
        self.ex.settle();
        r
    }

    /// The device's subscription table.
    pub fn subscriptions(&self) -> Vec<SubInfo> {
        (self.subs)()
    }

    /// The persisted form (TLV) of the Basic Information settings in memory (hook
    /// `MatterState::verif_basic_info`).
    pub fn basic_info_tlv(&self) -> Vec<u8> {
        self.matter.with_state(|s| {
            let mut buf = vec![0u8; 1024];
            let mut wb = WriteBuf::new(&mut buf);
            let len = match s.verif_basic_info().to_tlv(&TLVTag::Anonymous, &mut wb) {
                Ok(()) => wb.get_tail(),
                Err(_) => 0,
            };
            buf.truncate(len);
            buf
        })
    }

    pub fn snapshot(&self) -> AdminSnapshot {
        let (networks, network_ids) = (self.net_blob)();
        AdminSnapshot {
            fabrics: fabric_tlvs(self.matter),
            fabric_text: fabric_summaries(self.matter),
            networks,
            network_ids,
            armed: self.failsafe_armed(),
            breadcrumb: self.breadcrumb(),
            kv: self.kv.snapshot(),
            groups: group_tables(self.matter),
        }
    }
}

/// The CASE resumption cache of any `Matter` (device or controller).
pub fn resumption_records_of(matter: &Matter<'_>) -> Vec<RecInfo> {
    matter.with_state(|st| {
        st.resumption
            .iter()
            .map(|r| RecInfo {
                fab_idx: r.fab_idx.get(),
                peer_node_id: r.peer_nodeid,
                resumption_id: r.resumption_id.reference().access().to_vec(),
                secret_hash: fnv(r.shared_secret.reference().access()),
            })
            .collect()
    })
}

/// The blob an empty, never-commissioned Wi-Fi store saves (what a boot without a persisted
/// NETWORKS entry amounts to).
pub fn empty_wifi_blob() -> Vec<u8> {
    let n: WifiNetworks<4> = WifiNetworks::new();
    let mut buf = vec![0u8; 256];
    let len = n.store(&mut buf).unwrap_or(0);
    buf.truncate(len);
    buf
}
