//! Deterministic single-threaded executor over the virtual clock.
//!
//! All tasks share ONE waker. rs-matter's `Signal`/`Notification`/`IfMutex` hold a single
//! `WakerRegistration`; embassy's `WakerRegistration::register` wakes the waker it evicts, so
//! two waiters with *different* wakers ping-pong forever (a busy loop that a wall-clock executor
//! survives but that would freeze a virtual clock). With one shared waker the stacks behave as
//! in the repository's own tests, where all futures of a node are arms of one `select`.
//! When the waker fires, every live task is polled once, in an order chosen by the [`Sched`]
//! policy (a generated input); when nothing is woken the clock jumps to the earliest alarm
//! (embassy timers or a registered [`TimeSource`], e.g. delayed datagrams).

use std::future::Future;
use std::pin::Pin;
use std::sync::atomic::{AtomicBool, Ordering};
use std::sync::Arc;
use std::task::{Context, Poll, Wake, Waker};

use super::clock;

/// Poll-order policy. All variants are pure functions of their parameters.
#[derive(Debug, Clone)]
pub enum Sched {
    /// Always the lowest-numbered ready task.
    Fifo,
    /// Rotating start position.
    RoundRobin,
    /// xorshift64* stream seeded by the (generated) value.
    Seeded(u64),
    /// Explicit choice script, consumed cyclically (`choice % ready`).
    Script(Vec<u8>),
}

struct Chooser {
    sched: Sched,
    state: u64,
    pos: usize,
}

impl Chooser {
    fn new(sched: Sched) -> Self {
        let state = match &sched {
            Sched::Seeded(s) => s.wrapping_mul(0x9E3779B97F4A7C15) | 1,
            _ => 1,
        };
        Self {
            sched,
            state,
            pos: 0,
        }
    }

    fn pick(&mut self, n: usize) -> usize {
        if n <= 1 {
            return 0;
        }
        match &self.sched {
            Sched::Fifo => 0,
            Sched::RoundRobin => {
                self.pos = self.pos.wrapping_add(1);
                self.pos % n
            }
            Sched::Seeded(_) => {
                let mut x = self.state;
                x ^= x >> 12;
                x ^= x << 25;
                x ^= x >> 27;
                self.state = x;
                ((x.wrapping_mul(0x2545F4914F6CDD1D) >> 33) as usize) % n
            }
            Sched::Script(s) => {
                if s.is_empty() {
                    0
                } else {
                    let c = s[self.pos % s.len()] as usize;
                    self.pos += 1;
                    c % n
                }
            }
        }
    }
}

struct Flag(AtomicBool);

impl Wake for Flag {
    fn wake(self: Arc<Self>) {
        self.0.store(true, Ordering::SeqCst);
    }

    fn wake_by_ref(self: &Arc<Self>) {
        self.0.store(true, Ordering::SeqCst);
    }
}

struct Task<'a> {
    name: String,
    fut: Option<Pin<Box<dyn Future<Output = ()> + 'a>>>,
    polls: u64,
}

/// Something besides embassy timers that wants to act at a virtual instant.
pub trait TimeSource {
    fn next_due(&self) -> Option<u64>;
    fn fire(&self, now: u64);
}

#[derive(Debug, Clone, Copy, PartialEq, Eq)]
pub enum Stop {
    /// The goal predicate became true.
    Goal,
    /// No task is ready and no alarm is pending.
    Quiescent,
    /// The virtual deadline was reached.
    Deadline,
    /// The poll budget was exhausted (livelock watchdog).
    PollLimit,
}

pub type TaskId = usize;

pub struct Exec<'a> {
    tasks: Vec<Task<'a>>,
    flag: Arc<Flag>,
    waker: Waker,
    chooser: Chooser,
    sources: Vec<&'a dyn TimeSource>,
    pub polls: u64,
    /// Watchdog: maximum number of polls per `run_*` call.
    pub max_polls: u64,
    /// Number of times the clock was pushed forward although tasks kept waking each other
    /// (busy-wait loops: in the real world time passes while they spin).
    pub forced_advances: u64,
    /// After that many consecutive rounds at one virtual instant the clock is pushed to the next
    /// alarm.
    pub spin_rounds: u32,
}

impl<'a> Exec<'a> {
    pub fn new(sched: Sched) -> Self {
        let flag = Arc::new(Flag(AtomicBool::new(true)));
        let waker = Waker::from(flag.clone());
        Self {
            tasks: Vec::new(),
            flag,
            waker,
            chooser: Chooser::new(sched),
            sources: Vec::new(),
            polls: 0,
            max_polls: 5_000_000,
            forced_advances: 0,
            spin_rounds: 200,
        }
    }

    pub fn add_time_source(&mut self, s: &'a dyn TimeSource) {
        self.sources.push(s);
    }

    pub fn spawn<F: Future<Output = ()> + 'a>(&mut self, name: &str, fut: F) -> TaskId {
        self.flag.0.store(true, Ordering::SeqCst);
        self.tasks.push(Task {
            name: name.to_string(),
            fut: Some(Box::pin(fut)),
            polls: 0,
        });
        self.tasks.len() - 1
    }

    /// Cancel a task: its future is dropped right now (like a `select` arm losing).
    pub fn kill(&mut self, id: TaskId) {
        if let Some(t) = self.tasks.get_mut(id) {
            t.fut = None;
        }
    }

    pub fn is_done(&self, id: TaskId) -> bool {
        self.tasks.get(id).map(|t| t.fut.is_none()).unwrap_or(true)
    }

    pub fn task_name(&self, id: TaskId) -> &str {
        &self.tasks[id].name
    }

    fn next_source_due(&self) -> Option<u64> {
        self.sources.iter().filter_map(|s| s.next_due()).min()
    }

    fn fire_sources(&self) {
        let now = clock::now();
        for s in &self.sources {
            if s.next_due().map(|t| t <= now).unwrap_or(false) {
                s.fire(now);
            }
        }
    }

    /// Run until `goal()` holds, the absolute virtual `deadline` (µs) passes, nothing can make
    /// progress any more, or the poll watchdog fires.
    pub fn run_until<G: FnMut() -> bool>(&mut self, deadline: u64, mut goal: G) -> Stop {
        let mut budget = self.max_polls;
        let mut order: Vec<usize> = Vec::new();
        let mut spin_at = clock::now();
        let mut spin = 0u32;
        loop {
            if goal() {
                return Stop::Goal;
            }
            self.fire_sources();
            if clock::now() != spin_at {
                spin_at = clock::now();
                spin = 0;
            }
            let mut woken = self.flag.0.swap(false, Ordering::SeqCst);
            if woken {
                spin += 1;
                if spin > self.spin_rounds {
                    // Tasks keep waking each other without the clock moving: a busy-wait. Let
                    // time pass, as it would on a real CPU.
                    let next = match (clock::next_alarm(), self.next_source_due()) {
                        (Some(a), Some(b)) => Some(a.min(b)),
                        (a, b) => a.or(b),
                    };
                    if let Some(t) = next {
                        if t <= deadline {
                            self.forced_advances += 1;
                            self.flag.0.store(true, Ordering::SeqCst);
                            clock::advance_to(t);
                            continue;
                        }
                    }
                }
            }
            if !woken {
                woken = self.flag.0.swap(false, Ordering::SeqCst);
            }
            if !woken {
                let next = match (clock::next_alarm(), self.next_source_due()) {
                    (Some(a), Some(b)) => Some(a.min(b)),
                    (a, b) => a.or(b),
                };
                match next {
                    Some(t) if t <= deadline => {
                        clock::advance_to(t);
                        continue;
                    }
                    Some(_) => {
                        clock::advance_to(deadline);
                        return if goal() { Stop::Goal } else { Stop::Deadline };
                    }
                    None => return Stop::Quiescent,
                }
            }
            if clock::now() > deadline {
                return Stop::Deadline;
            }
            // One round: poll every live task once, in a generated order.
            order.clear();
            order.extend(
                self.tasks
                    .iter()
                    .enumerate()
                    .filter(|(_, t)| t.fut.is_some())
                    .map(|(i, _)| i),
            );
            if order.is_empty() {
                // nothing to run; only time sources may still act
                continue;
            }
            // Fisher-Yates with the chooser
            for i in (1..order.len()).rev() {
                let j = self.chooser.pick(i + 1);
                order.swap(i, j);
            }
            for &idx in &order {
                if budget == 0 {
                    return Stop::PollLimit;
                }
                budget -= 1;
                let waker = self.waker.clone();
                let mut cx = Context::from_waker(&waker);
                let task = &mut self.tasks[idx];
                task.polls += 1;
                self.polls += 1;
                let done = match task.fut.as_mut() {
                    Some(f) => matches!(f.as_mut().poll(&mut cx), Poll::Ready(())),
                    None => false,
                };
                if done {
                    self.tasks[idx].fut = None;
                }
                if goal() {
                    return Stop::Goal;
                }
            }
        }
    }

    /// Run for `d` microseconds of virtual time.
    pub fn run_for(&mut self, d: u64) -> Stop {
        let deadline = clock::now().saturating_add(d);
        self.run_until(deadline, || false)
    }

    /// Run until no task is ready at the current instant (does not advance the clock).
    pub fn settle(&mut self) -> Stop {
        let now = clock::now();
        self.run_until(now, || false)
    }

    pub fn poll_counts(&self) -> Vec<(String, u64)> {
        self.tasks.iter().map(|t| (t.name.clone(), t.polls)).collect()
    }
}
