//! Node-level group reception scenario shared by the `node-group-rx` sub-checks of C03
//! (authenticity verdicts) and C04 (counter verdicts).
//!
//! One device (a real `Matter` + transport on the simulator) with 1-2 fabrics, each with 1-2
//! group key sets (1-2 epoch keys each), 1-3 groups mapped to these key sets (at most four map
//! entries, the capacity of the build) and endpoint memberships. A generated sequence of group
//! datagrams - genuine ones with counters chosen relative to the sender's history, replays,
//! forgeries, cross-key / cross-fabric / wrong-session-id / unknown-group variants, control
//! flagged ones, bursts from more senders than the device tracks - is injected one by one; after
//! each the harness observes what an application (an `ExchangeHandler`) was handed, what the
//! session table and the tracked-sender table (verif hooks) look like and what the device sent.
//!
//! The oracle is a reference model written from the two property statements:
//!
//! * (A, C03) a datagram is delivered only if it is authentic under the operational key of a
//!   key set that the fabric's group key map assigns to the destination group id in its header,
//!   with the Group Session ID of that key; whatever is rejected leaves sessions and tracked
//!   senders as they were - and every later verdict is the one the model predicts as if the
//!   rejected datagram had never arrived;
//! * (B, C04) per (fabric, source node id): no counter delivered twice, nothing older than the
//!   16-entry window delivered, everything newer (modulo 2^32, group counters roll over) than all
//!   that was *delivered* is delivered; trust-first for a sender that is not tracked; a sender is
//!   forgotten once 16 other senders were used after it (LRU table of 16, as documented on
//!   `GroupCtrStore`).
//!
//! Key derivation uses the crate's own public functions (`KeySet::update`,
//! `derive_group_session_id`); datagrams are built with `PacketHdr::encode`.

use std::cell::RefCell;
use std::collections::{BTreeMap, BTreeSet};
use std::rc::Rc;

use embassy_time::{Duration, Timer};
use proptest::prelude::*;
use serde::{Deserialize, Serialize};

use rs_matter::crypto::{CanonAeadKey, CanonAeadKeyRef};
use rs_matter::error::Error;
use rs_matter::fabric::GroupKeyMapping;
use rs_matter::group_keys::{GroupEpochKeyEntry, GroupKeySet, KeySet};
use rs_matter::respond::{ExchangeHandler, Responder};
use rs_matter::transport::exchange::Exchange;
use rs_matter::transport::network::{Address, NoNetwork};
use rs_matter::transport::packet::PacketHdr;
use rs_matter::transport::session::verif::SessionSnapshot;
use rs_matter::transport::session::{derive_group_session_id, SessionMode};
use rs_matter::utils::storage::WriteBuf;

use super::fabric::{install, new_member, Ca, Member};
use super::net::{alien_addr, Net};
use super::node::{mk_crypto, new_matter, sessions};
use super::{clock, Exec, Sched, Stop, MS};
use crate::util::pick;

pub const WINDOW: u32 = 16;
/// Capacity of the tracked-sender table (`MAX_GROUP_CTR_ENTRIES`).
pub const TRACKED: usize = 16;
const APP: u16 = 0x00F7;
const OP_REQ: u8 = 1;
/// Virtual time between two injected datagrams.
const GAP_MS: u64 = 10;
const HANDLERS: usize = 6;

// ------------------------------------------------------------------------------------------
// the generated case

#[derive(Debug, Clone, Serialize, Deserialize)]
pub struct FabSpec {
    /// number of epoch keys (1..=2) of each key set (1..=2 key sets)
    pub keysets: Vec<u8>,
    /// groups: (index into the group id pool 0..4, key set mask 1..=3)
    pub groups: Vec<(u8, u8)>,
    /// number of regular senders 1..=3
    pub senders: u8,
}

#[derive(Debug, Clone, Copy, PartialEq, Eq, Serialize, Deserialize)]
pub enum Ctr {
    /// highest delivered + 1
    Next,
    /// highest delivered + k (inside the forward window)
    Plus(u8),
    /// highest delivered + j (a jump beyond the window)
    Jump(u32),
    /// highest delivered
    Equal,
    /// highest delivered - k, 1 <= k <= 16 (inside the window)
    Back(u8),
    /// highest delivered - 16 - k (older than the window)
    Older(u16),
    /// the counter of the last rejected datagram that named this sender
    LastRejected,
    /// highest delivered + 2^31 - 1: the farthest "newer" value of a rolling counter
    HalfAhead,
    /// highest delivered + 2^31
    Antipode,
}

#[derive(Debug, Clone, PartialEq, Eq, Serialize, Deserialize)]
pub enum Kind {
    Genuine,
    /// the exact bytes of an earlier datagram (selector)
    Replay { of: u16 },
    /// a genuine datagram with one bit flipped; zone 0 = unencrypted header, 1 = ciphertext,
    /// 2 = tag, 3 = anywhere
    Flip { zone: u8, byte: u16, bit: u8 },
    Truncate { keep: u16 },
    Extend { extra: u8 },
    /// key and Group Session ID of a key set of the same fabric that is NOT mapped to the
    /// destination group
    CrossKey,
    /// key and Group Session ID of a key set of the other fabric, addressed to a group of this one
    OtherFabricKey,
    /// the right key under another session id
    WrongSessId { delta: u16 },
    /// the right key, addressed to a group id the key map does not know
    UnknownGroup,
    /// a key nobody installed, under the right session id
    RandomKey,
    /// encrypted with another source node id in the nonce than the header names
    OtherNonceNode,
    /// genuine, with the control-message flag set
    Control,
    /// `n` genuine datagrams from `n` distinct additional senders (more than the device tracks)
    Crowd { n: u8 },
}

#[derive(Debug, Clone, Serialize, Deserialize)]
pub struct Step {
    pub fab: u8,
    pub sender: u8,
    pub group: u8,
    pub key: u8,
    pub epoch: u8,
    pub ctr: Ctr,
    pub kind: Kind,
    pub reliable: bool,
    pub payload_len: u8,
}

#[derive(Debug, Clone, Serialize, Deserialize)]
pub struct GrxCase {
    pub fabrics: Vec<FabSpec>,
    /// first counter of the (up to) six regular senders
    pub bases: Vec<u32>,
    pub steps: Vec<Step>,
    /// how long the application keeps the exchange of a delivered message (ms)
    pub hold_ms: u8,
    pub seed: u32,
}

fn interesting_u32() -> impl Strategy<Value = u32> {
    prop_oneof![
        3 => prop::sample::select(vec![
            0u32, 1, 16, 17, 1000, 0x7fff_fff0, 0x7fff_ffff, 0x8000_0000,
            u32::MAX - 40, u32::MAX - 17, u32::MAX - 16, u32::MAX - 2, u32::MAX - 1, u32::MAX,
        ]),
        2 => any::<u32>(),
        1 => (u32::MAX - 64)..=u32::MAX,
    ]
}

fn fab_spec() -> impl Strategy<Value = FabSpec> {
    (
        prop::collection::vec(1u8..=2, 1..=2),
        prop::collection::vec((0u8..4, 1u8..=3), 1..=3),
        1u8..=3,
    )
        .prop_map(|(keysets, groups, senders)| FabSpec { keysets, groups, senders })
}

fn ctr() -> impl Strategy<Value = Ctr> {
    prop_oneof![
        8 => Just(Ctr::Next),
        2 => (2u8..=16).prop_map(Ctr::Plus),
        2 => prop_oneof![Just(17u32), Just(18), 17u32..200, 17u32..0x7fff_ffff].prop_map(Ctr::Jump),
        2 => Just(Ctr::Equal),
        3 => prop_oneof![Just(1u8), Just(15), Just(16), 1u8..=16].prop_map(Ctr::Back),
        2 => prop_oneof![Just(1u16), Just(2), 1u16..2000].prop_map(Ctr::Older),
        4 => Just(Ctr::LastRejected),
        1 => Just(Ctr::HalfAhead),
        1 => Just(Ctr::Antipode),
    ]
}

fn kind() -> impl Strategy<Value = Kind> {
    prop_oneof![
        9 => Just(Kind::Genuine),
        3 => any::<u16>().prop_map(|of| Kind::Replay { of }),
        4 => (0u8..4, any::<u16>(), 0u8..8).prop_map(|(zone, byte, bit)| Kind::Flip { zone, byte, bit }),
        1 => any::<u16>().prop_map(|keep| Kind::Truncate { keep }),
        1 => (1u8..5).prop_map(|extra| Kind::Extend { extra }),
        3 => Just(Kind::CrossKey),
        2 => Just(Kind::OtherFabricKey),
        1 => (1u16..=u16::MAX).prop_map(|delta| Kind::WrongSessId { delta }),
        1 => Just(Kind::UnknownGroup),
        1 => Just(Kind::RandomKey),
        1 => Just(Kind::OtherNonceNode),
        1 => Just(Kind::Control),
        1 => (14u8..=18).prop_map(|n| Kind::Crowd { n }),
    ]
}

fn step() -> impl Strategy<Value = Step> {
    (
        prop_oneof![2 => Just(0u8), 1 => any::<u8>()],
        prop_oneof![3 => Just(0u8), 1 => any::<u8>()],
        any::<u8>(),
        any::<u8>(),
        any::<u8>(),
        ctr(),
        kind(),
        prop::bool::weighted(0.08),
        prop_oneof![3 => 3u8..12, 1 => 3u8..=255],
    )
        .prop_map(|(fab, sender, group, key, epoch, ctr, kind, reliable, payload_len)| Step {
            fab,
            sender,
            group,
            key,
            epoch,
            ctr,
            kind,
            reliable,
            payload_len,
        })
}

pub fn grx_case() -> impl Strategy<Value = GrxCase> {
    (
        prop::collection::vec(fab_spec(), 1..=2),
        prop::collection::vec(interesting_u32(), 6),
        prop::collection::vec(step(), 1..=25),
        prop_oneof![5 => Just(0u8), 1 => Just(5u8), 2 => Just(15u8), 2 => Just(25u8)],
        any::<u32>(),
    )
        .prop_map(|(fabrics, bases, steps, hold_ms, seed)| GrxCase { fabrics, bases, steps, hold_ms, seed })
}

// ------------------------------------------------------------------------------------------
// fabric material (built once per worker thread: it does not depend on the case)

struct World {
    cas: Vec<Ca>,
    members: Vec<Member>,
}

const DEV_NODES: [u64; 2] = [0x0000_0000_0000_D001, 0x0000_0000_0000_D002];

thread_local! {
    static WORLD: RefCell<Option<Rc<World>>> = const { RefCell::new(None) };
}

fn world() -> Result<Rc<World>, String> {
    WORLD.with(|w| {
        if let Some(w) = w.borrow().as_ref() {
            return Ok(w.clone());
        }
        let crypto = mk_crypto(0x6772_7801);
        let mut cas = Vec::new();
        let mut members = Vec::new();
        for f in 0..2u64 {
            let ca = Ca::new(&crypto, 0xFAB0_0001 + f, false, 40 + f as u8).map_err(|e| format!("ca: {e:?}"))?;
            let m = new_member(&crypto, &ca, DEV_NODES[f as usize], &[]).map_err(|e| format!("member: {e:?}"))?;
            cas.push(ca);
            members.push(m);
        }
        let world = Rc::new(World { cas, members });
        *w.borrow_mut() = Some(world.clone());
        Ok(world)
    })
}

// ------------------------------------------------------------------------------------------
// the plan: the case made concrete

#[derive(Debug, Clone)]
struct Epoch {
    epoch: [u8; 16],
    op: [u8; 16],
    sid: u16,
}

#[derive(Debug, Clone)]
struct KsPlan {
    id: u16,
    epochs: Vec<Epoch>,
}

#[derive(Debug, Clone)]
struct FabPlan {
    /// the device's fabric index (1-based)
    fab_idx: u8,
    keysets: Vec<KsPlan>,
    /// (group id, key set index) - the group key map, in installation order
    map: Vec<(u16, usize)>,
    /// distinct group ids of the map
    groups: Vec<u16>,
    senders: Vec<u64>,
}

fn group_id(pool_idx: u8) -> u16 {
    0x0101 + (pool_idx as u16 % 4)
}

fn epoch_key(f: usize, k: usize, e: usize) -> [u8; 16] {
    let mut key = [0u8; 16];
    for (i, b) in key.iter_mut().enumerate() {
        *b = (0xA0u8)
            .wrapping_add((f as u8) * 0x41)
            .wrapping_add((k as u8) * 0x13)
            .wrapping_add((e as u8) * 0x07)
            .wrapping_add((i as u8).wrapping_mul(11));
    }
    key
}

fn sender_node(s: usize) -> u64 {
    // the same node ids in both fabrics: tracking is per (fabric, node id)
    0x0000_0000_0000_A001 + s as u64
}

fn crowd_node(i: usize) -> u64 {
    0x0000_0000_0000_C000 + i as u64
}

fn sender_addr(f: usize, node: u64) -> Address {
    alien_addr(f * 64 + (node & 0x3f) as usize)
}

pub fn derive(cfid: u64, epoch: &[u8; 16]) -> Result<([u8; 16], u16), String> {
    let crypto = mk_crypto(1);
    let mut ek = CanonAeadKey::new();
    ek.load_from_array(epoch);
    let mut ks = KeySet::new();
    ks.update(&crypto, ek.reference(), &cfid).map_err(|e| format!("KeySet::update: {e:?}"))?;
    let sid = derive_group_session_id(&crypto, ks.op_key()).map_err(|e| format!("derive_group_session_id: {e:?}"))?;
    Ok((*ks.op_key().access(), sid))
}

fn make_plan(case: &GrxCase, cfids: &[u64], fab_idxs: &[u8]) -> Result<Vec<FabPlan>, String> {
    let mut plans = Vec::new();
    for (f, spec) in case.fabrics.iter().enumerate().take(2) {
        let mut keysets = Vec::new();
        for (k, n) in spec.keysets.iter().enumerate().take(2) {
            let mut epochs = Vec::new();
            for e in 0..(*n).clamp(1, 2) as usize {
                let ek = epoch_key(f, k, e);
                let (op, sid) = derive(cfids[f], &ek)?;
                epochs.push(Epoch { epoch: ek, op, sid });
            }
            keysets.push(KsPlan { id: 0x0040 + (f as u16) * 0x10 + k as u16, epochs });
        }
        if keysets.is_empty() {
            return Err("no key set".into());
        }
        let mut map: Vec<(u16, usize)> = Vec::new();
        let mut groups: Vec<u16> = Vec::new();
        // first mapping of every group, then the second mappings, at most four entries in all
        for (pool, mask) in spec.groups.iter().take(3) {
            let g = group_id(*pool);
            if groups.contains(&g) {
                continue;
            }
            groups.push(g);
            let first = if keysets.len() == 1 || mask & 1 != 0 { 0 } else { 1 };
            map.push((g, first));
        }
        for (pool, mask) in spec.groups.iter().take(3) {
            let g = group_id(*pool);
            if keysets.len() == 2 && *mask == 3 && map.len() < 4 && !map.contains(&(g, 1)) {
                map.push((g, 1));
            }
        }
        let senders = (0..spec.senders.clamp(1, 3) as usize).map(sender_node).collect();
        plans.push(FabPlan { fab_idx: fab_idxs[f], keysets, map, groups, senders });
    }
    Ok(plans)
}

fn install_groups(device: &rs_matter::Matter<'_>, plan: &[FabPlan]) -> Result<(), String> {
    device.with_state(|state| {
        for f in plan {
            let idx = core::num::NonZeroU8::new(f.fab_idx).ok_or("fabric index 0")?;
            let fabric = state.fabrics.fabric_mut(idx).map_err(|e| format!("fabric_mut: {e:?}"))?;
            for ks in &f.keysets {
                let mut epoch_keys = rs_matter::utils::storage::Vec::new();
                for (i, e) in ks.epochs.iter().enumerate() {
                    let mut epoch_key = CanonAeadKey::new();
                    epoch_key.load_from_array(&e.epoch);
                    epoch_keys
                        .push(GroupEpochKeyEntry { epoch_key, epoch_start_time: i as u64 * 1000 })
                        .map_err(|_| "epoch key table full")?;
                }
                fabric
                    .groups_mut()
                    .key_set_add(GroupKeySet { group_key_set_id: ks.id, group_key_security_policy: 0, epoch_keys })
                    .map_err(|e| format!("key_set_add: {e:?}"))?;
            }
            for (g, k) in &f.map {
                fabric
                    .groups_mut()
                    .key_map_add(GroupKeyMapping { group_id: *g, group_key_set_id: f.keysets[*k].id })
                    .map_err(|e| format!("key_map_add: {e:?}"))?;
            }
            for g in &f.groups {
                fabric.groups_mut().add(1, *g, "").map_err(|e| format!("groups add: {e:?}"))?;
            }
        }
        Ok(())
    })
}

// ------------------------------------------------------------------------------------------
// datagrams

/// What the harness knows about a datagram it crafted.
#[derive(Debug, Clone)]
struct Truth {
    /// index (0-based) of the fabric under whose key map the datagram is authentic
    auth_fab: Option<usize>,
    /// fabric the sender belongs to (for the accounting of forgeries)
    claimed_fab: usize,
    control: bool,
    src: u64,
    ctr: u32,
    dst_group: u16,
    sid: u16,
    body: Vec<u8>,
}

#[derive(Debug, Clone)]
#[allow(dead_code)]
struct Datagram {
    bytes: Vec<u8>,
    from: Address,
    truth: Truth,
    kind: &'static str,
}

#[allow(clippy::too_many_arguments)]
fn encode(
    key: &[u8; 16],
    nonce_node: u64,
    hdr_src: u64,
    sid: u16,
    ctr: u32,
    dst_group: u16,
    control: bool,
    exch: u16,
    reliable: bool,
    body: &[u8],
) -> Option<Vec<u8>> {
    let mut hdr = PacketHdr::new();
    hdr.plain.sess_id = sid;
    hdr.plain.ctr = ctr;
    hdr.plain.set_group_session(true);
    hdr.plain.set_control_msg(control);
    hdr.plain.set_src_nodeid(Some(hdr_src));
    hdr.plain.set_dst_groupcast_nodeid(Some(dst_group));
    hdr.proto.exch_id = exch;
    hdr.proto.set_initiator();
    if reliable {
        hdr.proto.set_reliable();
    } else {
        hdr.proto.unset_reliable();
    }
    hdr.proto.proto_id = APP;
    hdr.proto.proto_opcode = OP_REQ;
    let mut buf = vec![0u8; 512];
    let reserve = PacketHdr::HDR_RESERVE;
    let end = reserve + body.len();
    buf[reserve..end].copy_from_slice(body);
    let crypto = mk_crypto(1);
    let mut wb = WriteBuf::new_with(&mut buf, reserve, end);
    hdr.encode(&crypto, Some(CanonAeadKeyRef::new(key)), nonce_node, &mut wb).ok()?;
    Some(wb.as_slice().to_vec())
}

/// The authenticity rule of the statement: the key is the operational key of a key set that the
/// key map of some fabric assigns to the destination group, and the session id is that key's.
fn authentic_under(plan: &[FabPlan], key: &[u8; 16], sid: u16, dst_group: u16) -> Option<usize> {
    for (fi, f) in plan.iter().enumerate() {
        for (g, k) in &f.map {
            if *g == dst_group && f.keysets[*k].epochs.iter().any(|e| &e.op == key && e.sid == sid) {
                return Some(fi);
            }
        }
    }
    None
}

/// Length of the unencrypted header of a group data datagram: flags, session id, security
/// flags, counter, source node id, group id.
const PLAIN_LEN: usize = 1 + 2 + 1 + 4 + 8 + 2;
const TAG_LEN: usize = 16;

// ------------------------------------------------------------------------------------------
// the reference model

#[derive(Debug, Clone, Copy, PartialEq, Eq)]
pub enum Exp {
    Deliver,
    Reject,
    Either,
}

struct Sender {
    /// logical (unwrapped) delivered values since the sender became tracked
    accepted: BTreeSet<u64>,
    max: u64,
    /// model time of the last *delivered* message: the sender was certainly "used" then
    lo: u64,
    /// model time of the last authenticated message, delivered or not: whether a refused
    /// message counts as a "use" of the least-recently-used table is not stated anywhere
    hi: u64,
    /// the history may or may not have been forgotten (an eviction that cannot be decided)
    unknown: bool,
}

#[derive(Debug, Clone, Copy, PartialEq, Eq)]
enum Status {
    Tracked,
    Untracked,
    Uncertain,
}

#[derive(Default)]
struct Model {
    senders: BTreeMap<(usize, u64), Sender>,
    clock: u64,
}

const BASE: u64 = 1 << 40;

impl Model {
    /// A table of 16 least-recently-used senders holds a sender iff fewer than 16 distinct other
    /// senders were used since its own last use. With the two bounds on "last use" this gives a
    /// three-valued answer.
    fn status(&self, key: &(usize, u64)) -> Status {
        let Some(s) = self.senders.get(key) else {
            return Status::Untracked;
        };
        let certainly_after = self.senders.iter().filter(|(k, o)| *k != key && o.lo > s.hi).count();
        if certainly_after >= TRACKED {
            return Status::Untracked;
        }
        let possibly_after = self.senders.iter().filter(|(k, o)| *k != key && o.hi > s.lo).count();
        if possibly_after < TRACKED && !s.unknown {
            Status::Tracked
        } else {
            Status::Uncertain
        }
    }

    /// Highest delivered counter of a sender that is certainly tracked.
    fn wire_max(&self, key: &(usize, u64)) -> Option<u32> {
        if self.status(key) == Status::Tracked {
            self.senders.get(key).map(|s| s.max as u32)
        } else {
            None
        }
    }

    /// Reference value for generating relative counters.
    fn ref_max(&self, key: &(usize, u64)) -> Option<u32> {
        if self.status(key) != Status::Untracked {
            self.senders.get(key).map(|s| s.max as u32)
        } else {
            None
        }
    }

    /// Expected verdict of the counter check for an authenticated data message, the logical
    /// value it would take, and the reason.
    fn expect(&self, key: &(usize, u64), v: u32) -> (Exp, u64, &'static str) {
        match self.status(key) {
            Status::Untracked => {
                let why = if self.senders.contains_key(key) { "sender was evicted: trust-first" } else { "new sender: trust-first" };
                return (Exp::Deliver, BASE + v as u64, why);
            }
            Status::Uncertain => return (Exp::Either, BASE + v as u64, "the sender may or may not have been evicted"),
            Status::Tracked => {}
        }
        let s = &self.senders[key];
        let wire_max = s.max as u32;
        let fwd = v.wrapping_sub(wire_max);
        let back = wire_max.wrapping_sub(v);
        if fwd == 0 {
            (Exp::Reject, s.max, "equal to the highest delivered counter")
        } else if fwd <= i32::MAX as u32 {
            (Exp::Deliver, s.max + fwd as u64, "newer than every delivered counter")
        } else if back <= WINDOW {
            let l = s.max - back as u64;
            if s.accepted.contains(&l) {
                (Exp::Reject, l, "inside the window, delivered before")
            } else {
                // the statement requires in-window acceptance only for unicast sessions
                (Exp::Either, l, "inside the window, not delivered yet")
            }
        } else if back == 0x8000_0000 {
            (Exp::Either, 0, "exactly half the counter space away")
        } else {
            (Exp::Reject, 0, "older than the window")
        }
    }

    /// An authenticated data message was seen; if it was delivered its counter is recorded.
    /// `status` is the sender's status before the message, `sure` whether `logical` is known.
    fn record(&mut self, key: (usize, u64), status: Status, logical: u64, wire: u32, delivered: bool, sure: bool) {
        self.clock += 1;
        let clock = self.clock;
        let fresh = |unknown: bool| {
            let l = BASE + wire as u64;
            let mut accepted = BTreeSet::new();
            accepted.insert(l);
            Sender { accepted, max: l, lo: clock, hi: clock, unknown }
        };
        match status {
            Status::Tracked => {
                let s = self.senders.get_mut(&key).unwrap();
                s.hi = clock;
                if delivered {
                    s.lo = clock;
                    if sure {
                        if logical > s.max {
                            s.max = logical;
                        }
                        s.accepted.insert(logical);
                    } else {
                        *s = fresh(true);
                    }
                }
            }
            Status::Untracked => {
                if delivered {
                    self.senders.insert(key, fresh(false));
                } else {
                    // an untracked sender whose message was refused: nothing is known any more
                    self.senders.remove(&key);
                }
            }
            Status::Uncertain => {
                if delivered {
                    self.senders.insert(key, fresh(true));
                } else if let Some(s) = self.senders.get_mut(&key) {
                    s.hi = clock;
                }
            }
        }
    }
}

// ------------------------------------------------------------------------------------------
// observations

#[derive(Debug, Clone)]
struct Rec {
    payload: Vec<u8>,
    proto: u16,
    opcode: u8,
    groupcast: bool,
    /// (fabric index, group id, peer node id, local session id, peer address) of the session
    session: Option<(u8, u16, Option<u64>, u16, Address)>,
    /// the stack has scheduled an acknowledgement for this (group) message
    ack_pending: Option<u32>,
}

struct App<'a> {
    log: &'a RefCell<Vec<Rec>>,
    hold_us: u64,
}

impl ExchangeHandler for App<'_> {
    async fn handle(&self, mut exchange: Exchange<'_>) -> Result<(), Error> {
        let (payload, proto, opcode) = {
            let rx = exchange.recv().await?;
            let meta = rx.meta();
            (rx.payload().to_vec(), meta.proto_id, meta.proto_opcode)
        };
        let sid = exchange.id().verif_session_id();
        let snap: Option<SessionSnapshot> =
            exchange.matter().with_state(|st| st.verif_sessions().verif_snapshots().find(|s| s.id == sid));
        let ack_pending = snap.as_ref().and_then(|s| s.exchanges.iter().flatten().find_map(|e| e.ack_pending));
        let session = snap.and_then(|s| match s.mode {
            SessionMode::Group { fab_idx, group_id } => Some((fab_idx.get(), group_id, s.peer_nodeid, s.local_sess_id, s.peer_addr)),
            _ => None,
        });
        let groupcast = exchange.is_groupcast().unwrap_or(false);
        self.log.borrow_mut().push(Rec { payload, proto, opcode, groupcast, session, ack_pending });
        if groupcast && ack_pending.is_some() {
            // An acknowledgement is scheduled for a multicast message. On the code as found the
            // attempt to send it when the exchange is dropped fails, the exchange is never
            // released and the transport task spins without ever yielding - which would hang
            // this process. Keep the exchange alive instead (the scenario stops right after
            // reporting the scheduled acknowledgement).
            core::mem::forget(exchange);
            return Ok(());
        }
        if self.hold_us > 0 {
            Timer::after(Duration::from_micros(self.hold_us)).await;
        }
        Ok(())
    }
}

type SessEssence = (u32, u32, u16, u32, [u8; 16], [u8; 16], Vec<Option<(u16, bool, u8, Option<u32>, Option<u32>)>>, bool, u16, Option<u64>);

fn essence(s: &SessionSnapshot) -> SessEssence {
    (
        s.id,
        s.rx_max_ctr,
        s.rx_bitmap,
        s.msg_ctr,
        s.dec_key,
        s.enc_key,
        s.exchanges
            .iter()
            .map(|e| e.as_ref().map(|e| (e.exch_id, e.initiator, e.state, e.retrans, e.ack_pending)))
            .collect(),
        s.expired,
        s.local_sess_id,
        s.peer_nodeid,
    )
}

/// (fabric index, node id, highest counter, bitmap) of every tracked sender, sorted.
fn tracked_senders(device: &rs_matter::Matter<'_>) -> Vec<(u8, u64, u32, u16)> {
    let mut v: Vec<(u8, u64, u32, u16)> =
        device.with_state(|st| st.verif_sessions().verif_group_ctr_entries().map(|(f, n, m, b, _)| (f, n, m, b)).collect());
    v.sort();
    v
}

// ------------------------------------------------------------------------------------------
// result

#[derive(Debug, Clone, Copy, PartialEq, Eq)]
pub enum Class {
    /// an authenticity verdict (property C03)
    Auth,
    /// a counter verdict (property C04)
    Counter,
}

#[derive(Debug, Clone)]
pub struct Finding {
    pub class: Class,
    pub signature: String,
    pub detail: String,
}

#[derive(Debug, Default)]
pub struct Outcome {
    pub findings: Vec<Finding>,
    pub labels: Vec<String>,
    /// a rejected datagram was followed by a delivered genuine one of the same sender whose
    /// verdict would have been different had the rejected one been recorded
    pub nontrivial: bool,
    pub inconclusive: Option<String>,
    pub datagrams: usize,
}

impl Outcome {
    pub fn first(&self, class: Class) -> Option<&Finding> {
        self.findings.iter().find(|f| f.class == class)
    }
}

fn short(b: &[u8]) -> String {
    let mut s = crate::util::hex(&b[..b.len().min(40)]);
    if b.len() > 40 {
        s.push_str("..");
    }
    s
}

// ------------------------------------------------------------------------------------------
// the scenario runner

pub fn run(case: &GrxCase) -> Outcome {
    let mut out = Outcome::default();
    match run_inner(case, &mut out) {
        Ok(()) => {}
        Err(why) => out.inconclusive = Some(why),
    }
    out
}

fn run_inner(case: &GrxCase, out: &mut Outcome) -> Result<(), String> {
    super::reset_universe();
    let world = world()?;
    let net = Net::new(1);
    let cd = mk_crypto(case.seed);
    let device = new_matter(5540);
    let nfab = case.fabrics.len().clamp(1, 2);

    let mut fab_idxs = Vec::new();
    let mut cfids = Vec::new();
    for f in 0..nfab {
        let idx = install(&device, &cd, &world.cas[f], &world.members[f], 0x1).map_err(|e| format!("install fabric: {e:?}"))?;
        let cfid = device
            .with_state(|st| st.fabrics.fabric(idx).map(|fab| fab.compressed_fabric_id()))
            .map_err(|e| format!("fabric: {e:?}"))?;
        fab_idxs.push(idx.get());
        cfids.push(cfid);
    }
    let plan = make_plan(case, &cfids, &fab_idxs)?;
    install_groups(&device, &plan)?;

    let log: RefCell<Vec<Rec>> = RefCell::new(Vec::new());
    let hold_us = case.hold_ms as u64 * MS;
    let app = App { log: &log, hold_us };
    let responder = Responder::new("device", app, &device, 0);
    let mut ex = Exec::new(Sched::Fifo);
    ex.add_time_source(&net);
    ex.spawn("dev.run", async {
        let _ = device.run(&cd, net.end(0), net.end(0), NoNetwork).await;
    });
    for h in 0..HANDLERS {
        let r = &responder;
        ex.spawn(&format!("dev.h{h}"), async move {
            let _ = r.handle(h).await;
        });
    }
    if ex.run_for(10 * MS) == Stop::PollLimit {
        return Err("poll watchdog".into());
    }

    let trace = std::env::var("VH_GRX_TRACE").is_ok();
    if trace {
        eprintln!("grx: case {}", serde_json::to_string(case).unwrap_or_default());
    }
    let mut model = Model::default();
    let mut sent: Vec<Datagram> = Vec::new();
    // per (fabric, node): counters of rejected datagrams not yet "tested" by a later genuine one
    let mut rejected: BTreeMap<(usize, u64), Vec<u32>> = BTreeMap::new();
    let mut last_rejected: BTreeMap<(usize, u64), u32> = BTreeMap::new();
    let mut labels: BTreeSet<String> = BTreeSet::new();
    // instants (virtual) until which a session created by a delivered datagram is held
    // (what the device matches a receive session by: peer address, source node id, session id)
    let mut held_until: Vec<(u64, (Address, u64, u16))> = Vec::new();
    let mut overlap_seen = false;
    // the same for every delivered message (data or control), with its counter
    let mut held_same_ctr: Vec<(u64, (usize, u64), u32)> = Vec::new();

'steps: for (si, step) in case.steps.iter().enumerate() {
        let fi = pick((step.fab as u16) << 8, plan.len());
        let f = &plan[fi];
        let n_sub = match step.kind {
            Kind::Crowd { n } => n as usize,
            _ => 1,
        };
        for sub in 0..n_sub {
            let crowd = matches!(step.kind, Kind::Crowd { .. });
            let node = if crowd { crowd_node(sub) } else { f.senders[pick((step.sender as u16) << 8, f.senders.len())] };
            let skey = (fi, node);
            let sender_slot = if crowd { None } else { Some(fi * 3 + pick((step.sender as u16) << 8, f.senders.len())) };
            let base = match sender_slot {
                Some(s) => case.bases.get(s).copied().unwrap_or(1000),
                None => 5000 + sub as u32 * 3,
            };
            // ---- the genuine parameters of this step
            let g = f.groups[pick((step.group as u16) << 8, f.groups.len())];
            let mapped: Vec<usize> = f.map.iter().filter(|(mg, _)| *mg == g).map(|(_, k)| *k).collect();
            let ks = mapped[pick((step.key as u16) << 8, mapped.len())];
            let eps = &f.keysets[ks].epochs;
            let ep = &eps[pick((step.epoch as u16) << 8, eps.len())];
            let cur = model.ref_max(&skey);
            let m = cur.unwrap_or(base);
            let ctr_choice = if crowd { Ctr::Next } else { step.ctr };
            let v = match (cur, ctr_choice) {
                (None, Ctr::LastRejected) => last_rejected.get(&skey).copied().unwrap_or(m),
                (None, _) => m,
                (Some(_), Ctr::Next) => m.wrapping_add(1),
                (Some(_), Ctr::Plus(k)) => m.wrapping_add(k.clamp(2, 16) as u32),
                (Some(_), Ctr::Jump(j)) => m.wrapping_add(j.clamp(17, 0x7fff_fffe)),
                (Some(_), Ctr::Equal) => m,
                (Some(_), Ctr::Back(k)) => m.wrapping_sub(k.clamp(1, 16) as u32),
                (Some(_), Ctr::Older(k)) => m.wrapping_sub(16 + k.max(1) as u32),
                (Some(_), Ctr::LastRejected) => last_rejected.get(&skey).copied().unwrap_or(m.wrapping_add(1)),
                (Some(_), Ctr::HalfAhead) => m.wrapping_add(0x7fff_ffff),
                (Some(_), Ctr::Antipode) => m.wrapping_add(0x8000_0000),
            };
            let dg_no = sent.len();
            let mut body = vec![dg_no as u8, (dg_no >> 8) as u8, 0x5a];
            for i in 3..step.payload_len.max(3) as usize {
                body.push((i as u8).wrapping_mul(13).wrapping_add(dg_no as u8));
            }
            let exch = 0x0100 + dg_no as u16;
            let from = sender_addr(fi, node);
            let genuine = |key: &[u8; 16], nonce: u64, sid: u16, dst: u16, control: bool| {
                encode(key, nonce, node, sid, v, dst, control, exch, step.reliable, &body)
            };
            let truth_for = |key: &[u8; 16], sid: u16, dst: u16, control: bool, nonce_ok: bool| Truth {
                auth_fab: if nonce_ok { authentic_under(&plan, key, sid, dst) } else { None },
                claimed_fab: fi,
                control,
                src: node,
                ctr: v,
                dst_group: dst,
                sid,
                body: body.clone(),
            };
            let (bytes, truth, kind): (Option<Vec<u8>>, Truth, &'static str) = match &step.kind {
                Kind::Genuine | Kind::Crowd { .. } => (genuine(&ep.op, node, ep.sid, g, false), truth_for(&ep.op, ep.sid, g, false, true), if crowd { "crowd" } else { "genuine" }),
                Kind::Control => (genuine(&ep.op, node, ep.sid, g, true), truth_for(&ep.op, ep.sid, g, true, true), "control"),
                Kind::Replay { of } => {
                    if sent.is_empty() {
                        (genuine(&ep.op, node, ep.sid, g, false), truth_for(&ep.op, ep.sid, g, false, true), "genuine")
                    } else {
                        let d = &sent[pick(*of, sent.len())];
                        (Some(d.bytes.clone()), d.truth.clone(), "replay")
                    }
                }
                Kind::Flip { zone, byte, bit } => {
                    let b = genuine(&ep.op, node, ep.sid, g, false).map(|mut b| {
                        let (lo, hi) = match zone {
                            0 => (0, PLAIN_LEN.min(b.len())),
                            1 => (PLAIN_LEN.min(b.len()), b.len().saturating_sub(TAG_LEN).max(PLAIN_LEN.min(b.len()))),
                            2 => (b.len().saturating_sub(TAG_LEN), b.len()),
                            _ => (0, b.len()),
                        };
                        let (lo, hi) = if hi > lo { (lo, hi) } else { (0, b.len()) };
                        let i = lo + pick(*byte, hi - lo);
                        b[i] ^= 1 << (bit & 7);
                        b
                    });
                    let mut t = truth_for(&ep.op, ep.sid, g, false, true);
                    t.auth_fab = None;
                    (b, t, match zone { 0 => "flip-header", 1 => "flip-ciphertext", 2 => "flip-tag", _ => "flip-any" })
                }
                Kind::Truncate { keep } => {
                    let b = genuine(&ep.op, node, ep.sid, g, false).map(|mut b| {
                        let k = pick(*keep, b.len());
                        b.truncate(k);
                        b
                    });
                    let mut t = truth_for(&ep.op, ep.sid, g, false, true);
                    t.auth_fab = None;
                    (b, t, "truncate")
                }
                Kind::Extend { extra } => {
                    let b = genuine(&ep.op, node, ep.sid, g, false).map(|mut b| {
                        for i in 0..*extra {
                            b.push(0xe0 + i);
                        }
                        b
                    });
                    let mut t = truth_for(&ep.op, ep.sid, g, false, true);
                    t.auth_fab = None;
                    (b, t, "extend")
                }
                Kind::CrossKey => {
                    // a key set of this fabric that is not mapped to a group of this fabric
                    let mut choice: Option<(u16, usize)> = None;
                    for cg in &f.groups {
                        for ck in 0..f.keysets.len() {
                            if !f.map.contains(&(*cg, ck)) && choice.is_none() {
                                choice = Some((*cg, ck));
                            }
                        }
                    }
                    match choice {
                        Some((cg, ck)) => {
                            let ceps = &f.keysets[ck].epochs;
                            let cep = &ceps[pick((step.epoch as u16) << 8, ceps.len())];
                            (genuine(&cep.op, node, cep.sid, cg, false), truth_for(&cep.op, cep.sid, cg, false, true), "cross-key")
                        }
                        None => {
                            let ug = unknown_group(f);
                            (genuine(&ep.op, node, ep.sid, ug, false), truth_for(&ep.op, ep.sid, ug, false, true), "unknown-group")
                        }
                    }
                }
                Kind::OtherFabricKey => {
                    if plan.len() > 1 {
                        let o = &plan[1 - fi];
                        let ok = pick((step.key as u16) << 8, o.keysets.len());
                        let oeps = &o.keysets[ok].epochs;
                        let oep = &oeps[pick((step.epoch as u16) << 8, oeps.len())];
                        // preferably a group of this fabric that the other fabric does not map to
                        // that key set (otherwise the datagram is simply a genuine message of the
                        // other fabric, which the general rule below recognises)
                        let og = f.groups.iter().copied().find(|cg| !o.map.contains(&(*cg, ok))).unwrap_or(g);
                        (genuine(&oep.op, node, oep.sid, og, false), truth_for(&oep.op, oep.sid, og, false, true), "other-fabric-key")
                    } else {
                        let mut rk = ep.op;
                        rk[3] ^= 0x40;
                        (genuine(&rk, node, ep.sid, g, false), truth_for(&rk, ep.sid, g, false, true), "random-key")
                    }
                }
                Kind::WrongSessId { delta } => {
                    let sid = ep.sid.wrapping_add((*delta).max(1));
                    (genuine(&ep.op, node, sid, g, false), truth_for(&ep.op, sid, g, false, true), "wrong-session-id")
                }
                Kind::UnknownGroup => {
                    let ug = unknown_group(f);
                    (genuine(&ep.op, node, ep.sid, ug, false), truth_for(&ep.op, ep.sid, ug, false, true), "unknown-group")
                }
                Kind::RandomKey => {
                    let mut rk = ep.op;
                    rk[3] ^= 0x40;
                    (genuine(&rk, node, ep.sid, g, false), truth_for(&rk, ep.sid, g, false, true), "random-key")
                }
                Kind::OtherNonceNode => (genuine(&ep.op, node ^ 0x55, ep.sid, g, false), truth_for(&ep.op, ep.sid, g, false, false), "other-nonce-node"),
            };
            let Some(bytes) = bytes else {
                return Err("encoding a datagram failed".into());
            };
            let dg = Datagram { bytes, from, truth, kind };
            labels.insert(format!("kind:{kind}"));

            // ---- expectation from the model
            let t = &dg.truth;
            let track_key = t.auth_fab.map(|af| (af, t.src));
            let status = track_key.map(|k| model.status(&k)).unwrap_or(Status::Untracked);
            let (exp, logical, why) = match (track_key, t.control) {
                (None, _) => (Exp::Reject, 0, "not authentic under a key the key map assigns to the destination group"),
                // control messages live in another counter space: the statement on (data) message
                // counters does not decide them
                (Some(_), true) => (Exp::Either, 0, "authentic control message"),
                (Some(k), false) => model.expect(&k, t.ctr),
            };
            let now = clock::now();
            held_until.retain(|(until, _)| *until > now);
            held_same_ctr.retain(|(until, _, _)| *until > now);
            let (exp, why) = match (exp, track_key) {
                (Exp::Deliver, Some(k)) if !t.control && held_same_ctr.iter().any(|(_, hk, hc)| *hk == k && *hc == t.ctr) => (
                    Exp::Either,
                    "a message of this sender with the same 32-bit counter value is still being handled (a control message, or a data message 2^32 messages ago: not a situation a sender can produce)",
                ),
                _ => (exp, why),
            };
            let overlap = held_until.iter().any(|(_, hk)| *hk == (dg.from, t.src, t.sid));
            if overlap {
                labels.insert("arrives-while-a-message-of-the-sender-is-being-handled".into());
                overlap_seen = true;
            }
            let findings_before = out.findings.len();

            // ---- inject and observe
            let sess_before: Vec<SessEssence> = sessions(&device).iter().map(essence).collect();
            let tracked_before = tracked_senders(&device);
            let log_before = log.borrow().len();
            let sent_before = net.sent_count();
            if trace {
                eprintln!("grx: inject #{dg_no} step {si}.{sub} {kind} t={} polls={}", clock::now(), ex.polls);
            }
            net.inject(0, dg.from, dg.bytes.clone());
            if ex.run_for(GAP_MS * MS) == Stop::PollLimit {
                return Err("poll watchdog".into());
            }
            let sess_after: Vec<SessEssence> = sessions(&device).iter().map(essence).collect();
            let tracked_after = tracked_senders(&device);
            let new_recs: Vec<Rec> = log.borrow()[log_before..].to_vec();
            let dev_sent = net.sent_count() - sent_before;
            out.datagrams += 1;

            let delivered = !new_recs.is_empty();
            let what = format!(
                "datagram #{dg_no} (step {si}{}, {kind}: source node {:#x} of fabric {}, counter {:#x}, group {:#06x}, session id {:#06x}{}{})",
                if n_sub > 1 { format!(".{sub}") } else { String::new() },
                t.src,
                plan[t.claimed_fab].fab_idx,
                t.ctr,
                t.dst_group,
                t.sid,
                if t.control { ", control flag" } else { "" },
                if overlap { ", arriving while the application still handles an earlier message of this sender" } else { "" },
            );

            // (1) what was handed to the application
            if new_recs.len() > 1 {
                out.findings.push(Finding {
                    class: Class::Counter,
                    signature: "node-group:one-datagram-delivered-more-than-once".into(),
                    detail: format!("{what} was handed to {} exchanges", new_recs.len()),
                });
            }
            if delivered && t.auth_fab.is_none() {
                out.findings.push(Finding {
                    class: Class::Auth,
                    signature: format!("node-group:unauthentic-delivered@{kind}"),
                    detail: format!("{what} is {why}, yet an application was handed payload {} on session {:?}; key map of the fabric: {:?}", short(&new_recs[0].payload), new_recs[0].session, describe_map(&plan[t.claimed_fab])),
                });
            }
            if let (Some(r), Some(af)) = (new_recs.first(), t.auth_fab) {
                let want = (plan[af].fab_idx, t.dst_group, Some(t.src), t.sid, dg.from);
                if r.payload != t.body || r.proto != APP || r.opcode != OP_REQ {
                    out.findings.push(Finding {
                        class: Class::Auth,
                        signature: "node-group:delivered-payload-differs".into(),
                        detail: format!("{what}: encoded payload {} / protocol {APP:#x} opcode {OP_REQ}, delivered payload {} / protocol {:#x} opcode {}", short(&t.body), short(&r.payload), r.proto, r.opcode),
                    });
                } else if r.session != Some(want) || !r.groupcast {
                    out.findings.push(Finding {
                        class: Class::Auth,
                        signature: "node-group:delivered-on-session-of-another-identity".into(),
                        detail: format!("{what} was handed to an exchange of session (fabric, group, peer node, session id, peer address) = {:?} (groupcast={}), expected {want:?}", r.session, r.groupcast),
                    });
                }
            }

            if let Some(r) = new_recs.iter().find(|r| r.groupcast && r.ack_pending.is_some()) {
                out.findings.push(Finding {
                    class: Class::Auth,
                    signature: "node-group:acknowledgement-scheduled-for-a-group-message".into(),
                    detail: format!("{what} carries the reliability (R) flag; the device scheduled an acknowledgement (for counter {:#x}) on the group session although group messages are never acknowledged (no MRP). (On this code the acknowledgement cannot even be built - Session::pre_send fails with InvalidState for a group data message without a reserved group counter - so the dropped exchange is never released and Transport::process_dropped_exchanges retries without ever awaiting: the transport task spins forever. The harness keeps the exchange alive to be able to report.)", r.ack_pending.unwrap_or(0)),
                });
                labels.insert("stopped:acknowledgement-scheduled".into());
                let n = out.findings.len() - 1;
                finish_signatures(&mut out.findings[findings_before..n], overlap_seen);
                break 'steps;
            }

            // (2) the verdict
            match (exp, delivered) {
                (Exp::Deliver, false) if t.auth_fab.is_some() => {
                    let first = why.contains("trust-first");
                    out.findings.push(Finding {
                        class: Class::Counter,
                        signature: if first { "node-group:untracked-sender-refused".into() } else { "node-group:newer-counter-refused".into() },
                        detail: format!("{what} is authentic and {why} (highest delivered so far {:?}), but was not delivered; tracked senders of the device: {:x?}", model.wire_max(&track_key.unwrap()), tracked_after),
                    });
                    if first && rejected.get(&track_key.unwrap()).map(|v| v.is_empty()).unwrap_or(true) && !overlap {
                        out.findings.push(Finding {
                            class: Class::Auth,
                            signature: "node-group:authentic-first-message-refused".into(),
                            detail: format!("{what} is authentic, from a sender the device does not track, no rejected datagram named this sender before - and it was not delivered; key map: {:?}", describe_map(&plan[t.auth_fab.unwrap()])),
                        });
                    }
                }
                (Exp::Reject, true) if t.auth_fab.is_some() => {
                    out.findings.push(Finding {
                        class: Class::Counter,
                        signature: if why.starts_with("older") { "node-group:older-than-window-delivered".into() } else { "node-group:counter-delivered-twice".into() },
                        detail: format!("{what} is {why} (highest delivered {:?}), but was delivered", model.wire_max(&track_key.unwrap())),
                    });
                }
                _ => {}
            }

            // (3) a datagram that was not delivered changes nothing
            if !delivered {
                let grown = unexplained(&sess_before, &sess_after);
                if !grown.is_empty() {
                    out.findings.push(Finding {
                        class: Class::Auth,
                        signature: format!("node-group:rejected-datagram-changed-sessions@{kind}"),
                        detail: format!("{what} was not delivered, but the session table changed: new or altered entries {grown:x?}"),
                    });
                }
                if tracked_before != tracked_after {
                    out.findings.push(Finding {
                        class: if t.auth_fab.is_some() { Class::Counter } else { Class::Auth },
                        signature: format!("node-group:rejected-datagram-changed-tracked-senders@{}", if t.auth_fab.is_some() { "authentic" } else { kind }),
                        detail: format!("{what} was not delivered ({why}), but the tracked senders (fabric, node, highest counter, bitmap) changed\n before: {tracked_before:x?}\n after:  {tracked_after:x?}"),
                    });
                }
            }

            // (4) group messages are not answered when they are delivered
            if dev_sent > 0 {
                labels.insert(if delivered { "device-sent-after-delivery".into() } else { format!("device-answered-rejected:{}", if t.auth_fab.is_some() { "authentic" } else { kind }) });
            }

            // Findings made while, or after, a datagram arrived during the handling of an earlier
            // message of its sender carry their own signature: they have one common cause (the
            // receive session of the message being handled) and are told apart from the rest.
            finish_signatures(&mut out.findings[findings_before..], overlap_seen);

            // ---- accounting, then the model follows what is known
            labels.insert(
                match (t.auth_fab.is_some(), exp, delivered) {
                    (false, _, _) => "verdict:unauthentic",
                    (true, Exp::Deliver, _) => if why.contains("trust-first") { "verdict:deliver-trust-first" } else { "verdict:deliver-newer" },
                    (true, Exp::Reject, _) => if why.starts_with("older") { "verdict:reject-older-than-window" } else { "verdict:reject-duplicate" },
                    (true, Exp::Either, true) => "verdict:either-delivered",
                    (true, Exp::Either, false) => "verdict:either-refused",
                }
                .to_string(),
            );
            if let (Some(k), false) = (track_key, t.control) {
                if delivered && exp != Exp::Reject {
                    // does this verdict depend on an earlier rejected datagram having had no effect?
                    if let Some(rs) = rejected.get_mut(&k) {
                        let dep = rs.iter().any(|r| {
                            let d = r.wrapping_sub(t.ctr);
                            d <= i32::MAX as u32
                        });
                        if dep {
                            out.nontrivial = true;
                            labels.insert("delivered-although-a-rejected-datagram-carried-an-equal-or-newer-counter".into());
                        }
                        rs.clear();
                    }
                    if model.senders.contains_key(&k) && status == Status::Untracked {
                        labels.insert("eviction".into());
                    }
                    if status == Status::Uncertain {
                        labels.insert("eviction-undecidable".into());
                    }
                    if let Some(m) = model.wire_max(&k) {
                        if t.ctr < m && t.ctr.wrapping_sub(m) <= i32::MAX as u32 {
                            labels.insert("rollover".into());
                        }
                    }
                }
                let status = if exp == Exp::Reject && delivered {
                    // wrongly delivered: resynchronise on the device's view
                    model.senders.remove(&k);
                    Status::Untracked
                } else {
                    status
                };
                let sure = !(exp == Exp::Either && (why.starts_with("exactly half") || why.starts_with("a message of this sender with the same")));
                model.record(k, status, logical, t.ctr, delivered, sure);
            }
            if let (Some(k), true) = (track_key, delivered) {
                if hold_us > 0 {
                    held_until.push((now + hold_us, (dg.from, t.src, t.sid)));
                    held_same_ctr.push((now + hold_us + GAP_MS * MS, k, t.ctr));
                }
            }
            if !delivered {
                let k = track_key.unwrap_or((t.claimed_fab, t.src));
                if t.auth_fab.is_none() {
                    rejected.entry(k).or_default().push(t.ctr);
                    last_rejected.insert(k, t.ctr);
                }
            }
            sent.push(dg);
        }
    }

    // everything the application holds ends; nothing may linger
    if ex.run_for((case.hold_ms as u64 + 200) * MS) == Stop::PollLimit {
        return Err("poll watchdog".into());
    }
    let lingering = sessions(&device).iter().filter(|s| matches!(s.mode, SessionMode::Group { .. })).count();
    if lingering > 0 {
        labels.insert("group-session-lingers-after-the-run".into());
    }
    labels.insert(format!("hold:{}ms", case.hold_ms));
    labels.insert(format!("fabrics:{}", plan.len()));
    out.labels = labels.into_iter().collect();
    Ok(())
}

/// A signature is `<what>` or `<what>@<kind of datagram>`. Findings made while, or after, a
/// datagram arrived during the handling of an earlier message from the same address, node and
/// session id are told apart from the rest (they have one common cause: the receive session of
/// the message being handled) and do not name the kind.
fn finish_signatures(findings: &mut [Finding], overlap_seen: bool) {
    for f in findings {
        let (what, kind) = match f.signature.split_once('@') {
            Some((w, k)) => (w.to_string(), Some(k.to_string())),
            None => (f.signature.clone(), None),
        };
        f.signature = match (overlap_seen, kind) {
            (true, _) => format!("{what}:handling-overlap"),
            (false, Some(k)) => format!("{what}:{k}"),
            (false, None) => what,
        };
    }
}

/// Session table entries after a rejected datagram: nothing new, nothing altered - except that an
/// exchange the application was holding may have ended meanwhile.
fn unexplained<'a>(before: &[SessEssence], after: &'a [SessEssence]) -> Vec<&'a SessEssence> {
    after
        .iter()
        .filter(|a| {
            !before.iter().any(|b| {
                let same_but_exchanges = (b.0, b.1, b.2, b.3, b.4, b.5, b.7, b.8, b.9) == (a.0, a.1, a.2, a.3, a.4, a.5, a.7, a.8, a.9);
                same_but_exchanges && a.6.len() == b.6.len() && a.6.iter().zip(b.6.iter()).all(|(ea, eb)| ea == eb || ea.is_none())
            })
        })
        .collect()
}

fn unknown_group(f: &FabPlan) -> u16 {
    (0..5u16).map(|i| 0x0101 + i).find(|g| !f.groups.contains(g)).unwrap_or(0x01ff)
}

fn describe_map(f: &FabPlan) -> Vec<(String, String, Vec<String>)> {
    f.map
        .iter()
        .map(|(g, k)| {
            (
                format!("group {g:#06x}"),
                format!("key set {:#06x}", f.keysets[*k].id),
                f.keysets[*k].epochs.iter().map(|e| format!("session id {:#06x}", e.sid)).collect(),
            )
        })
        .collect()
}
