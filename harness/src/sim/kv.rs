//! In-memory `KvBlobStore` with an operation log, failure injection and crash-prefix
//! materialisation.

use std::cell::RefCell;
use std::collections::BTreeMap;
use std::rc::Rc;

use rs_matter::error::{Error, ErrorCode};
use rs_matter::persist::KvBlobStore;

use super::clock;

#[derive(Debug, Clone, PartialEq, Eq)]
pub enum KvOp {
    Store { key: u16, data: Vec<u8> },
    Remove { key: u16 },
    /// Harness-inserted marker (e.g. "peer received the response to X").
    Marker(String),
    /// A store/remove that was made to fail (nothing changed).
    Failed { key: u16 },
}

#[derive(Debug, Clone)]
pub struct KvLogEntry {
    pub t_us: u64,
    pub op: KvOp,
}

#[derive(Default)]
struct Inner {
    initial: BTreeMap<u16, Vec<u8>>,
    map: BTreeMap<u16, Vec<u8>>,
    log: Vec<KvLogEntry>,
    /// Indices (0-based, counted over store+remove calls) of write operations that must fail.
    fail_writes: Vec<usize>,
    /// Fail every write while set.
    fail_all: bool,
    writes: usize,
    loads: usize,
}

/// Shared handle; clones refer to the same store ("the flash chip").
#[derive(Clone, Default)]
pub struct MemKv(Rc<RefCell<Inner>>);

impl MemKv {
    pub fn new() -> Self {
        Self::default()
    }

    /// A store that starts with the given contents (log empty).
    pub fn from_map(map: BTreeMap<u16, Vec<u8>>) -> Self {
        let kv = Self::default();
        {
            let mut g = kv.0.borrow_mut();
            g.initial = map.clone();
            g.map = map;
        }
        kv
    }

    pub fn snapshot(&self) -> BTreeMap<u16, Vec<u8>> {
        self.0.borrow().map.clone()
    }

    pub fn get(&self, key: u16) -> Option<Vec<u8>> {
        self.0.borrow().map.get(&key).cloned()
    }

    pub fn put_raw(&self, key: u16, data: Vec<u8>) {
        let mut g = self.0.borrow_mut();
        g.map.insert(key, data.clone());
        g.log.push(KvLogEntry {
            t_us: clock::now(),
            op: KvOp::Store { key, data },
        });
    }

    pub fn log(&self) -> Vec<KvLogEntry> {
        self.0.borrow().log.clone()
    }

    pub fn log_len(&self) -> usize {
        self.0.borrow().log.len()
    }

    pub fn write_count(&self) -> usize {
        self.0.borrow().writes
    }

    pub fn marker(&self, m: impl Into<String>) {
        self.0.borrow_mut().log.push(KvLogEntry {
            t_us: clock::now(),
            op: KvOp::Marker(m.into()),
        });
    }

    /// Make the `n`-th (0-based) write operation from now on fail.
    pub fn fail_write_at(&self, n: usize) {
        let mut g = self.0.borrow_mut();
        let at = g.writes + n;
        g.fail_writes.push(at);
    }

    /// Forget the injected failures that have not been consumed.
    pub fn clear_fail_writes(&self) {
        self.0.borrow_mut().fail_writes.clear();
    }

    pub fn set_fail_all(&self, f: bool) {
        self.0.borrow_mut().fail_all = f;
    }

    /// The store contents as they were after the first `prefix` log entries.
    pub fn materialize(&self, prefix: usize) -> BTreeMap<u16, Vec<u8>> {
        let g = self.0.borrow();
        let mut map = g.initial.clone();
        for e in g.log.iter().take(prefix) {
            match &e.op {
                KvOp::Store { key, data } => {
                    map.insert(*key, data.clone());
                }
                KvOp::Remove { key } => {
                    map.remove(key);
                }
                KvOp::Marker(_) | KvOp::Failed { .. } => {}
            }
        }
        map
    }

    fn should_fail(g: &mut Inner) -> bool {
        let idx = g.writes;
        g.writes += 1;
        if g.fail_all {
            return true;
        }
        if let Some(pos) = g.fail_writes.iter().position(|&i| i == idx) {
            g.fail_writes.swap_remove(pos);
            return true;
        }
        false
    }
}

impl KvBlobStore for MemKv {
    fn load<'a>(&mut self, key: u16, buf: &'a mut [u8]) -> Result<Option<&'a [u8]>, Error> {
        let mut g = self.0.borrow_mut();
        g.loads += 1;
        match g.map.get(&key) {
            Some(v) => {
                if v.len() > buf.len() {
                    return Err(ErrorCode::NoSpace.into());
                }
                buf[..v.len()].copy_from_slice(v);
                Ok(Some(&buf[..v.len()]))
            }
            None => Ok(None),
        }
    }

    fn store(&mut self, key: u16, data: &[u8], _buf: &mut [u8]) -> Result<(), Error> {
        let mut g = self.0.borrow_mut();
        if Self::should_fail(&mut g) {
            g.log.push(KvLogEntry {
                t_us: clock::now(),
                op: KvOp::Failed { key },
            });
            return Err(ErrorCode::StdIoError.into());
        }
        g.map.insert(key, data.to_vec());
        g.log.push(KvLogEntry {
            t_us: clock::now(),
            op: KvOp::Store {
                key,
                data: data.to_vec(),
            },
        });
        Ok(())
    }

    fn remove(&mut self, key: u16, _buf: &mut [u8]) -> Result<(), Error> {
        let mut g = self.0.borrow_mut();
        if Self::should_fail(&mut g) {
            g.log.push(KvLogEntry {
                t_us: clock::now(),
                op: KvOp::Failed { key },
            });
            return Err(ErrorCode::StdIoError.into());
        }
        g.map.remove(&key);
        g.log.push(KvLogEntry {
            t_us: clock::now(),
            op: KvOp::Remove { key },
        });
        Ok(())
    }
}
