//! Engine E1: deterministic multi-node simulator (virtual clock, executor, network, storage).

pub mod admin;
pub mod adv;
pub mod clock;
pub mod exec;
pub mod fabric;
pub mod grouprx;
pub mod grouptx;
pub mod imdev;
pub mod kv;
pub mod mutate;
pub mod net;
pub mod node;
pub mod nonce;
pub mod rsign;

pub use exec::{Exec, Sched, Stop};
pub use kv::MemKv;
pub use net::Net;

/// Microseconds helpers.
pub const MS: u64 = 1_000;
pub const SEC: u64 = 1_000_000;

/// Reset the per-thread universe at the start of a case.
pub fn reset_universe() {
    clock::reset(1_000_000_000); // start at t = 1000 s so "Instant - x" never underflows
}
