//! A crypto provider whose secret keys sign with *randomised* ECDSA, as the OpenSSL / MbedTLS /
//! hardware back-ends do (the default RustCrypto back-end signs deterministically, RFC 6979, and
//! thereby hides every place that signs the same data twice and expects the same bytes).
//!
//! Randomisation is modelled without an RNG of our own: every other signature `(r, s)` a key
//! hands out is replaced by the equally valid `(r, n - s)`.

use core::cell::Cell;

use rs_matter::crypto::*;
use rs_matter::error::Error;

/// The order `n` of the secp256r1 group, big-endian.
const P256_ORDER: [u8; 32] = [
    0xff, 0xff, 0xff, 0xff, 0x00, 0x00, 0x00, 0x00, 0xff, 0xff, 0xff, 0xff, 0xff, 0xff, 0xff, 0xff, 0xbc, 0xe6, 0xfa,
    0xad, 0xa7, 0x17, 0x9e, 0x84, 0xf3, 0xb9, 0xca, 0xc2, 0xfc, 0x63, 0x25, 0x51,
];

pub struct RandomisedSigning<C> {
    inner: C,
    enabled: bool,
    signatures: Cell<usize>,
}

impl<C> RandomisedSigning<C> {
    pub fn new(inner: C, enabled: bool) -> Self {
        Self { inner, enabled, signatures: Cell::new(0) }
    }

    /// Number of signatures made so far.
    pub fn signatures(&self) -> usize {
        self.signatures.get()
    }
}

pub struct RandomisedSigningKey<'a, K> {
    key: K,
    enabled: bool,
    signatures: &'a Cell<usize>,
}

impl<'a, K> SigningSecretKey<'a, PKC_CANON_PUBLIC_KEY_LEN, PKC_SIGNATURE_LEN> for RandomisedSigningKey<'a, K>
where
    K: SigningSecretKey<'a, PKC_CANON_PUBLIC_KEY_LEN, PKC_SIGNATURE_LEN>,
{
    type PublicKey<'s>
        = K::PublicKey<'s>
    where
        Self: 's;

    fn pub_key(&self) -> Result<Self::PublicKey<'a>, Error> {
        self.key.pub_key()
    }

    fn csr<'s>(&self, buf: &'s mut [u8]) -> Result<&'s [u8], Error> {
        self.key.csr(buf)
    }

    fn sign(&self, data: &[u8], signature: &mut CryptoSensitive<PKC_SIGNATURE_LEN>) -> Result<(), Error> {
        self.key.sign(data, signature)?;
        let count = self.signatures.get();
        self.signatures.set(count + 1);
        if self.enabled && count % 2 == 1 {
            // s := n - s
            let s = &mut signature.access_mut()[32..];
            let mut borrow = 0i16;
            for i in (0..32).rev() {
                let diff = P256_ORDER[i] as i16 - s[i] as i16 - borrow;
                borrow = (diff < 0) as i16;
                s[i] = (diff + 256 * borrow) as u8;
            }
        }
        Ok(())
    }
}

impl<'a, K> SecretKey<'a, PKC_CANON_SECRET_KEY_LEN, PKC_CANON_PUBLIC_KEY_LEN, PKC_SIGNATURE_LEN, PKC_SHARED_SECRET_LEN>
    for RandomisedSigningKey<'a, K>
where
    K: SecretKey<'a, PKC_CANON_SECRET_KEY_LEN, PKC_CANON_PUBLIC_KEY_LEN, PKC_SIGNATURE_LEN, PKC_SHARED_SECRET_LEN>,
{
    fn derive_shared_secret(
        &self,
        peer_pub_key: &Self::PublicKey<'a>,
        shared_secret: &mut CryptoSensitive<PKC_SHARED_SECRET_LEN>,
    ) -> Result<(), Error> {
        self.key.derive_shared_secret(peer_pub_key, shared_secret)
    }

    fn write_canon(&self, key: &mut CryptoSensitive<PKC_CANON_SECRET_KEY_LEN>) -> Result<(), Error> {
        self.key.write_canon(key)
    }
}

impl<C> Crypto for RandomisedSigning<C>
where
    C: Crypto,
{
    type Rand<'a> = C::Rand<'a> where Self: 'a;
    type WeakRand<'a> = C::WeakRand<'a> where Self: 'a;
    type Hash<'a> = C::Hash<'a> where Self: 'a;
    type Hash1<'a> = C::Hash1<'a> where Self: 'a;
    type Hmac<'a> = C::Hmac<'a> where Self: 'a;
    type Kdf<'a> = C::Kdf<'a> where Self: 'a;
    type PbKdf<'a> = C::PbKdf<'a> where Self: 'a;
    type Aead<'a> = C::Aead<'a> where Self: 'a;
    type PublicKey<'a> = C::PublicKey<'a> where Self: 'a;
    type SecretKey<'a> = RandomisedSigningKey<'a, C::SecretKey<'a>> where Self: 'a;
    type SigningSecretKey<'a> = C::SigningSecretKey<'a> where Self: 'a;
    type EcScalar<'a> = C::EcScalar<'a> where Self: 'a;
    type EcPoint<'a> = C::EcPoint<'a> where Self: 'a;

    fn rand(&self) -> Result<Self::Rand<'_>, Error> {
        self.inner.rand()
    }
    fn weak_rand(&self) -> Result<Self::WeakRand<'_>, Error> {
        self.inner.weak_rand()
    }
    fn hash(&self) -> Result<Self::Hash<'_>, Error> {
        self.inner.hash()
    }
    fn hash1(&self) -> Result<Self::Hash1<'_>, Error> {
        self.inner.hash1()
    }
    fn hmac<const KEY_LEN: usize>(&self, key: CryptoSensitiveRef<'_, KEY_LEN>) -> Result<Self::Hmac<'_>, Error> {
        self.inner.hmac(key)
    }
    fn kdf(&self) -> Result<Self::Kdf<'_>, Error> {
        self.inner.kdf()
    }
    fn pbkdf(&self) -> Result<Self::PbKdf<'_>, Error> {
        self.inner.pbkdf()
    }
    fn aead(&self) -> Result<Self::Aead<'_>, Error> {
        self.inner.aead()
    }
    fn pub_key(&self, key: CanonPkcPublicKeyRef<'_>) -> Result<Self::PublicKey<'_>, Error> {
        self.inner.pub_key(key)
    }
    fn secret_key(&self, key: CanonPkcSecretKeyRef<'_>) -> Result<Self::SecretKey<'_>, Error> {
        Ok(RandomisedSigningKey { key: self.inner.secret_key(key)?, enabled: self.enabled, signatures: &self.signatures })
    }
    fn generate_secret_key(&self) -> Result<Self::SecretKey<'_>, Error> {
        Ok(RandomisedSigningKey { key: self.inner.generate_secret_key()?, enabled: self.enabled, signatures: &self.signatures })
    }
    fn singleton_singing_secret_key(&self) -> Result<Self::SigningSecretKey<'_>, Error> {
        self.inner.singleton_singing_secret_key()
    }
    fn ec_scalar(&self, scalar: CanonEcScalarRef<'_>) -> Result<Self::EcScalar<'_>, Error> {
        self.inner.ec_scalar(scalar)
    }
    fn ec_scalar_mod_p(&self, uint: CanonUint320Ref<'_>) -> Result<Self::EcScalar<'_>, Error> {
        self.inner.ec_scalar_mod_p(uint)
    }
    fn generate_ec_scalar(&self) -> Result<Self::EcScalar<'_>, Error> {
        self.inner.generate_ec_scalar()
    }
    fn ec_point(&self, point: CanonEcPointRef<'_>) -> Result<Self::EcPoint<'_>, Error> {
        self.inner.ec_point(point)
    }
    fn ec_generator_point(&self) -> Result<Self::EcPoint<'_>, Error> {
        self.inner.ec_generator_point()
    }
}
