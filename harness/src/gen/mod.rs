//! Reusable input generators (forgers) shared by several property binaries.

pub mod certforge;
