// Part of `certforge.rs` (textually included): chains, deviations and the ground truth.

// ---------------------------------------------------------------------------------------------
// Chain parameters (the "field values" of a valid chain)
// ---------------------------------------------------------------------------------------------

/// The node's notion of time handed to the verifier.
#[derive(Debug, Clone, Copy, PartialEq, Eq, Serialize, Deserialize)]
pub struct NodeTime {
    /// `true`: reliable (synchronised) UTC; `false`: only the last-known-good time
    pub reliable: bool,
    /// Matter-epoch seconds
    pub secs: u64,
    /// sub-second part, microseconds (0..1_000_000)
    pub micros: u32,
}

impl NodeTime {
    pub fn micros_total(&self) -> u64 {
        self.secs
            .saturating_mul(1_000_000)
            .saturating_add((self.micros % 1_000_000) as u64)
    }
}

/// Per-certificate free field values.
#[derive(Debug, Clone, PartialEq, Eq, Serialize, Deserialize)]
pub struct CertValues {
    /// 1..=8 bytes, canonical positive integer
    pub serial: Vec<u8>,
    /// standard (non-Matter) subject attributes, tags 1..=16
    pub extra_subject: Vec<DnAttr>,
    /// put the standard attributes before the Matter identifiers
    pub extra_first: bool,
    /// not-before = node time - before (saturating at 0)
    pub before: u32,
    /// not-after = node time + after; `None` = 0 = "no expiry"
    pub after: Option<u32>,
    /// a non-critical unknown extension (valid chains never carry a critical one)
    pub future_ext: Option<FutureExt>,
    /// rotation of the extension list (extension order is free)
    pub ext_rot: u8,
    /// encode key usage as a 2-byte integer
    pub ku_two_bytes: bool,
}

#[derive(Debug, Clone, PartialEq, Eq, Serialize, Deserialize)]
pub struct ChainParams {
    pub with_icac: bool,
    pub root_seed: [u8; 32],
    pub ica_seed: [u8; 32],
    pub leaf_seed: [u8; 32],
    /// an unrelated key (wrong signer, second root, second leaf)
    pub stranger_seed: [u8; 32],
    /// the fabric the chain is used for (non-zero)
    pub fabric_id: u64,
    /// operational node id (1..=0xFFFF_FFEF_FFFF_FFFF)
    pub node_id: u64,
    /// CASE authenticated tags of the leaf (0..=3, version != 0)
    pub cats: Vec<u32>,
    pub rcac_id: u64,
    pub icac_id: u64,
    /// RCAC / ICAC subject carries the (same) fabric id
    pub root_fabric_id: bool,
    pub ica_fabric_id: bool,
    /// RCAC path length = number of intermediates + slack (`None`: absent)
    pub root_path_slack: Option<u8>,
    /// ICAC path length (any value is within the limit: nothing but the leaf follows)
    pub ica_path_len: Option<u8>,
    /// CA key usage additionally asserts digitalSignature (allowed by the Matter profile)
    pub root_ku_dig_sig: bool,
    pub ica_ku_dig_sig: bool,
    /// leaf extended key usage listed as [clientAuth, serverAuth] instead of [server, client]
    pub eku_swapped: bool,
    pub ids_min_width: bool,
    pub time: NodeTime,
    pub root: CertValues,
    pub ica: CertValues,
    pub leaf: CertValues,
}

// ---------------------------------------------------------------------------------------------
// Deviations
// ---------------------------------------------------------------------------------------------

#[derive(Debug, Clone, Copy, PartialEq, Eq, Serialize, Deserialize)]
pub enum Pos {
    Leaf,
    /// the intermediate; resolves to `Root` in a chain without intermediate
    Ica,
    Root,
}

#[derive(Debug, Clone, Copy, PartialEq, Eq, Serialize, Deserialize)]
pub enum DnEdit {
    /// change the value of attribute `sel`
    ChangeValue,
    /// drop attribute `sel`
    Drop,
    /// append one more attribute
    Add,
    /// swap attribute `sel` with its successor
    Reorder,
    /// RCAC-id <-> ICAC-id, or another X.520 attribute type
    ChangeTag,
}

#[derive(Debug, Clone, Copy, PartialEq, Eq, Serialize, Deserialize)]
pub enum TamperField {
    Serial,
    SubjectId,
    NotAfter,
    PublicKey,
}

#[derive(Debug, Clone, Copy, PartialEq, Eq, Serialize, Deserialize)]
pub enum EkuDrop {
    ServerAuth,
    ClientAuth,
    Both,
    Absent,
    /// the list has two entries, but one prescribed purpose is repeated and the other missing
    ServerAuthTwice,
    ClientAuthTwice,
    /// one prescribed purpose replaced by another one (codeSigning)
    ServerAuthReplaced,
    ClientAuthReplaced,
}

/// One respect in which a chain deviates from a valid one.
#[derive(Debug, Clone, Copy, PartialEq, Eq, Serialize, Deserialize)]
pub enum Deviation {
    // ---- signature --------------------------------------------------------------------
    /// one bit of the signature of `pos` flipped
    SigBitFlip { pos: Pos, bit: u16 },
    /// `pos` signed by an unrelated key (all names and key identifiers still match)
    SignedByStranger { pos: Pos },
    /// one signed field of `pos` altered after signing
    TamperAfterSigning { pos: Pos, field: TamperField },
    // ---- names ------------------------------------------------------------------------
    /// issuer DN of `pos` differs in one attribute from the subject DN of its signer
    /// (properly re-signed, key identifiers intact)
    IssuerAttr { pos: Pos, how: DnEdit, sel: u16 },
    /// subject DN of the authority `pos` (Ica/Root) changed in one attribute; the
    /// certificates it issued still name the old subject
    AuthoritySubjectAttr { pos: Pos, how: DnEdit, sel: u16 },
    // ---- dates ------------------------------------------------------------------------
    Expired { pos: Pos, by: u32 },
    NotYetValid { pos: Pos, by: u32 },
    // ---- extension flags --------------------------------------------------------------
    LeafCaFlag,
    LeafNoDigitalSignature,
    LeafEku { drop: EkuDrop },
    LeafNoKeyUsage,
    LeafNoBasicConstraints,
    AuthorityNotCa { pos: Pos },
    AuthorityNoBasicConstraints { pos: Pos },
    AuthorityNoCertSign { pos: Pos },
    AuthorityNoKeyUsage { pos: Pos },
    /// RCAC path length 0 although an ICAC follows
    PathLenZeroWithIca,
    CriticalUnknownExt {
        pos: Pos,
        explicit_false_first: bool,
        /// the critical extension sits in a `future-extensions` element of its own, AFTER an
        /// element holding a harmless non-critical one (a certificate may carry several)
        #[serde(default)]
        separate_element: bool,
    },
    AkidMismatch { pos: Pos },
    AkidAbsent { pos: Pos },
    SkidAbsent { pos: Pos },
    // ---- identifiers of the leaf ------------------------------------------------------
    LeafNoNodeId,
    LeafNoFabricId,
    /// the leaf's fabric id is not the one of the fabric the chain is used for
    LeafOtherFabric,
    /// ICAC/RCAC carries a fabric id different from the leaf's
    AuthorityOtherFabric { pos: Pos },
    /// A consistent chain of ANOTHER fabric B under the same root: the ICAC and the leaf both
    /// carry fabric id B, everything links up; the root is shared by the fabrics (it carries
    /// no fabric id, or the id of fabric A when `root_names_a`)
    ConsistentForeignFabric { root_names_a: bool },
    /// The ICAC carries a foreign fabric id B while the leaf carries the right one (A)
    IcacForeignFabric,
    // ---- chain structure --------------------------------------------------------------
    SwapLeafAndIca,
    SwapIcaAndRoot,
    RepeatLeaf,
    RepeatIca,
    RepeatRoot,
    OmitIca,
    OmitRoot,
    /// the chain is consistent, but under a different self-signed root than the trusted one
    UntrustedRoot { same_skid: bool },
    /// the trusted root's own signature was not made by its own key
    RootNotSelfSigned,
    /// the leaf is signed by another leaf (a NOC used as authority)
    LeafAsAuthority,
    /// a CA certificate (ICAC profile) presented in the leaf position
    CaAsLeaf { with_node_id: bool },
}

impl Deviation {
    /// Some deviations only make sense with (or without) an intermediate and override
    /// `ChainParams::with_icac`.
    pub fn forces_icac(&self) -> Option<bool> {
        use Deviation::*;
        match self {
            PathLenZeroWithIca | SwapLeafAndIca | SwapIcaAndRoot | RepeatIca | OmitIca => Some(true),
            ConsistentForeignFabric { .. } | IcacForeignFabric => Some(true),
            LeafAsAuthority => Some(false),
            _ => None,
        }
    }

    /// Field-level deviations can be combined freely (structure-level ones cannot).
    pub fn is_field_level(&self) -> bool {
        use Deviation::*;
        !matches!(
            self,
            SwapLeafAndIca
                | SwapIcaAndRoot
                | RepeatLeaf
                | RepeatIca
                | RepeatRoot
                | OmitIca
                | OmitRoot
                | UntrustedRoot { .. }
                | LeafAsAuthority
                | CaAsLeaf { .. }
                | PathLenZeroWithIca
                | ConsistentForeignFabric { .. }
                | IcacForeignFabric
        )
    }

    /// Deviations of the same group may cancel each other; a combination takes at most one
    /// deviation per group.
    pub fn group(&self) -> &'static str {
        use Deviation::*;
        match self {
            Expired { .. } | NotYetValid { .. } => "date",
            IssuerAttr { .. } | AuthoritySubjectAttr { .. } | AuthorityOtherFabric { .. } => "name",
            d => d.name(),
        }
    }

    /// Short stable name, used in labels and signatures.
    pub fn name(&self) -> &'static str {
        use Deviation::*;
        match self {
            SigBitFlip { .. } => "sig-bit-flip",
            SignedByStranger { .. } => "signed-by-stranger",
            TamperAfterSigning { .. } => "tamper-after-signing",
            IssuerAttr { .. } => "issuer-attr",
            AuthoritySubjectAttr { .. } => "authority-subject-attr",
            Expired { .. } => "expired",
            NotYetValid { .. } => "not-yet-valid",
            LeafCaFlag => "leaf-ca-flag",
            LeafNoDigitalSignature => "leaf-no-digital-signature",
            LeafEku { .. } => "leaf-eku",
            LeafNoKeyUsage => "leaf-no-key-usage",
            LeafNoBasicConstraints => "leaf-no-basic-constraints",
            AuthorityNotCa { .. } => "authority-not-ca",
            AuthorityNoBasicConstraints { .. } => "authority-no-basic-constraints",
            AuthorityNoCertSign { .. } => "authority-no-cert-sign",
            AuthorityNoKeyUsage { .. } => "authority-no-key-usage",
            PathLenZeroWithIca => "path-len-zero-with-ica",
            CriticalUnknownExt { .. } => "critical-unknown-ext",
            AkidMismatch { .. } => "akid-mismatch",
            AkidAbsent { .. } => "akid-absent",
            SkidAbsent { .. } => "skid-absent",
            LeafNoNodeId => "leaf-no-node-id",
            LeafNoFabricId => "leaf-no-fabric-id",
            LeafOtherFabric => "leaf-other-fabric",
            AuthorityOtherFabric { .. } => "authority-other-fabric",
            ConsistentForeignFabric { .. } => "consistent-foreign-fabric",
            IcacForeignFabric => "icac-foreign-fabric",
            SwapLeafAndIca => "swap-leaf-ica",
            SwapIcaAndRoot => "swap-ica-root",
            RepeatLeaf => "repeat-leaf",
            RepeatIca => "repeat-ica",
            RepeatRoot => "repeat-root",
            OmitIca => "omit-ica",
            OmitRoot => "omit-root",
            UntrustedRoot { .. } => "untrusted-root",
            RootNotSelfSigned => "root-not-self-signed",
            LeafAsAuthority => "leaf-as-authority",
            CaAsLeaf { .. } => "ca-as-leaf",
        }
    }
}

// ---------------------------------------------------------------------------------------------
// Ground truth
// ---------------------------------------------------------------------------------------------

#[derive(Debug, Clone, Copy, PartialEq, Eq)]
pub enum Expect {
    Accept,
    Reject,
    /// the property statement does not decide
    Either,
}

impl Expect {
    fn and(self, o: Expect) -> Expect {
        match (self, o) {
            (Expect::Reject, _) | (_, Expect::Reject) => Expect::Reject,
            (Expect::Either, _) | (_, Expect::Either) => Expect::Either,
            _ => Expect::Accept,
        }
    }
}

/// The verdict the property statement assigns to a forged chain, per interface:
/// * `chain`: `verify_chain_start -> add_cert* -> finalise` (no notion of a fabric);
/// * `case`: chain validation of a CASE peer against an existing fabric;
/// * `add_noc` / `update_noc`: the credential-installing commands (on top: the public key
///   and existing-fabric rules, which the caller of the forger decides).
#[derive(Debug, Clone, Copy, PartialEq, Eq)]
pub struct Truth {
    /// name of the (first) violated rule, `"valid"` if none
    pub rule: &'static str,
    pub chain: Expect,
    pub case: Expect,
    pub add_noc: Expect,
    pub update_noc: Expect,
}

impl Truth {
    pub const VALID: Truth = Truth {
        rule: "valid",
        chain: Expect::Accept,
        case: Expect::Accept,
        add_noc: Expect::Accept,
        update_noc: Expect::Accept,
    };

    fn all(rule: &'static str, e: Expect) -> Truth {
        Truth {
            rule,
            chain: e,
            case: e,
            add_noc: e,
            update_noc: e,
        }
    }

    fn combine(self, o: Truth) -> Truth {
        Truth {
            rule: if self.rule == "valid" || (self.chain != Expect::Reject && o.chain == Expect::Reject) {
                o.rule
            } else {
                self.rule
            },
            chain: self.chain.and(o.chain),
            case: self.case.and(o.case),
            add_noc: self.add_noc.and(o.add_noc),
            update_noc: self.update_noc.and(o.update_noc),
        }
    }
}

/// A forged chain as presented to the verifier.
#[derive(Debug, Clone)]
pub struct ForgedChain {
    /// certificate presented as the leaf
    pub leaf: Vec<u8>,
    /// certificates presented between leaf and root, leaf side first (0..=2)
    pub inter: Vec<Vec<u8>>,
    /// certificate presented as (= trusted as) the root
    pub root: Vec<u8>,
    pub truth: Truth,
    pub time: NodeTime,
    /// the fabric the chain is meant to be used for
    pub fabric_id: u64,
    pub node_id: u64,
    pub with_icac: bool,
    /// `false` when the presentation needs the sequence interface (more than one intermediate
    /// or a non-root at the end) and cannot be expressed as (noc, icac?, trusted root)
    pub role_based: bool,
    /// sizes, for diagnostics
    pub der_note: String,
}

impl ForgedChain {
    pub fn icac(&self) -> Option<&[u8]> {
        self.inter.first().map(|v| v.as_slice())
    }
}

// ---------------------------------------------------------------------------------------------
// Forging
// ---------------------------------------------------------------------------------------------

fn validity(t: &NodeTime, v: &CertValues) -> (u32, u32) {
    let tt = t.secs.min(u32::MAX as u64) as u32;
    let nb = tt.saturating_sub(v.before);
    let na = match v.after {
        None => 0,
        Some(a) => {
            let x = t.secs.saturating_add(a as u64);
            if x > u32::MAX as u64 || x == 0 {
                0
            } else {
                x as u32
            }
        }
    };
    (nb, na)
}

fn subject_of(ids: Vec<DnAttr>, v: &CertValues) -> Vec<DnAttr> {
    let mut extras: Vec<DnAttr> = v
        .extra_subject
        .iter()
        .filter(|a| (1..=16).contains(&a.tag) && matches!(a.value, DnValue::Str(_)))
        .cloned()
        .collect();
    if v.extra_first {
        extras.extend(ids);
        extras
    } else {
        let mut s = ids;
        s.append(&mut extras);
        s
    }
}

fn rotate(mut exts: Vec<Ext>, rot: u8) -> Vec<Ext> {
    if !exts.is_empty() {
        let n = exts.len();
        exts.rotate_left(rot as usize % n);
    }
    exts
}

fn ca_exts(v: &CertValues, path_len: Option<u8>, dig_sig: bool, skid: &[u8; 20], akid: &[u8; 20]) -> Vec<Ext> {
    let mut exts = vec![
        Ext::BasicConstraints {
            is_ca: true,
            path_len,
        },
        Ext::KeyUsage {
            bits: ku::KEY_CERT_SIGN | ku::CRL_SIGN | if dig_sig { ku::DIGITAL_SIGNATURE } else { 0 },
            two_bytes: v.ku_two_bytes,
        },
        Ext::SubjectKeyId(skid.to_vec()),
        Ext::AuthorityKeyId(akid.to_vec()),
    ];
    if let Some(f) = &v.future_ext {
        exts.push(Ext::Future(vec![noncritical(f)]));
    }
    rotate(exts, v.ext_rot)
}

fn leaf_exts(v: &CertValues, eku_swapped: bool, skid: &[u8; 20], akid: &[u8; 20]) -> Vec<Ext> {
    let mut exts = vec![
        Ext::BasicConstraints {
            is_ca: false,
            path_len: None,
        },
        Ext::KeyUsage {
            bits: ku::DIGITAL_SIGNATURE,
            two_bytes: v.ku_two_bytes,
        },
        Ext::ExtKeyUsage(if eku_swapped { vec![2, 1] } else { vec![1, 2] }),
        Ext::SubjectKeyId(skid.to_vec()),
        Ext::AuthorityKeyId(akid.to_vec()),
    ];
    if let Some(f) = &v.future_ext {
        exts.push(Ext::Future(vec![noncritical(f)]));
    }
    rotate(exts, v.ext_rot)
}

/// Unknown extension with an OID that is none of the known ones and never critical.
fn noncritical(f: &FutureExt) -> FutureExt {
    FutureExt {
        oid_arc: unknown_arc(f.oid_arc),
        critical: match f.critical {
            Some(true) => Some(false),
            c => c,
        },
        value: f.value[..f.value.len().min(6)].to_vec(),
    }
}

fn unknown_arc(a: u8) -> u8 {
    // 2.5.29.64 ..= 2.5.29.127: no standard extension lives there
    0x40 | (a & 0x3f)
}

fn edit_dn(dn: &mut Vec<DnAttr>, how: DnEdit, sel: u16) {
    let orig = dn.clone();
    let idx = crate::util::pick(sel, dn.len());
    match how {
        DnEdit::ChangeValue if !dn.is_empty() => match &mut dn[idx].value {
            DnValue::U64(v) => *v ^= 1,
            DnValue::U32(v) => *v ^= 1,
            DnValue::Str(s) => {
                let last = s.pop().unwrap_or('a');
                s.push(if last == 'x' { 'y' } else { 'x' });
            }
        },
        DnEdit::Drop if !dn.is_empty() => {
            dn.remove(idx);
        }
        DnEdit::Reorder if dn.len() >= 2 => {
            let i = idx.min(dn.len() - 2);
            dn.swap(i, i + 1);
        }
        DnEdit::ChangeTag if !dn.is_empty() => {
            let a = &mut dn[idx];
            a.tag = match (&a.value, a.tag) {
                (DnValue::Str(_), t) => (t % 15) + 1, // stays within 1..=15, always different
                (_, dn_tag::RCAC_ID) => dn_tag::ICAC_ID,
                (_, dn_tag::ICAC_ID) => dn_tag::RCAC_ID,
                (_, dn_tag::FABRIC_ID) => dn_tag::FIRMWARE_SIGNING_ID,
                (_, t) => t,
            };
        }
        _ => {}
    }
    if *dn == orig {
        dn.push(DnAttr::text(dn_tag::NAME, false, "forged"));
    }
}

fn foreign_fabric(a: u64) -> u64 {
    match a ^ 0x20 {
        0 => 0x21,
        v => v,
    }
}

fn set_fabric(dn: &mut Vec<DnAttr>, fabric_id: u64) {
    let attr = DnAttr::id(dn_tag::FABRIC_ID, fabric_id);
    if let Some(a) = dn.iter_mut().find(|a| a.tag == dn_tag::FABRIC_ID) {
        *a = attr;
    } else {
        dn.push(attr);
    }
}

/// An ICAC that carries a fabric id must carry the one of the NOC it issued (Matter Core
/// spec, operational certificate DN rules; CASE checks it while validating the peer's chain).
/// The bare sequence interface and the installing commands are left undecided.
fn icac_fabric_mismatch() -> Truth {
    Truth {
        rule: "authority-fabric-id",
        chain: Expect::Either,
        case: Expect::Reject,
        add_noc: Expect::Either,
        update_noc: Expect::Either,
    }
}

struct Slot {
    spec: CertSpec,
    signer: Key,
}

fn resolve(pos: Pos, with_icac: bool) -> Pos {
    if pos == Pos::Ica && !with_icac {
        Pos::Root
    } else {
        pos
    }
}

fn authority(pos: Pos, with_icac: bool) -> Pos {
    match resolve(pos, with_icac) {
        Pos::Leaf => {
            if with_icac {
                Pos::Ica
            } else {
                Pos::Root
            }
        }
        p => p,
    }
}

/// Forge a chain from `p`, deviating from the valid chain in every respect listed in `devs`
/// (usually zero or one). `leaf_pubkey` overrides the leaf's public key (credential
/// installation: the key of the node's CSR).
pub fn forge<C: Crypto>(
    crypto: &C,
    p: &ChainParams,
    devs: &[Deviation],
    leaf_pubkey: Option<&[u8; 65]>,
) -> Result<ForgedChain, ForgeError> {
    let mut with_icac = p.with_icac;
    for d in devs {
        if let Some(f) = d.forces_icac() {
            with_icac = f;
        }
    }
    let t = p.time;

    // the four keys are pairwise distinct by construction (two bits of the seed name the role)
    let role = |seed: &[u8; 32], r: u8| {
        let mut s = *seed;
        s[30] = (s[30] & 0xfc) | r;
        s
    };
    let root_k = key_from_seed(crypto, &role(&p.root_seed, 0))?;
    let ica_k = key_from_seed(crypto, &role(&p.ica_seed, 1))?;
    let stranger_k = key_from_seed(crypto, &role(&p.stranger_seed, 3))?;
    let own_leaf_k = key_from_seed(crypto, &role(&p.leaf_seed, 2))?;
    let mut leaf_k = own_leaf_k.clone();
    if let Some(pk) = leaf_pubkey {
        leaf_k.public = *pk;
        leaf_k.id = key_id(crypto, pk)?;
    }

    // --- the valid chain -------------------------------------------------------------
    let mut root_ids = vec![DnAttr::id(dn_tag::RCAC_ID, p.rcac_id)];
    if p.root_fabric_id {
        root_ids.push(DnAttr::id(dn_tag::FABRIC_ID, p.fabric_id));
    }
    let root_subject = subject_of(root_ids, &p.root);

    let mut ica_ids = vec![DnAttr::id(dn_tag::ICAC_ID, p.icac_id)];
    if p.ica_fabric_id {
        ica_ids.push(DnAttr::id(dn_tag::FABRIC_ID, p.fabric_id));
    }
    let ica_subject = subject_of(ica_ids, &p.ica);

    let mut leaf_ids = vec![
        DnAttr::id(dn_tag::NODE_ID, p.node_id),
        DnAttr::id(dn_tag::FABRIC_ID, p.fabric_id),
    ];
    for c in p.cats.iter().take(3) {
        leaf_ids.push(DnAttr::cat(*c));
    }
    let leaf_subject = subject_of(leaf_ids, &p.leaf);

    let needed = if with_icac { 1u8 } else { 0 };
    let mk = |v: &CertValues, issuer: &Vec<DnAttr>, subject: &Vec<DnAttr>, key: &Key, exts: Vec<Ext>| {
        let (nb, na) = validity(&t, v);
        let mut serial: Vec<u8> = v.serial.iter().take(8).copied().collect();
        if serial.is_empty() {
            serial.push(1);
        }
        serial[0] = (serial[0] & 0x7f).max(1);
        CertSpec {
            serial,
            sig_algo: 1,
            issuer: issuer.clone(),
            not_before: nb,
            not_after: na,
            subject: subject.clone(),
            pubkey_algo: 1,
            curve: 1,
            pubkey: key.public.to_vec(),
            exts,
            ids_min_width: p.ids_min_width,
        }
    };

    let mut root = Slot {
        spec: mk(
            &p.root,
            &root_subject,
            &root_subject,
            &root_k,
            ca_exts(
                &p.root,
                p.root_path_slack.map(|s| needed.saturating_add(s)),
                p.root_ku_dig_sig,
                &root_k.id,
                &root_k.id,
            ),
        ),
        signer: root_k.clone(),
    };
    let mut ica = Slot {
        spec: mk(
            &p.ica,
            &root_subject,
            &ica_subject,
            &ica_k,
            ca_exts(&p.ica, p.ica_path_len, p.ica_ku_dig_sig, &ica_k.id, &root_k.id),
        ),
        signer: root_k.clone(),
    };
    let (leaf_issuer, leaf_issuer_k) = if with_icac {
        (&ica_subject, &ica_k)
    } else {
        (&root_subject, &root_k)
    };
    let mut leaf = Slot {
        spec: mk(
            &p.leaf,
            leaf_issuer,
            &leaf_subject,
            &leaf_k,
            leaf_exts(&p.leaf, p.eku_swapped, &leaf_k.id, &leaf_issuer_k.id),
        ),
        signer: leaf_issuer_k.clone(),
    };

    // --- deviations ------------------------------------------------------------------
    let mut truth = Truth::VALID;
    // boundary: not-after falls into the node's current second but the sub-second part is > 0
    if t.micros % 1_000_000 != 0 {
        let at_edge = |v: &CertValues| v.after == Some(0) && t.secs <= u32::MAX as u64;
        if at_edge(&p.leaf) || at_edge(&p.root) || (with_icac && at_edge(&p.ica)) {
            truth = truth.combine(Truth::all("valid", Expect::Either));
        }
    }

    let mut sig_flips: Vec<(Pos, u16)> = Vec::new();
    let mut tampers: Vec<(Pos, TamperField)> = Vec::new();
    #[derive(PartialEq)]
    enum Present {
        Normal,
        SwapLeafIca,
        SwapIcaRoot,
        RepeatLeaf,
        RepeatIca,
        RepeatRoot,
        OmitIca,
        OmitRoot,
        LeafAsAuthority,
    }
    let mut present = Present::Normal;
    let mut other_root: Option<Slot> = None;
    let mut second_leaf: Option<Slot> = None;
    let mut presented_node_id = p.node_id;

    for d in devs {
        use Deviation::*;
        let tr: Truth = match *d {
            SigBitFlip { pos, bit } => {
                sig_flips.push((resolve(pos, with_icac), bit));
                Truth::all("signature", Expect::Reject)
            }
            SignedByStranger { pos } => {
                match resolve(pos, with_icac) {
                    Pos::Leaf => leaf.signer = stranger_k.clone(),
                    Pos::Ica => ica.signer = stranger_k.clone(),
                    Pos::Root => root.signer = stranger_k.clone(),
                }
                Truth::all(
                    if resolve(pos, with_icac) == Pos::Root {
                        "root-self-signed"
                    } else {
                        "signature"
                    },
                    Expect::Reject,
                )
            }
            TamperAfterSigning { pos, field } => {
                tampers.push((resolve(pos, with_icac), field));
                Truth::all("signature", Expect::Reject)
            }
            IssuerAttr { pos, how, sel } => {
                match resolve(pos, with_icac) {
                    Pos::Leaf => edit_dn(&mut leaf.spec.issuer, how, sel),
                    Pos::Ica => edit_dn(&mut ica.spec.issuer, how, sel),
                    Pos::Root => edit_dn(&mut root.spec.issuer, how, sel),
                }
                Truth::all("issuer-subject-link", Expect::Reject)
            }
            AuthoritySubjectAttr { pos, how, sel } => {
                match authority(pos, with_icac) {
                    Pos::Ica => edit_dn(&mut ica.spec.subject, how, sel),
                    _ => {
                        edit_dn(&mut root.spec.subject, how, sel);
                        // the root stays self-consistent; its children name the old subject
                        root.spec.issuer = root.spec.subject.clone();
                    }
                }
                Truth::all("issuer-subject-link", Expect::Reject)
            }
            Expired { pos, by } => {
                if t.secs < 2 {
                    return Err(ForgeError::NotApplicable("no earlier date"));
                }
                let latest = (t.secs - 1).min(u32::MAX as u64) as u32; // strictly before now
                let na = latest.saturating_sub(by.saturating_sub(1)).max(1);
                let s = match resolve(pos, with_icac) {
                    Pos::Leaf => &mut leaf.spec,
                    Pos::Ica => &mut ica.spec,
                    Pos::Root => &mut root.spec,
                };
                s.not_after = na;
                s.not_before = s.not_before.min(na);
                Truth::all("validity-not-after", Expect::Reject)
            }
            NotYetValid { pos, by } => {
                if t.secs >= u32::MAX as u64 {
                    return Err(ForgeError::NotApplicable("no later date"));
                }
                let room = u32::MAX - t.secs as u32; // >= 1
                let nb = t.secs as u32 + 1 + (by.saturating_sub(1) % room);
                let s = match resolve(pos, with_icac) {
                    Pos::Leaf => &mut leaf.spec,
                    Pos::Ica => &mut ica.spec,
                    Pos::Root => &mut root.spec,
                };
                s.not_before = nb;
                if s.not_after != 0 && s.not_after < nb {
                    s.not_after = 0;
                }
                // With only a last-known-good time the node may be behind real time: the
                // statement does not decide whether a "future" certificate is refused.
                Truth::all(
                    "validity-not-before",
                    if t.reliable { Expect::Reject } else { Expect::Either },
                )
            }
            LeafCaFlag => {
                if let Some(Ext::BasicConstraints { is_ca, .. }) = leaf.spec.ext_mut(is_bc) {
                    *is_ca = true;
                }
                Truth::all("leaf-non-ca", Expect::Reject)
            }
            LeafNoDigitalSignature => {
                if let Some(Ext::KeyUsage { bits, .. }) = leaf.spec.ext_mut(is_ku) {
                    *bits = (*bits & !ku::DIGITAL_SIGNATURE) | ku::KEY_AGREEMENT;
                }
                Truth::all("leaf-key-usage", Expect::Reject)
            }
            LeafEku { drop } => {
                match drop {
                    EkuDrop::Absent => leaf.spec.remove_ext(is_eku),
                    _ => {
                        if let Some(Ext::ExtKeyUsage(l)) = leaf.spec.ext_mut(is_eku) {
                            match drop {
                                EkuDrop::ServerAuth => l.retain(|v| *v != 1),
                                EkuDrop::ClientAuth => l.retain(|v| *v != 2),
                                EkuDrop::ServerAuthTwice => *l = vec![1, 1],
                                EkuDrop::ClientAuthTwice => *l = vec![2, 2],
                                EkuDrop::ServerAuthReplaced => l.iter_mut().for_each(|v| if *v == 1 { *v = 3 }),
                                EkuDrop::ClientAuthReplaced => l.iter_mut().for_each(|v| if *v == 2 { *v = 3 }),
                                _ => l.clear(),
                            }
                        }
                    }
                }
                Truth::all("leaf-ext-key-usage", Expect::Reject)
            }
            LeafNoKeyUsage => {
                leaf.spec.remove_ext(is_ku);
                Truth::all("leaf-key-usage", Expect::Reject)
            }
            LeafNoBasicConstraints => {
                leaf.spec.remove_ext(is_bc);
                // X.509: absent basic constraints = not a CA; the Matter profile wants the
                // extension present. The statement only says "non-CA".
                Truth::all("leaf-basic-constraints-absent", Expect::Either)
            }
            AuthorityNotCa { pos } => {
                let s = if authority(pos, with_icac) == Pos::Ica { &mut ica.spec } else { &mut root.spec };
                if let Some(Ext::BasicConstraints { is_ca, path_len }) = s.ext_mut(is_bc) {
                    *is_ca = false;
                    *path_len = None;
                }
                Truth::all("authority-ca", Expect::Reject)
            }
            AuthorityNoBasicConstraints { pos } => {
                let s = if authority(pos, with_icac) == Pos::Ica { &mut ica.spec } else { &mut root.spec };
                s.remove_ext(is_bc);
                Truth::all("authority-ca", Expect::Reject)
            }
            AuthorityNoCertSign { pos } => {
                let s = if authority(pos, with_icac) == Pos::Ica { &mut ica.spec } else { &mut root.spec };
                if let Some(Ext::KeyUsage { bits, .. }) = s.ext_mut(is_ku) {
                    *bits &= !ku::KEY_CERT_SIGN;
                }
                Truth::all("authority-key-usage", Expect::Reject)
            }
            AuthorityNoKeyUsage { pos } => {
                let s = if authority(pos, with_icac) == Pos::Ica { &mut ica.spec } else { &mut root.spec };
                s.remove_ext(is_ku);
                Truth::all("authority-key-usage", Expect::Reject)
            }
            PathLenZeroWithIca => {
                if let Some(Ext::BasicConstraints { path_len, .. }) = root.spec.ext_mut(is_bc) {
                    *path_len = Some(0);
                }
                Truth::all("path-length", Expect::Reject)
            }
            CriticalUnknownExt { pos, explicit_false_first, separate_element } => {
                let s = match resolve(pos, with_icac) {
                    Pos::Leaf => &mut leaf.spec,
                    Pos::Ica => &mut ica.spec,
                    Pos::Root => &mut root.spec,
                };
                let crit = FutureExt {
                    oid_arc: unknown_arc(0x23),
                    critical: Some(true),
                    value: vec![],
                };
                let mut list = Vec::new();
                if explicit_false_first {
                    list.push(FutureExt {
                        oid_arc: unknown_arc(0x24),
                        critical: Some(false),
                        value: vec![],
                    });
                }
                if separate_element {
                    if s.ext_mut(is_future).is_none() {
                        s.exts.push(Ext::Future(vec![FutureExt {
                            oid_arc: unknown_arc(0x25),
                            critical: None,
                            value: vec![],
                        }]));
                    }
                    list.push(crit);
                    s.exts.push(Ext::Future(list));
                } else {
                    list.push(crit);
                    if let Some(Ext::Future(l)) = s.ext_mut(is_future) {
                        if explicit_false_first {
                            // size budget: the non-critical neighbour is already in `list`
                            l.clear();
                        }
                        l.extend(list);
                    } else {
                        s.exts.push(Ext::Future(list));
                    }
                }
                Truth::all("critical-extension", Expect::Reject)
            }
            AkidMismatch { pos } => {
                let s = match resolve(pos, with_icac) {
                    Pos::Leaf => &mut leaf.spec,
                    Pos::Ica => &mut ica.spec,
                    Pos::Root => &mut root.spec,
                };
                if let Some(Ext::AuthorityKeyId(id)) = s.ext_mut(is_akid) {
                    id[0] ^= 0x01;
                }
                // The statement names signature and issuer/subject linkage, not key identifiers.
                Truth::all("authority-key-id", Expect::Either)
            }
            AkidAbsent { pos } => {
                let s = match resolve(pos, with_icac) {
                    Pos::Leaf => &mut leaf.spec,
                    Pos::Ica => &mut ica.spec,
                    Pos::Root => &mut root.spec,
                };
                s.remove_ext(is_akid);
                Truth::all("authority-key-id", Expect::Either)
            }
            SkidAbsent { pos } => {
                let s = if authority(pos, with_icac) == Pos::Ica { &mut ica.spec } else { &mut root.spec };
                s.remove_ext(is_skid);
                Truth::all("subject-key-id", Expect::Either)
            }
            LeafNoNodeId => {
                leaf.spec.subject.retain(|a| a.tag != dn_tag::NODE_ID);
                Truth::all("leaf-node-id", Expect::Reject)
            }
            LeafNoFabricId => {
                leaf.spec.subject.retain(|a| a.tag != dn_tag::FABRIC_ID);
                Truth {
                    rule: "leaf-fabric-id",
                    chain: Expect::Either, // the sequence interface has no notion of a fabric
                    case: Expect::Reject,
                    add_noc: Expect::Reject,
                    update_noc: Expect::Reject,
                }
            }
            LeafOtherFabric => {
                for a in leaf.spec.subject.iter_mut() {
                    if a.tag == dn_tag::FABRIC_ID {
                        a.value = DnValue::U64(match p.fabric_id ^ 0x10 {
                            0 => 0x11,
                            v => v,
                        });
                    }
                }
                let authority_names_fabric = p.root_fabric_id || (with_icac && p.ica_fabric_id);
                Truth {
                    rule: "leaf-fabric-id",
                    chain: Expect::Either,
                    case: Expect::Reject,
                    // AddNOC creates the fabric the leaf names; only a clash with a fabric id
                    // carried by an authority is left, on which the statement is silent
                    add_noc: if authority_names_fabric { Expect::Either } else { Expect::Accept },
                    update_noc: Expect::Reject,
                }
            }
            AuthorityOtherFabric { pos } => {
                let (s, is_ica) = if authority(pos, with_icac) == Pos::Ica {
                    (&mut ica.spec, true)
                } else {
                    (&mut root.spec, false)
                };
                let other = DnAttr::id(dn_tag::FABRIC_ID, match p.fabric_id ^ 0x20 {
                    0 => 0x21,
                    v => v,
                });
                let old_subject = s.subject.clone();
                if let Some(a) = s.subject.iter_mut().find(|a| a.tag == dn_tag::FABRIC_ID) {
                    *a = other;
                } else {
                    s.subject.push(other);
                }
                // keep issuer/subject linkage intact everywhere
                let new_subject = s.subject.clone();
                if is_ica {
                    if leaf.spec.issuer == old_subject {
                        leaf.spec.issuer = new_subject;
                    }
                } else {
                    if root.spec.issuer == old_subject {
                        root.spec.issuer = new_subject.clone();
                    }
                    if ica.spec.issuer == old_subject {
                        ica.spec.issuer = new_subject.clone();
                    }
                    if !with_icac && leaf.spec.issuer == old_subject {
                        leaf.spec.issuer = new_subject;
                    }
                }
                if is_ica {
                    icac_fabric_mismatch()
                } else {
                    Truth::all("authority-fabric-id", Expect::Either)
                }
            }
            ConsistentForeignFabric { root_names_a } => {
                let b = foreign_fabric(p.fabric_id);
                // the shared root: without fabric id, or with fabric A's
                let old_root = root.spec.subject.clone();
                root.spec.subject.retain(|a| a.tag != dn_tag::FABRIC_ID);
                if root_names_a {
                    root.spec.subject.push(DnAttr::id(dn_tag::FABRIC_ID, p.fabric_id));
                }
                if root.spec.issuer == old_root {
                    root.spec.issuer = root.spec.subject.clone();
                }
                if ica.spec.issuer == old_root {
                    ica.spec.issuer = root.spec.subject.clone();
                }
                // ICAC of fabric B
                let old_ica = ica.spec.subject.clone();
                set_fabric(&mut ica.spec.subject, b);
                if leaf.spec.issuer == old_ica {
                    leaf.spec.issuer = ica.spec.subject.clone();
                }
                // leaf of fabric B
                set_fabric(&mut leaf.spec.subject, b);
                // A perfectly valid chain - of fabric B. Only a root that names fabric A is at
                // odds with it, on which the statement is silent.
                let free = if root_names_a { Expect::Either } else { Expect::Accept };
                Truth {
                    rule: "leaf-fabric-id",
                    chain: free,
                    case: Expect::Reject,
                    add_noc: free,
                    update_noc: Expect::Reject,
                }
            }
            IcacForeignFabric => {
                let old_ica = ica.spec.subject.clone();
                set_fabric(&mut ica.spec.subject, foreign_fabric(p.fabric_id));
                if leaf.spec.issuer == old_ica {
                    leaf.spec.issuer = ica.spec.subject.clone();
                }
                icac_fabric_mismatch()
            }
            SwapLeafAndIca => {
                present = Present::SwapLeafIca;
                Truth::all("chain-order", Expect::Reject)
            }
            SwapIcaAndRoot => {
                present = Present::SwapIcaRoot;
                Truth::all("chain-order", Expect::Reject)
            }
            RepeatLeaf => {
                present = Present::RepeatLeaf;
                Truth::all("chain-order", Expect::Reject)
            }
            RepeatIca => {
                present = Present::RepeatIca;
                Truth::all("chain-order", Expect::Reject)
            }
            RepeatRoot => {
                present = Present::RepeatRoot;
                // every step of leaf -> root -> root is a valid signature step
                Truth::all("root-repeated", Expect::Either)
            }
            OmitIca => {
                present = Present::OmitIca;
                Truth::all("chain-order", Expect::Reject)
            }
            OmitRoot => {
                present = Present::OmitRoot;
                Truth::all("root-self-signed", Expect::Reject)
            }
            UntrustedRoot { same_skid } => {
                let mut spec = root.spec.clone();
                spec.pubkey = stranger_k.public.to_vec();
                let id = if same_skid { root_k.id } else { stranger_k.id };
                for e in spec.exts.iter_mut() {
                    match e {
                        Ext::SubjectKeyId(v) | Ext::AuthorityKeyId(v) => *v = id.to_vec(),
                        _ => {}
                    }
                }
                other_root = Some(Slot {
                    spec,
                    signer: stranger_k.clone(),
                });
                Truth::all("trusted-root", Expect::Reject)
            }
            RootNotSelfSigned => {
                root.signer = stranger_k.clone();
                Truth::all("root-self-signed", Expect::Reject)
            }
            LeafAsAuthority => {
                // a second NOC, issued by the first one
                let mut spec = leaf.spec.clone();
                spec.issuer = leaf.spec.subject.clone();
                // keep the second leaf small (size limits): node id and fabric id only
                spec.subject
                    .retain(|a| a.tag == dn_tag::NODE_ID || a.tag == dn_tag::FABRIC_ID);
                spec.remove_ext(is_future);
                for a in spec.subject.iter_mut() {
                    if a.tag == dn_tag::NODE_ID {
                        if let DnValue::U64(v) = &mut a.value {
                            *v = if *v > 1 { *v - 1 } else { 2 };
                            presented_node_id = *v;
                        }
                    }
                }
                // the presented leaf owns the key the caller prescribes (if any); the leaf that
                // acts as authority owns its own key, with which it signs
                let (second_pub, second_id) = match leaf_pubkey {
                    Some(pk) => (pk.to_vec(), key_id(crypto, pk)?),
                    None => (stranger_k.public.to_vec(), stranger_k.id),
                };
                spec.pubkey = second_pub;
                for e in spec.exts.iter_mut() {
                    match e {
                        Ext::SubjectKeyId(v) => *v = second_id.to_vec(),
                        Ext::AuthorityKeyId(v) => *v = own_leaf_k.id.to_vec(),
                        _ => {}
                    }
                }
                leaf.spec.pubkey = own_leaf_k.public.to_vec();
                for e in leaf.spec.exts.iter_mut() {
                    if let Ext::SubjectKeyId(v) = e {
                        *v = own_leaf_k.id.to_vec();
                    }
                }
                second_leaf = Some(Slot {
                    spec,
                    signer: own_leaf_k.clone(),
                });
                present = Present::LeafAsAuthority;
                Truth::all("leaf-as-authority", Expect::Reject)
            }
            CaAsLeaf { with_node_id } => {
                let mut subject = vec![DnAttr::id(dn_tag::ICAC_ID, p.icac_id ^ 0x55)];
                if with_node_id {
                    subject.push(DnAttr::id(dn_tag::NODE_ID, p.node_id));
                }
                subject.push(DnAttr::id(dn_tag::FABRIC_ID, p.fabric_id));
                leaf.spec.subject = subject;
                let akid = leaf.signer.id;
                leaf.spec.exts = ca_exts(&p.leaf, None, false, &leaf_k.id, &akid);
                Truth {
                    rule: "leaf-non-ca",
                    // a CA certificate alone or at the start of a sequence is what root
                    // staging validates; the sequence interface cannot tell the purpose
                    chain: Expect::Either,
                    case: Expect::Reject,
                    add_noc: Expect::Reject,
                    update_noc: Expect::Reject,
                }
            }
        };
        truth = truth.combine(tr);
    }

    // --- sign ------------------------------------------------------------------------
    let finish = |slot: &Slot, pos: Pos| -> Result<Vec<u8>, ForgeError> {
        let (mut tlv, mut sig) = sign_cert(crypto, &slot.spec, &slot.signer)?;
        let mut spec = slot.spec.clone();
        let mut rebuilt = false;
        for (tp, field) in &tampers {
            if *tp != pos {
                continue;
            }
            rebuilt = true;
            match field {
                TamperField::Serial => {
                    let n = spec.serial.len();
                    spec.serial[n - 1] ^= 0x01;
                    if n == 1 && spec.serial[0] == 0 {
                        spec.serial[0] = 2;
                    }
                }
                TamperField::SubjectId => {
                    if let Some(a) = spec.subject.iter_mut().find(|a| matches!(a.value, DnValue::U64(_))) {
                        let tag = a.tag;
                        if let DnValue::U64(v) = &mut a.value {
                            *v = if tag == dn_tag::NODE_ID {
                                if *v > 1 { *v - 1 } else { 2 }
                            } else {
                                *v ^ 1
                            };
                        }
                    } else {
                        spec.serial[0] ^= 0x02;
                    }
                }
                TamperField::NotAfter => {
                    if spec.not_after != 0 && spec.not_after < u32::MAX {
                        spec.not_after += 1;
                    } else if spec.not_before > 0 {
                        spec.not_before -= 1;
                    } else {
                        spec.serial[0] ^= 0x02;
                    }
                }
                TamperField::PublicKey => {
                    // another valid point, so that only the signature can tell
                    spec.pubkey = if spec.pubkey == stranger_k.public.to_vec() {
                        ica_k.public.to_vec()
                    } else {
                        stranger_k.public.to_vec()
                    };
                }
            }
        }
        for (fp, bit) in &sig_flips {
            if *fp == pos {
                let b = (*bit as usize) % (sig.len() * 8);
                sig[b / 8] ^= 1 << (b % 8);
                rebuilt = true;
            }
        }
        if rebuilt {
            tlv = spec.tlv(Some(&sig));
        }
        Ok(tlv)
    };

    let root_tlv = finish(&root, Pos::Root)?;
    let ica_tlv = if with_icac { Some(finish(&ica, Pos::Ica)?) } else { None };
    let leaf_tlv = finish(&leaf, Pos::Leaf)?;
    let trusted_root = match &other_root {
        Some(s) => sign_cert(crypto, &s.spec, &s.signer)?.0,
        None => root_tlv.clone(),
    };

    // --- present ---------------------------------------------------------------------
    let ica_vec: Vec<Vec<u8>> = ica_tlv.iter().cloned().collect();
    let (p_leaf, p_inter, p_root, role_based) = match present {
        Present::Normal => (leaf_tlv, ica_vec, trusted_root, true),
        Present::SwapLeafIca => (ica_vec[0].clone(), vec![leaf_tlv], trusted_root, true),
        Present::SwapIcaRoot => (leaf_tlv, vec![trusted_root], ica_vec[0].clone(), true),
        Present::RepeatLeaf => {
            let mut inter = vec![leaf_tlv.clone()];
            inter.extend(ica_vec);
            let rb = inter.len() == 1;
            (leaf_tlv, inter, trusted_root, rb)
        }
        Present::RepeatIca => (leaf_tlv, vec![ica_vec[0].clone(), ica_vec[0].clone()], trusted_root, false),
        Present::RepeatRoot => {
            let mut inter = ica_vec;
            inter.push(trusted_root.clone());
            let rb = inter.len() == 1;
            (leaf_tlv, inter, trusted_root, rb)
        }
        Present::OmitIca => (leaf_tlv, vec![], trusted_root, true),
        Present::OmitRoot => {
            if with_icac {
                (leaf_tlv, vec![], ica_vec[0].clone(), false)
            } else {
                // a chain that consists of the leaf only
                (leaf_tlv.clone(), vec![], leaf_tlv, false)
            }
        }
        Present::LeafAsAuthority => {
            let s = second_leaf.as_ref().ok_or(ForgeError::NotApplicable("no second leaf"))?;
            let second = sign_cert(crypto, &s.spec, &s.signer)?.0;
            (second, vec![leaf_tlv], trusted_root, true)
        }
    };

    let der_note = format!(
        "tlv sizes leaf={} inter={:?} root={}",
        p_leaf.len(),
        p_inter.iter().map(|v| v.len()).collect::<Vec<_>>(),
        p_root.len()
    );

    Ok(ForgedChain {
        leaf: p_leaf,
        inter: p_inter,
        root: p_root,
        truth,
        time: t,
        fabric_id: p.fabric_id,
        node_id: presented_node_id,
        with_icac,
        role_based,
        der_note,
    })
}
