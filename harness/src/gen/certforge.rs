//! Certificate forger: writes Matter-TLV operational certificates (RCAC / ICAC / NOC) field by
//! field with arbitrary values, signs them with generated keys, and builds whole chains that
//! are either valid or deviate from a valid chain in listed respects. Every forged chain comes
//! with the ground-truth verdict (derived from the *generator's parameters*, never from parsing
//! the certificate) and the name of the violated rule.
//!
//! The TLV encoder below is independent of rs-matter's TLV writer. The to-be-signed DER is
//! obtained from the public `CertRef::as_asn1` and signed through the public `Crypto` API
//! (deterministic ECDSA), so a forged certificate is exactly what a CA using the same DER
//! conversion would have issued.
//!
//! Layers:
//! * [`CertSpec`] / [`DnAttr`] / [`Ext`]: one certificate, field by field -> TLV bytes;
//! * [`ChainParams`] + [`Deviation`] -> [`forge`] -> [`ForgedChain`] with [`Truth`].

use serde::{Deserialize, Serialize};

use rs_matter::cert::{CertRef, MAX_CERT_ASN1_LEN, MAX_CERT_TLV_LEN};
use rs_matter::crypto::{
    CanonPkcPublicKey, CanonPkcSecretKeyRef, CanonPkcSignature, Crypto, CryptoSensitive, Digest,
    PublicKey, SigningSecretKey,
};
use rs_matter::tlv::TLVElement;

// ---------------------------------------------------------------------------------------------
// Minimal Matter-TLV encoder
// ---------------------------------------------------------------------------------------------

const T_STRUCT: u8 = 0x15;
const T_ARRAY: u8 = 0x16;
const T_LIST: u8 = 0x17;
const T_END: u8 = 0x18;

#[derive(Default)]
struct Tlv(Vec<u8>);

impl Tlv {
    fn ctl(&mut self, tag: Option<u8>, ty: u8) {
        match tag {
            None => self.0.push(ty),
            Some(t) => {
                self.0.push(0x20 | ty);
                self.0.push(t);
            }
        }
    }

    /// Unsigned integer with the given width in bytes (1, 2, 4, 8); `0` = minimal width.
    fn uint(&mut self, tag: Option<u8>, v: u64, width: u8) {
        let w = match width {
            1 | 2 | 4 | 8 => width,
            _ => {
                if v <= 0xff {
                    1
                } else if v <= 0xffff {
                    2
                } else if v <= 0xffff_ffff {
                    4
                } else {
                    8
                }
            }
        };
        let ty = match w {
            1 => 0x04,
            2 => 0x05,
            4 => 0x06,
            _ => 0x07,
        };
        self.ctl(tag, ty);
        self.0.extend_from_slice(&v.to_le_bytes()[..w as usize]);
    }

    fn boolean(&mut self, tag: Option<u8>, b: bool) {
        self.ctl(tag, if b { 0x09 } else { 0x08 });
    }

    fn bytes(&mut self, tag: Option<u8>, b: &[u8]) {
        if b.len() < 256 {
            self.ctl(tag, 0x10);
            self.0.push(b.len() as u8);
        } else {
            self.ctl(tag, 0x11);
            self.0.extend_from_slice(&(b.len() as u16).to_le_bytes());
        }
        self.0.extend_from_slice(b);
    }

    fn utf8(&mut self, tag: Option<u8>, s: &str) {
        self.ctl(tag, 0x0c);
        self.0.push(s.len().min(255) as u8);
        self.0.extend_from_slice(&s.as_bytes()[..s.len().min(255)]);
    }

    fn start(&mut self, tag: Option<u8>, kind: u8) {
        self.ctl(tag, kind);
    }

    fn end(&mut self) {
        self.0.push(T_END);
    }
}

// ---------------------------------------------------------------------------------------------
// One certificate, field by field
// ---------------------------------------------------------------------------------------------

/// Matter DN attribute tags (Matter specification, "Matter certificate" DN encoding).
pub mod dn_tag {
    pub const COMMON_NAME: u8 = 1;
    pub const NAME: u8 = 10;
    pub const DOMAIN_COMPONENT: u8 = 16;
    pub const NODE_ID: u8 = 17;
    pub const FIRMWARE_SIGNING_ID: u8 = 18;
    pub const ICAC_ID: u8 = 19;
    pub const RCAC_ID: u8 = 20;
    pub const FABRIC_ID: u8 = 21;
    pub const NOC_CAT: u8 = 22;
}

/// Matter-TLV key-usage bits.
pub mod ku {
    pub const DIGITAL_SIGNATURE: u16 = 0x0001;
    pub const NON_REPUDIATION: u16 = 0x0002;
    pub const KEY_ENCIPHERMENT: u16 = 0x0004;
    pub const KEY_AGREEMENT: u16 = 0x0010;
    pub const KEY_CERT_SIGN: u16 = 0x0020;
    pub const CRL_SIGN: u16 = 0x0040;
}

#[derive(Debug, Clone, PartialEq, Eq, Serialize, Deserialize)]
pub enum DnValue {
    /// Matter 64-bit identifier (node, fabric, ICAC, RCAC, firmware-signing id)
    U64(u64),
    /// Matter 32-bit identifier (CASE authenticated tag)
    U32(u32),
    /// Standard X.520 attribute (UTF8String, or PrintableString when `printable`)
    Str(String),
}

#[derive(Debug, Clone, PartialEq, Eq, Serialize, Deserialize)]
pub struct DnAttr {
    /// 1..=22
    pub tag: u8,
    /// only meaningful for string values: encode as PrintableString (context tag | 0x80)
    pub printable: bool,
    pub value: DnValue,
}

impl DnAttr {
    pub fn id(tag: u8, v: u64) -> Self {
        Self {
            tag,
            printable: false,
            value: DnValue::U64(v),
        }
    }

    pub fn cat(v: u32) -> Self {
        Self {
            tag: dn_tag::NOC_CAT,
            printable: false,
            value: DnValue::U32(v),
        }
    }

    pub fn text(tag: u8, printable: bool, s: &str) -> Self {
        Self {
            tag,
            printable,
            value: DnValue::Str(s.to_string()),
        }
    }
}

/// One DER X.509 `Extension` carried inside the Matter `future-extensions` blob.
#[derive(Debug, Clone, PartialEq, Eq, Serialize, Deserialize)]
pub struct FutureExt {
    /// last arc of the OID 2.5.29.<arc> (values of known extensions are avoided by the caller)
    pub oid_arc: u8,
    /// `None`: BOOLEAN omitted (DEFAULT FALSE); `Some(false)`: explicit FALSE; `Some(true)`: critical
    pub critical: Option<bool>,
    pub value: Vec<u8>,
}

impl FutureExt {
    pub fn der(&self) -> Vec<u8> {
        let mut inner = vec![0x06, 0x03, 0x55, 0x1d, self.oid_arc & 0x7f];
        if let Some(c) = self.critical {
            inner.extend_from_slice(&[0x01, 0x01, if c { 0xff } else { 0x00 }]);
        }
        let v = &self.value[..self.value.len().min(100)];
        inner.push(0x04);
        inner.push(v.len() as u8);
        inner.extend_from_slice(v);
        let mut out = vec![0x30, inner.len() as u8];
        out.extend_from_slice(&inner);
        out
    }
}

#[derive(Debug, Clone, PartialEq, Eq, Serialize, Deserialize)]
pub enum Ext {
    BasicConstraints { is_ca: bool, path_len: Option<u8> },
    KeyUsage { bits: u16, two_bytes: bool },
    ExtKeyUsage(Vec<u8>),
    SubjectKeyId(Vec<u8>),
    AuthorityKeyId(Vec<u8>),
    Future(Vec<FutureExt>),
}

#[derive(Debug, Clone, PartialEq, Eq, Serialize, Deserialize)]
pub struct CertSpec {
    pub serial: Vec<u8>,
    pub sig_algo: u8,
    pub issuer: Vec<DnAttr>,
    pub not_before: u32,
    pub not_after: u32,
    pub subject: Vec<DnAttr>,
    pub pubkey_algo: u8,
    pub curve: u8,
    pub pubkey: Vec<u8>,
    pub exts: Vec<Ext>,
    /// encode Matter ids with the minimal integer width instead of the full 8 / 4 bytes
    pub ids_min_width: bool,
}

impl CertSpec {
    fn dn(&self, w: &mut Tlv, tag: u8, attrs: &[DnAttr]) {
        w.start(Some(tag), T_LIST);
        for a in attrs {
            match &a.value {
                DnValue::U64(v) => w.uint(Some(a.tag), *v, if self.ids_min_width { 0 } else { 8 }),
                DnValue::U32(v) => {
                    w.uint(Some(a.tag), *v as u64, if self.ids_min_width { 0 } else { 4 })
                }
                DnValue::Str(s) => w.utf8(Some(a.tag | if a.printable { 0x80 } else { 0 }), s),
            }
        }
        w.end();
    }

    /// The certificate as Matter TLV; without the signature element when `signature` is `None`
    /// (that is the form handed to `CertRef::as_asn1` to obtain the to-be-signed DER).
    pub fn tlv(&self, signature: Option<&[u8]>) -> Vec<u8> {
        let mut w = Tlv::default();
        w.start(None, T_STRUCT);
        w.bytes(Some(1), &self.serial);
        w.uint(Some(2), self.sig_algo as u64, 1);
        self.dn(&mut w, 3, &self.issuer);
        w.uint(Some(4), self.not_before as u64, 4);
        w.uint(Some(5), self.not_after as u64, 4);
        self.dn(&mut w, 6, &self.subject);
        w.uint(Some(7), self.pubkey_algo as u64, 1);
        w.uint(Some(8), self.curve as u64, 1);
        w.bytes(Some(9), &self.pubkey);
        w.start(Some(10), T_LIST);
        for e in &self.exts {
            match e {
                Ext::BasicConstraints { is_ca, path_len } => {
                    w.start(Some(1), T_STRUCT);
                    w.boolean(Some(1), *is_ca);
                    if let Some(p) = path_len {
                        w.uint(Some(2), *p as u64, 1);
                    }
                    w.end();
                }
                Ext::KeyUsage { bits, two_bytes } => {
                    w.uint(Some(2), *bits as u64, if *two_bytes { 2 } else { 0 })
                }
                Ext::ExtKeyUsage(list) => {
                    w.start(Some(3), T_ARRAY);
                    for v in list {
                        w.uint(None, *v as u64, 1);
                    }
                    w.end();
                }
                Ext::SubjectKeyId(id) => w.bytes(Some(4), id),
                Ext::AuthorityKeyId(id) => w.bytes(Some(5), id),
                Ext::Future(list) => {
                    let mut blob = Vec::new();
                    for f in list {
                        blob.extend_from_slice(&f.der());
                    }
                    w.bytes(Some(6), &blob);
                }
            }
        }
        w.end();
        if let Some(sig) = signature {
            w.bytes(Some(11), sig);
        }
        w.end();
        w.0
    }

    pub fn ext_mut<F: Fn(&Ext) -> bool>(&mut self, f: F) -> Option<&mut Ext> {
        self.exts.iter_mut().find(|e| f(e))
    }

    pub fn remove_ext<F: Fn(&Ext) -> bool>(&mut self, f: F) {
        self.exts.retain(|e| !f(e));
    }
}

pub fn is_bc(e: &Ext) -> bool {
    matches!(e, Ext::BasicConstraints { .. })
}
pub fn is_ku(e: &Ext) -> bool {
    matches!(e, Ext::KeyUsage { .. })
}
pub fn is_eku(e: &Ext) -> bool {
    matches!(e, Ext::ExtKeyUsage(_))
}
pub fn is_skid(e: &Ext) -> bool {
    matches!(e, Ext::SubjectKeyId(_))
}
pub fn is_akid(e: &Ext) -> bool {
    matches!(e, Ext::AuthorityKeyId(_))
}
pub fn is_future(e: &Ext) -> bool {
    matches!(e, Ext::Future(_))
}

// ---------------------------------------------------------------------------------------------
// Keys and signing (through rs-matter's public Crypto API)
// ---------------------------------------------------------------------------------------------

#[derive(Debug, Clone)]
pub enum ForgeError {
    /// a crypto primitive refused (harness problem)
    Crypto(String),
    /// `CertRef::as_asn1` refused the to-be-signed certificate
    Asn1(String),
    /// the forged certificate exceeds the Matter size limits (generator bound problem)
    Oversize(String),
    /// the deviation cannot be applied to this chain (e.g. no room for a later date)
    NotApplicable(&'static str),
}

#[derive(Debug, Clone)]
pub struct Key {
    pub secret: [u8; 32],
    pub public: [u8; 65],
    /// SHA-1 of the public key (RFC 5280 4.2.1.2 method 1, as Matter prescribes)
    pub id: [u8; 20],
}

/// Map 32 arbitrary bytes onto a valid P-256 secret scalar (1 <= k < 2^255 < n).
pub fn normalize_seed(seed: &[u8; 32]) -> [u8; 32] {
    let mut s = *seed;
    s[0] &= 0x7f;
    if s.iter().all(|b| *b == 0) {
        s[31] = 1;
    }
    s
}

fn cerr(what: &str, e: rs_matter::error::Error) -> ForgeError {
    ForgeError::Crypto(format!("{what}: {:?}", e.code()))
}

pub fn key_id<C: Crypto>(crypto: &C, public: &[u8]) -> Result<[u8; 20], ForgeError> {
    let mut h = crypto.hash1().map_err(|e| cerr("hash1", e))?;
    h.update(public).map_err(|e| cerr("hash1 update", e))?;
    let mut out = CryptoSensitive::<20>::new();
    h.finish(&mut out).map_err(|e| cerr("hash1 finish", e))?;
    Ok(*out.access())
}

pub fn key_from_seed<C: Crypto>(crypto: &C, seed: &[u8; 32]) -> Result<Key, ForgeError> {
    let secret = normalize_seed(seed);
    let sk = crypto
        .secret_key(CanonPkcSecretKeyRef::new(&secret))
        .map_err(|e| cerr("secret_key", e))?;
    let mut pk = CanonPkcPublicKey::new();
    sk.pub_key()
        .map_err(|e| cerr("pub_key", e))?
        .write_canon(&mut pk)
        .map_err(|e| cerr("write_canon", e))?;
    let public = *pk.access();
    let id = key_id(crypto, &public)?;
    Ok(Key { secret, public, id })
}

/// Sign `spec` with `signer`: returns (complete TLV certificate, 64-byte signature).
pub fn sign_cert<C: Crypto>(
    crypto: &C,
    spec: &CertSpec,
    signer: &Key,
) -> Result<(Vec<u8>, Vec<u8>), ForgeError> {
    let tbs = spec.tlv(None);
    let mut der = [0u8; 2048];
    let n = CertRef::new(TLVElement::new(&tbs))
        .as_asn1(&mut der)
        .map_err(|e| ForgeError::Asn1(format!("{:?}", e.code())))?;
    if n > MAX_CERT_ASN1_LEN - 8 {
        return Err(ForgeError::Oversize(format!("TBS DER is {n} bytes")));
    }
    let sk = crypto
        .secret_key(CanonPkcSecretKeyRef::new(&signer.secret))
        .map_err(|e| cerr("secret_key", e))?;
    let mut sig = CanonPkcSignature::new();
    sk.sign(&der[..n], &mut sig).map_err(|e| cerr("sign", e))?;
    let sig = sig.access().to_vec();
    let full = spec.tlv(Some(&sig));
    if full.len() > MAX_CERT_TLV_LEN {
        return Err(ForgeError::Oversize(format!("TLV is {} bytes", full.len())));
    }
    Ok((full, sig))
}

include!("certforge_chain.rs");
