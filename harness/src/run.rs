//! Driver shared by every property binary.
//!
//! ```text
//! cNN [--tier quick|thorough] [--seed N] [--replay FILE] [--scale F] [--threads N]
//! ```
//!
//! Environment: `VERIF_SEED`, `VERIF_TIER`, `VERIF_THREADS`, `VERIF_SCALE`.
//!
//! Exit codes: 0 = property held on everything explored (known findings are printed as
//! `KNOWN-FINDING:` lines), 1 = violation (`VIOLATION property=<id> replay=<path>` on
//! stdout), 2 = inconclusive (harness error / watchdog) — never reported as violation.

use std::any::Any;
use std::cell::RefCell;
use std::collections::hash_map::DefaultHasher;
use std::collections::{BTreeMap, HashSet};
use std::fmt::Debug;
use std::hash::{Hash, Hasher};
use std::panic::{self, AssertUnwindSafe};
use std::path::PathBuf;
use std::sync::atomic::{AtomicBool, AtomicU64, Ordering};
use std::sync::{Arc, Mutex, Once};
use std::time::Instant;

use proptest::strategy::Strategy;
use proptest::test_runner::{Config, RngAlgorithm, TestCaseError, TestError, TestRng, TestRunner};

use serde::de::DeserializeOwned;
use serde::Serialize;
use serde_json::{json, Value};

/// Root of the verification tree (`VERIF_DIR` overrides it for scratch copies).
pub fn verif_dir() -> String {
    std::env::var("VERIF_DIR").unwrap_or_else(|_| "/verif".to_string())
}

/// Verdict of the oracle for one generated case.
#[derive(Debug, Clone)]
pub enum Verdict {
    /// The property held on this case.
    Pass,
    /// The property is violated. `signature` is a short, stable identifier of *what* failed
    /// (used to match entries of `known_findings.json`); `detail` is free text for the reader.
    Fail { signature: String, detail: String },
    /// The harness could not decide (watchdog, internal inconsistency). Never a violation.
    Inconclusive(String),
}

/// What the check function returns for one case.
#[derive(Debug, Clone)]
pub struct Case {
    pub verdict: Verdict,
    /// Whether the case is non-trivial by the property's stated rule.
    pub nontrivial: bool,
    /// Labels for the distribution histogram in the evidence file.
    pub labels: Vec<String>,
}

impl Case {
    pub fn pass(nontrivial: bool) -> Self {
        Self {
            verdict: Verdict::Pass,
            nontrivial,
            labels: Vec::new(),
        }
    }

    pub fn fail(signature: impl Into<String>, detail: impl Into<String>) -> Self {
        Self {
            verdict: Verdict::Fail {
                signature: signature.into(),
                detail: detail.into(),
            },
            nontrivial: true,
            labels: Vec::new(),
        }
    }

    pub fn inconclusive(why: impl Into<String>) -> Self {
        Self {
            verdict: Verdict::Inconclusive(why.into()),
            nontrivial: false,
            labels: Vec::new(),
        }
    }

    pub fn label(mut self, l: impl Into<String>) -> Self {
        self.labels.push(l.into());
        self
    }

    pub fn labels<I: IntoIterator<Item = S>, S: Into<String>>(mut self, ls: I) -> Self {
        self.labels.extend(ls.into_iter().map(Into::into));
        self
    }

    pub fn nontrivial(mut self, nt: bool) -> Self {
        self.nontrivial = nt;
        self
    }

    pub fn is_fail(&self) -> bool {
        matches!(self.verdict, Verdict::Fail { .. })
    }
}

#[derive(Debug, Clone, Copy, PartialEq, Eq)]
pub enum Tier {
    Quick,
    Thorough,
}

#[derive(Debug, Clone)]
pub struct Args {
    pub tier: Tier,
    pub seed: u64,
    pub replay: Option<PathBuf>,
    pub threads: usize,
    /// Multiplier for case counts (testing the harness itself).
    pub scale: f64,
    /// Only run sub-checks whose name contains this string.
    pub only: Option<String>,
    /// Do not write evidence (used by ad-hoc runs).
    pub no_evidence: bool,
}

impl Args {
    pub fn parse() -> Self {
        let mut tier = match std::env::var("VERIF_TIER").as_deref() {
            Ok("thorough") => Tier::Thorough,
            _ => Tier::Quick,
        };
        let mut seed = std::env::var("VERIF_SEED")
            .ok()
            .and_then(|s| s.trim().parse::<i128>().ok())
            .map(|v| v as u64)
            .unwrap_or(20260925);
        let mut threads = std::env::var("VERIF_THREADS")
            .ok()
            .and_then(|s| s.parse().ok())
            .unwrap_or(16usize);
        let mut scale = std::env::var("VERIF_SCALE")
            .ok()
            .and_then(|s| s.parse().ok())
            .unwrap_or(1.0f64);
        let mut replay = None;
        let mut only = std::env::var("VERIF_ONLY").ok();
        let mut no_evidence = std::env::var("VERIF_NO_EVIDENCE").is_ok();

        let mut it = std::env::args().skip(1);
        while let Some(a) = it.next() {
            match a.as_str() {
                "quick" => tier = Tier::Quick,
                "thorough" => tier = Tier::Thorough,
                "--tier" => {
                    tier = match it.next().as_deref() {
                        Some("thorough") => Tier::Thorough,
                        _ => Tier::Quick,
                    }
                }
                "--seed" => {
                    seed = it
                        .next()
                        .and_then(|s| s.parse::<i128>().ok())
                        .map(|v| v as u64)
                        .unwrap_or(seed)
                }
                "--replay" => replay = it.next().map(PathBuf::from),
                "--threads" => threads = it.next().and_then(|s| s.parse().ok()).unwrap_or(threads),
                "--scale" => scale = it.next().and_then(|s| s.parse().ok()).unwrap_or(scale),
                "--only" => only = it.next(),
                "--no-evidence" => no_evidence = true,
                other => {
                    eprintln!("unknown argument {other}");
                    std::process::exit(2);
                }
            }
        }

        Self {
            tier,
            seed,
            replay,
            threads: threads.max(1),
            scale,
            only,
            no_evidence,
        }
    }
}

thread_local! {
    static LAST_PANIC: RefCell<Option<(String, String)>> = const { RefCell::new(None) };
    static IN_CASE: RefCell<bool> = const { RefCell::new(false) };
}

static HOOK: Once = Once::new();

fn install_panic_hook() {
    HOOK.call_once(|| {
        let default = panic::take_hook();
        panic::set_hook(Box::new(move |info| {
            let in_case = IN_CASE.with(|c| *c.borrow());
            if in_case {
                let msg = if let Some(s) = info.payload().downcast_ref::<&str>() {
                    (*s).to_string()
                } else if let Some(s) = info.payload().downcast_ref::<String>() {
                    s.clone()
                } else {
                    "<non-string panic>".to_string()
                };
                let loc = info
                    .location()
                    .map(|l| format!("{}:{}", l.file(), l.line()))
                    .unwrap_or_else(|| "<unknown>".into());
                LAST_PANIC.with(|p| *p.borrow_mut() = Some((msg, loc)));
            } else {
                default(info);
            }
        }));
    });
}

/// Whether a panic location is inside the code under test (as opposed to the harness).
fn is_sut_location(loc: &str) -> bool {
    loc.contains("/repo/") || loc.contains("rs-matter/src") || loc.contains("rs-matter-macros")
}

/// Run `f` catching panics. A panic inside rs-matter becomes a `Fail` with signature
/// `panic@<file:line>`; a panic inside the harness becomes `Inconclusive`.
pub fn guarded<F: FnOnce() -> Case>(f: F) -> Case {
    install_panic_hook();
    IN_CASE.with(|c| *c.borrow_mut() = true);
    LAST_PANIC.with(|p| *p.borrow_mut() = None);
    let r = panic::catch_unwind(AssertUnwindSafe(f));
    IN_CASE.with(|c| *c.borrow_mut() = false);
    match r {
        Ok(c) => c,
        Err(payload) => {
            let (msg, loc) = LAST_PANIC
                .with(|p| p.borrow_mut().take())
                .unwrap_or_else(|| (payload_str(&payload), "<unknown>".into()));
            if is_sut_location(&loc) {
                // Strip the line number's volatility a little: keep file:line, it is the
                // most useful stable identifier we have.
                let short = loc.rsplit("rs-matter/").next().unwrap_or(&loc).to_string();
                Case::fail(format!("panic@{short}"), format!("panic at {loc}: {msg}"))
            } else {
                Case::inconclusive(format!("harness panic at {loc}: {msg}"))
            }
        }
    }
}

fn payload_str(p: &Box<dyn Any + Send>) -> String {
    if let Some(s) = p.downcast_ref::<&str>() {
        (*s).to_string()
    } else if let Some(s) = p.downcast_ref::<String>() {
        s.clone()
    } else {
        "<non-string panic>".into()
    }
}

#[derive(Debug, Clone, serde::Deserialize)]
struct KnownFinding {
    property: String,
    signature: String,
    #[serde(default)]
    status: String,
    #[serde(default)]
    description: String,
}

#[derive(Default)]
struct SubStats {
    name: String,
    evaluations: u64,
    nontrivial: u64,
    distinct_nontrivial: u64,
    exhaustive: bool,
    known_hits: BTreeMap<String, u64>,
    inconclusive: u64,
    violations: u64,
    wall_s: f64,
}

/// One run of one property binary: accumulates evidence across sub-checks.
pub struct Run {
    pub id: &'static str,
    pub level: &'static str,
    pub args: Args,
    rule: String,
    assumptions: Vec<String>,
    started: Instant,
    subs: Vec<SubStats>,
    labels: BTreeMap<String, u64>,
    samples: Vec<Value>,
    violations: Vec<(String, String, PathBuf)>,
    known: Vec<KnownFinding>,
    known_printed: HashSet<String>,
    inconclusive_msgs: Vec<String>,
    extra: BTreeMap<String, Value>,
    replay_done: bool,
}

#[derive(Serialize, serde::Deserialize)]
struct ReplayFile {
    property: String,
    sub: String,
    #[serde(default)]
    signature: String,
    #[serde(default)]
    detail: String,
    case: Value,
}

struct Shared {
    stop: AtomicBool,
    evals: AtomicU64,
    nontrivial: AtomicU64,
    inconclusive: AtomicU64,
    distinct: Mutex<HashSet<u64>>,
    labels: Mutex<BTreeMap<String, u64>>,
    samples: Mutex<Vec<Value>>,
    known_hits: Mutex<BTreeMap<String, u64>>,
    inconclusive_msgs: Mutex<Vec<String>>,
}

impl Run {
    pub fn new(id: &'static str, level: &'static str, rule: &str) -> Self {
        let args = Args::parse();
        install_panic_hook();
        let known: Vec<KnownFinding> =
            std::fs::read_to_string(format!("{}/known_findings.json", verif_dir()))
                .ok()
                .and_then(|s| serde_json::from_str::<Vec<KnownFinding>>(&s).ok())
                .unwrap_or_default()
                .into_iter()
                .filter(|k| k.property == id && k.status == "open")
                .collect();
        Self {
            id,
            level,
            args,
            rule: rule.to_string(),
            assumptions: Vec::new(),
            started: Instant::now(),
            subs: Vec::new(),
            labels: BTreeMap::new(),
            samples: Vec::new(),
            violations: Vec::new(),
            known,
            known_printed: HashSet::new(),
            inconclusive_msgs: Vec::new(),
            extra: BTreeMap::new(),
            replay_done: false,
        }
    }

    pub fn assume(&mut self, a: &str) -> &mut Self {
        self.assumptions.push(a.to_string());
        self
    }

    pub fn extra(&mut self, k: &str, v: Value) -> &mut Self {
        self.extra.insert(k.to_string(), v);
        self
    }

    pub fn is_thorough(&self) -> bool {
        self.args.tier == Tier::Thorough
    }

    /// Pick a case count by tier, scaled by `--scale`.
    pub fn cases(&self, quick: u64, thorough: u64) -> u64 {
        let n = if self.is_thorough() { thorough } else { quick };
        ((n as f64 * self.args.scale).ceil() as u64).max(1)
    }

    fn skip(&self, sub: &str) -> bool {
        if let Some(only) = &self.args.only {
            if !sub.contains(only.as_str()) {
                return true;
            }
        }
        false
    }

    fn is_known(&self, sig: &str) -> bool {
        self.known.iter().any(|k| k.signature == sig)
    }

    fn load_replay(&self, sub: &str) -> Option<ReplayFile> {
        let path = self.args.replay.as_ref()?;
        let txt = match std::fs::read_to_string(path) {
            Ok(t) => t,
            Err(e) => {
                eprintln!("cannot read replay file {}: {e}", path.display());
                std::process::exit(2);
            }
        };
        let rf: ReplayFile = match serde_json::from_str(&txt) {
            Ok(r) => r,
            Err(e) => {
                eprintln!("cannot parse replay file {}: {e}", path.display());
                std::process::exit(2);
            }
        };
        if rf.sub == sub && rf.property == self.id {
            Some(rf)
        } else {
            None
        }
    }

    fn write_replay<T: Serialize>(&self, sub: &str, sig: &str, detail: &str, case: &T) -> PathBuf {
        let v = serde_json::to_value(case).unwrap_or(Value::Null);
        let rf = ReplayFile {
            property: self.id.to_string(),
            sub: sub.to_string(),
            signature: sig.to_string(),
            detail: detail.to_string(),
            case: v,
        };
        let txt = serde_json::to_string_pretty(&rf).unwrap();
        let mut h = DefaultHasher::new();
        txt.hash(&mut h);
        let dir = format!("{}/replay", verif_dir());
        let _ = std::fs::create_dir_all(&dir);
        let path = PathBuf::from(format!(
            "{dir}/{}-{}-{:08x}.json",
            self.id,
            sub,
            h.finish() as u32
        ));
        let _ = std::fs::write(&path, txt);
        path
    }

    fn record_violation<T: Serialize>(&mut self, sub: &str, sig: &str, detail: &str, case: &T) {
        let path = if let Some(p) = &self.args.replay {
            p.clone()
        } else {
            self.write_replay(sub, sig, detail, case)
        };
        println!("VIOLATION property={} replay={}", self.id, path.display());
        println!("  sub-check: {sub}");
        println!("  signature: {sig}");
        let mut d = detail.to_string();
        if d.len() > 4000 {
            d.truncate(4000);
            d.push_str("...");
        }
        println!("  detail: {d}");
        self.violations
            .push((sub.to_string(), sig.to_string(), path));
    }

    fn note_known(&mut self, sig: &str) {
        if self.known_printed.insert(sig.to_string()) {
            let desc = self
                .known
                .iter()
                .find(|k| k.signature == sig)
                .map(|k| k.description.clone())
                .unwrap_or_default();
            println!("KNOWN-FINDING: property={} {} — {}", self.id, sig, desc);
        }
    }

    /// A proptest-driven sub-check: `cases` generated values from `strategy()`, spread over the
    /// worker threads; `check` is the oracle. On failure the case is shrunk by proptest and the
    /// minimal case is written to `/verif/replay/`.
    pub fn prop<T, S, MkS, F>(&mut self, sub: &str, cases: u64, mk_strategy: MkS, check: F)
    where
        T: Debug + Serialize + DeserializeOwned + Send + Sync + 'static,
        S: Strategy<Value = T>,
        MkS: Fn() -> S + Sync,
        F: Fn(&T) -> Case + Sync,
    {
        if self.skip(sub) {
            return;
        }

        // Replay mode: run only the matching sub-check, once, without proptest.
        if self.args.replay.is_some() {
            if let Some(rf) = self.load_replay(sub) {
                self.replay_done = true;
                let case: T = match serde_json::from_value(rf.case) {
                    Ok(c) => c,
                    Err(e) => {
                        eprintln!("replay case does not deserialize for {sub}: {e}");
                        std::process::exit(2);
                    }
                };
                let res = run_on_big_stack(|| guarded(|| check(&case)));
                let mut st = SubStats {
                    name: sub.to_string(),
                    evaluations: 1,
                    ..Default::default()
                };
                match &res.verdict {
                    Verdict::Fail { signature, detail } => {
                        if self.is_known(signature) {
                            self.note_known(signature);
                            *st.known_hits.entry(signature.clone()).or_default() += 1;
                        } else {
                            st.violations = 1;
                            self.record_violation(sub, signature, detail, &case);
                        }
                    }
                    Verdict::Inconclusive(m) => {
                        st.inconclusive = 1;
                        self.inconclusive_msgs.push(m.clone());
                    }
                    Verdict::Pass => println!("replay: case passes"),
                }
                if res.nontrivial {
                    st.nontrivial = 1;
                    st.distinct_nontrivial = 1;
                }
                self.samples
                    .push(serde_json::to_value(&case).unwrap_or(Value::Null));
                self.subs.push(st);
            }
            return;
        }

        let t0 = Instant::now();
        let threads = self.args.threads.min(cases.max(1) as usize).max(1);
        let shared = Arc::new(Shared {
            stop: AtomicBool::new(false),
            evals: AtomicU64::new(0),
            nontrivial: AtomicU64::new(0),
            inconclusive: AtomicU64::new(0),
            distinct: Mutex::new(HashSet::new()),
            labels: Mutex::new(BTreeMap::new()),
            samples: Mutex::new(Vec::new()),
            known_hits: Mutex::new(BTreeMap::new()),
            inconclusive_msgs: Mutex::new(Vec::new()),
        });
        let known_sigs: HashSet<String> = self.known.iter().map(|k| k.signature.clone()).collect();
        let seed = self.args.seed;
        let id = self.id;

        // (worker index, shrunk case JSON, signature, detail)
        let failure: Mutex<Option<(usize, Value, String, String)>> = Mutex::new(None);

        std::thread::scope(|scope| {
            for w in 0..threads {
                let shared = shared.clone();
                let known_sigs = &known_sigs;
                let failure = &failure;
                let mk_strategy = &mk_strategy;
                let check = &check;
                let per = cases / threads as u64 + if (w as u64) < cases % threads as u64 { 1 } else { 0 };
                std::thread::Builder::new()
                    .name(format!("{id}-{sub}-{w}"))
                    .stack_size(256 << 20)
                    .spawn_scoped(scope, move || {
                        if per == 0 {
                            return;
                        }
                        let mut seed_bytes = [0u8; 32];
                        let mut h = DefaultHasher::new();
                        (seed, id, sub, w as u64).hash(&mut h);
                        let a = h.finish();
                        (a, seed, 0x9e3779b97f4a7c15u64).hash(&mut h);
                        let b = h.finish();
                        seed_bytes[..8].copy_from_slice(&a.to_le_bytes());
                        seed_bytes[8..16].copy_from_slice(&b.to_le_bytes());
                        seed_bytes[16..24].copy_from_slice(&seed.to_le_bytes());
                        seed_bytes[24..32].copy_from_slice(&(w as u64).to_le_bytes());
                        let rng = TestRng::from_seed(RngAlgorithm::ChaCha, &seed_bytes);
                        let config = Config {
                            cases: per.min(u32::MAX as u64) as u32,
                            failure_persistence: None,
                            max_shrink_iters: 4096,
                            max_global_rejects: 1 << 20,
                            ..Config::default()
                        };
                        let mut runner = TestRunner::new_with_rng(config, rng);
                        let strategy = mk_strategy();
                        // Once the first failure was seen, stop counting: the closure is re-run
                        // during shrinking.
                        let failed = RefCell::new(false);
                        let last_fail: RefCell<Option<(String, String)>> = RefCell::new(None);
                        let result = runner.run(&strategy, |case| {
                            if shared.stop.load(Ordering::Relaxed) && !*failed.borrow() {
                                return Ok(());
                            }
                            let res = guarded(|| check(&case));
                            let counting = !*failed.borrow();
                            match &res.verdict {
                                Verdict::Fail { signature, detail } => {
                                    if known_sigs.contains(signature) {
                                        if counting {
                                            *shared
                                                .known_hits
                                                .lock()
                                                .unwrap()
                                                .entry(signature.clone())
                                                .or_default() += 1;
                                            shared.evals.fetch_add(1, Ordering::Relaxed);
                                        }
                                        return Ok(());
                                    }
                                    *failed.borrow_mut() = true;
                                    *last_fail.borrow_mut() =
                                        Some((signature.clone(), detail.clone()));
                                    return Err(TestCaseError::fail(signature.clone()));
                                }
                                Verdict::Inconclusive(m) => {
                                    if counting {
                                        shared.inconclusive.fetch_add(1, Ordering::Relaxed);
                                        let mut g = shared.inconclusive_msgs.lock().unwrap();
                                        if g.len() < 5 {
                                            g.push(m.clone());
                                        }
                                    }
                                    return Ok(());
                                }
                                Verdict::Pass => {}
                            }
                            if counting {
                                shared.evals.fetch_add(1, Ordering::Relaxed);
                                if !res.labels.is_empty() {
                                    let mut ls = res.labels.clone();
                                    ls.sort();
                                    ls.dedup();
                                    let mut g = shared.labels.lock().unwrap();
                                    for l in &ls {
                                        *g.entry(l.clone()).or_default() += 1;
                                    }
                                }
                                if res.nontrivial {
                                    shared.nontrivial.fetch_add(1, Ordering::Relaxed);
                                    let txt = serde_json::to_string(&case).unwrap_or_default();
                                    let mut h = DefaultHasher::new();
                                    txt.hash(&mut h);
                                    let fresh = shared.distinct.lock().unwrap().insert(h.finish());
                                    if fresh {
                                        let mut s = shared.samples.lock().unwrap();
                                        if s.len() < 3 && txt.len() < 6000 {
                                            s.push(
                                                serde_json::from_str(&txt).unwrap_or(Value::Null),
                                            );
                                        }
                                    }
                                }
                            }
                            Ok(())
                        });
                        match result {
                            Ok(()) => {}
                            Err(TestError::Fail(_reason, minimal)) => {
                                shared.stop.store(true, Ordering::Relaxed);
                                // Re-run the minimal case for its own signature/detail.
                                let res = guarded(|| check(&minimal));
                                let (sig, detail) = match res.verdict {
                                    Verdict::Fail { signature, detail } => (signature, detail),
                                    _ => last_fail
                                        .borrow()
                                        .clone()
                                        .unwrap_or(("unknown".into(), "flaky?".into())),
                                };
                                let v = serde_json::to_value(&minimal).unwrap_or(Value::Null);
                                let mut f = failure.lock().unwrap();
                                if f.is_none() {
                                    *f = Some((w, v, sig, detail));
                                }
                            }
                            Err(TestError::Abort(reason)) => {
                                shared.inconclusive.fetch_add(1, Ordering::Relaxed);
                                shared
                                    .inconclusive_msgs
                                    .lock()
                                    .unwrap()
                                    .push(format!("proptest aborted: {reason}"));
                            }
                        }
                    })
                    .expect("spawn worker");
            }
        });

        let mut st = SubStats {
            name: sub.to_string(),
            evaluations: shared.evals.load(Ordering::Relaxed),
            nontrivial: shared.nontrivial.load(Ordering::Relaxed),
            distinct_nontrivial: shared.distinct.lock().unwrap().len() as u64,
            inconclusive: shared.inconclusive.load(Ordering::Relaxed),
            known_hits: shared.known_hits.lock().unwrap().clone(),
            wall_s: t0.elapsed().as_secs_f64(),
            ..Default::default()
        };
        for (l, n) in shared.labels.lock().unwrap().iter() {
            *self.labels.entry(format!("{sub}/{l}")).or_default() += n;
        }
        for s in shared.samples.lock().unwrap().iter().take(2) {
            if self.samples.len() < 12 {
                self.samples.push(json!({ "sub": sub, "case": s }));
            }
        }
        self.inconclusive_msgs
            .extend(shared.inconclusive_msgs.lock().unwrap().iter().cloned());
        let sigs: Vec<String> = st.known_hits.keys().cloned().collect();
        for s in sigs {
            self.note_known(&s);
        }
        if let Some((_w, case, sig, detail)) = failure.into_inner().unwrap() {
            st.violations = 1;
            self.record_violation(sub, &sig, &detail, &case);
        }
        eprintln!(
            "[{}] {sub}: {} cases, {} non-trivial ({} distinct), {} inconclusive, {:.1}s",
            self.id, st.evaluations, st.nontrivial, st.distinct_nontrivial, st.inconclusive, st.wall_s
        );
        self.subs.push(st);
    }

    /// An enumerated (exhaustive) sub-check over `items`; work is split across worker threads.
    pub fn exhaustive<T, I, F>(&mut self, sub: &str, items: I, check: F)
    where
        T: Debug + Serialize + DeserializeOwned + Send + Sync,
        I: IntoIterator<Item = T>,
        F: Fn(&T) -> Case + Sync,
    {
        if self.skip(sub) {
            return;
        }
        if self.args.replay.is_some() {
            // Same replay path as `prop`.
            if let Some(rf) = self.load_replay(sub) {
                self.replay_done = true;
                let case: T = match serde_json::from_value(rf.case) {
                    Ok(c) => c,
                    Err(e) => {
                        eprintln!("replay case does not deserialize for {sub}: {e}");
                        std::process::exit(2);
                    }
                };
                let res = run_on_big_stack(|| guarded(|| check(&case)));
                let mut st = SubStats {
                    name: sub.to_string(),
                    evaluations: 1,
                    ..Default::default()
                };
                if let Verdict::Fail { signature, detail } = &res.verdict {
                    if self.is_known(signature) {
                        self.note_known(signature);
                    } else {
                        st.violations = 1;
                        self.record_violation(sub, signature, detail, &case);
                    }
                } else {
                    println!("replay: case passes");
                }
                self.samples
                    .push(serde_json::to_value(&case).unwrap_or(Value::Null));
                self.subs.push(st);
            }
            return;
        }

        let t0 = Instant::now();
        let items: Vec<T> = items.into_iter().collect();
        let threads = self.args.threads.min(items.len().max(1));
        let chunk = items.len().div_ceil(threads.max(1)).max(1);
        let known_sigs: HashSet<String> = self.known.iter().map(|k| k.signature.clone()).collect();

        struct Out {
            evals: u64,
            nontrivial: u64,
            inconclusive: u64,
            labels: BTreeMap<String, u64>,
            known: BTreeMap<String, u64>,
            fail: Option<(usize, String, String)>,
            sample: Option<usize>,
            msgs: Vec<String>,
        }

        let outs: Vec<Out> = std::thread::scope(|scope| {
            let mut hs = Vec::new();
            for (ci, part) in items.chunks(chunk).enumerate() {
                let check = &check;
                let known_sigs = &known_sigs;
                hs.push(
                    std::thread::Builder::new()
                        .stack_size(256 << 20)
                        .spawn_scoped(scope, move || {
                            let mut o = Out {
                                evals: 0,
                                nontrivial: 0,
                                inconclusive: 0,
                                labels: BTreeMap::new(),
                                known: BTreeMap::new(),
                                fail: None,
                                sample: None,
                                msgs: Vec::new(),
                            };
                            for (i, item) in part.iter().enumerate() {
                                let res = guarded(|| check(item));
                                o.evals += 1;
                                match res.verdict {
                                    Verdict::Fail { signature, detail } => {
                                        if known_sigs.contains(&signature) {
                                            *o.known.entry(signature).or_default() += 1;
                                        } else if o.fail.is_none() {
                                            o.fail = Some((ci * chunk + i, signature, detail));
                                        }
                                    }
                                    Verdict::Inconclusive(m) => {
                                        o.inconclusive += 1;
                                        if o.msgs.len() < 3 {
                                            o.msgs.push(m);
                                        }
                                    }
                                    Verdict::Pass => {}
                                }
                                for l in res.labels {
                                    *o.labels.entry(l).or_default() += 1;
                                }
                                if res.nontrivial {
                                    o.nontrivial += 1;
                                    if o.sample.is_none() {
                                        o.sample = Some(ci * chunk + i);
                                    }
                                }
                            }
                            o
                        })
                        .expect("spawn"),
                );
            }
            hs.into_iter().map(|h| h.join().expect("worker")).collect()
        });

        let mut st = SubStats {
            name: sub.to_string(),
            exhaustive: true,
            wall_s: t0.elapsed().as_secs_f64(),
            ..Default::default()
        };
        let mut first_fail: Option<(usize, String, String)> = None;
        for o in outs {
            st.evaluations += o.evals;
            st.nontrivial += o.nontrivial;
            st.inconclusive += o.inconclusive;
            for (l, n) in o.labels {
                *self.labels.entry(format!("{sub}/{l}")).or_default() += n;
            }
            for (k, n) in o.known {
                *st.known_hits.entry(k).or_default() += n;
            }
            if let Some(f) = o.fail {
                if first_fail.as_ref().map(|ff| f.0 < ff.0).unwrap_or(true) {
                    first_fail = Some(f);
                }
            }
            if let Some(s) = o.sample {
                if self.samples.len() < 12 {
                    self.samples.push(json!({"sub": sub, "case": serde_json::to_value(&items[s]).unwrap_or(Value::Null)}));
                }
            }
            self.inconclusive_msgs.extend(o.msgs);
        }
        // Items of an enumeration are distinct by construction.
        st.distinct_nontrivial = st.nontrivial;
        let sigs: Vec<String> = st.known_hits.keys().cloned().collect();
        for s in sigs {
            self.note_known(&s);
        }
        if let Some((idx, sig, detail)) = first_fail {
            st.violations = 1;
            self.record_violation(sub, &sig, &detail, &items[idx]);
        }
        eprintln!(
            "[{}] {sub}: {} enumerated, {} non-trivial, {:.1}s",
            self.id, st.evaluations, st.nontrivial, st.wall_s
        );
        self.subs.push(st);
    }

    /// Record the result of an externally driven sub-check (e.g. a libFuzzer campaign).
    #[allow(clippy::too_many_arguments)]
    pub fn external(
        &mut self,
        sub: &str,
        evaluations: u64,
        nontrivial: u64,
        distinct_nontrivial: u64,
        samples: Vec<Value>,
        violation: Option<(String, String, PathBuf)>,
    ) {
        let mut st = SubStats {
            name: sub.to_string(),
            evaluations,
            nontrivial,
            distinct_nontrivial,
            ..Default::default()
        };
        for s in samples.into_iter().take(3) {
            if self.samples.len() < 16 {
                self.samples.push(json!({"sub": sub, "case": s}));
            }
        }
        if let Some((sig, detail, path)) = violation {
            if self.is_known(&sig) {
                self.note_known(&sig);
                *st.known_hits.entry(sig).or_default() += 1;
            } else {
                st.violations = 1;
                println!("VIOLATION property={} replay={}", self.id, path.display());
                println!("  sub-check: {sub}");
                println!("  signature: {sig}");
                println!("  detail: {detail}");
                self.violations.push((sub.to_string(), sig, path));
            }
        }
        self.subs.push(st);
    }

    /// Write the evidence file and exit with the proper code.
    pub fn finish(self) -> ! {
        let evaluations: u64 = self.subs.iter().map(|s| s.evaluations).sum();
        let distinct: u64 = self.subs.iter().map(|s| s.distinct_nontrivial).sum();
        let inconclusive: u64 = self.subs.iter().map(|s| s.inconclusive).sum();
        let all_exhaustive = !self.subs.is_empty() && self.subs.iter().all(|s| s.exhaustive);
        let subs: Vec<Value> = self
            .subs
            .iter()
            .map(|s| {
                json!({
                    "name": s.name,
                    "evaluations": s.evaluations,
                    "nontrivial": s.nontrivial,
                    "distinct_nontrivial": s.distinct_nontrivial,
                    "exhaustive": s.exhaustive,
                    "inconclusive": s.inconclusive,
                    "violations": s.violations,
                    "known_finding_hits": s.known_hits,
                    "wall_s": (s.wall_s * 1000.0).round() / 1000.0,
                })
            })
            .collect();
        let mut coverage = serde_json::Map::new();
        coverage.insert("evaluations".into(), json!(evaluations));
        coverage.insert("distinct_nontrivial".into(), json!(distinct));
        coverage.insert("rule".into(), json!(self.rule));
        coverage.insert("samples".into(), Value::Array(self.samples.clone()));
        coverage.insert("exhaustive".into(), json!(all_exhaustive));
        coverage.insert("sub_checks".into(), Value::Array(subs));
        coverage.insert("labels".into(), json!(self.labels));
        coverage.insert("inconclusive".into(), json!(inconclusive));
        if !self.inconclusive_msgs.is_empty() {
            coverage.insert(
                "inconclusive_samples".into(),
                json!(self.inconclusive_msgs.iter().take(5).collect::<Vec<_>>()),
            );
        }
        for (k, v) in &self.extra {
            coverage.insert(k.clone(), v.clone());
        }
        let ev = json!({
            "property_id": self.id,
            "tier": if self.args.tier == Tier::Thorough { "thorough" } else { "quick" },
            "seed": self.args.seed as i64,
            "level": self.level,
            "coverage": Value::Object(coverage),
            "assumptions": self.assumptions,
            "wall_s": (self.started.elapsed().as_secs_f64() * 1000.0).round() / 1000.0,
            "violations": self.violations.len(),
        });

        if self.args.replay.is_some() {
            if !self.replay_done {
                eprintln!("replay file does not belong to any sub-check of {}", self.id);
                std::process::exit(2);
            }
        } else if !self.args.no_evidence && self.args.only.is_none() {
            let dir = format!("{}/evidence", verif_dir());
            let _ = std::fs::create_dir_all(&dir);
            // `VERIF_EVIDENCE_PART=<name>`: this binary covers only part of the property; write
            // `evidence/parts/<id>.<name>.json`, merged by `./check`.
            let path = match std::env::var("VERIF_EVIDENCE_PART") {
                Ok(part) if !part.is_empty() => {
                    let _ = std::fs::create_dir_all(format!("{dir}/parts"));
                    format!("{dir}/parts/{}.{part}.json", self.id)
                }
                _ => format!("{dir}/{}.json", self.id),
            };
            if let Err(e) = std::fs::write(&path, serde_json::to_string_pretty(&ev).unwrap()) {
                eprintln!("cannot write {path}: {e}");
                std::process::exit(2);
            }
        }

        eprintln!(
            "[{}] total: {} evaluations, {} distinct non-trivial, {} inconclusive, {} violation(s), {:.1}s",
            self.id,
            evaluations,
            distinct,
            inconclusive,
            self.violations.len(),
            self.started.elapsed().as_secs_f64()
        );

        if !self.violations.is_empty() {
            std::process::exit(1);
        }
        // More than 2% inconclusive cases (or nothing evaluated at all) means the run did not
        // decide anything reliable.
        if evaluations == 0 || inconclusive * 50 > evaluations.max(1) {
            for m in self.inconclusive_msgs.iter().take(5) {
                eprintln!("inconclusive: {m}");
            }
            eprintln!("[{}] INCONCLUSIVE", self.id);
            std::process::exit(2);
        }
        std::process::exit(0);
    }
}

fn run_on_big_stack<R: Send, F: FnOnce() -> R + Send>(f: F) -> R {
    std::thread::scope(|s| {
        std::thread::Builder::new()
            .stack_size(256 << 20)
            .spawn_scoped(s, f)
            .expect("spawn")
            .join()
            .expect("join")
    })
}
