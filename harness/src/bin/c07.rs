//! C07 — Nothing bound to a fabric outlives that fabric.
//!
//! One simulated device (`vh::sim::admin`, the repository's standard root endpoint, Ethernet) and
//! three commissioners, each with its OWN root CA but the SAME administrator node id and the same
//! node id for the device (the common commissioner defaults: that is when a re-used fabric index
//! is exploitable). A generated HISTORY is executed step by step:
//!
//! * commissioning split into its steps — `Pase`, `Arm`, `Csr`, `Root`, `AddNoc`, `Case` (real
//!   CASE handshake on the new fabric; full, or resumed with the commissioner's warm record),
//!   `Subscribe`, `Complete` — so that a history may stop anywhere;
//! * `Remove{x, by}` (OperationalCredentials::RemoveFabric), fail-safe end by `Expire` (timer),
//!   `Arm0` (ArmFailSafe(0)), `Revoke` (AdministratorCommissioning::RevokeCommissioning);
//! * `Restart` (device rebooted from the KV store as it is at that instant; the debounced
//!   resumption-cache writer `Matter::run_persist_resumption` runs as a device task, 500 ms);
//! * probes: `UseOld{x, k}` (IM read of the ACL + CurrentFabricIndex and a write of the breadcrumb
//!   over the k-th CASE session commissioner x ever established and kept), `ResumeOld{x, k}`
//!   (x offers the k-th resumption record it ever held).
//!
//! The harness keeps a GENERATION number per fabric index from the device's public fabric table
//! (bumped when an index disappears or re-appears with another identity).
//!
//! Sub-check `tables` — after every step: every secure session, resumption record and
//! subscription of the device that names index i was created in the current generation of i and
//! i is present; CASE sessions of fabrics the step did not remove are unchanged and still serve a
//! read. Probes as below.
//! Sub-check `probes` — black box, the same histories: only the probes decide. Over a session
//! of a dead generation no attribute data comes back and nothing is written; a record of a dead
//! generation is never answered with Sigma2_Resume; a session of a live generation that the
//! device still holds is served.
//!
//! `C07_TRACE=1` prints every step (use with `--replay`).

use std::collections::{BTreeMap, BTreeSet};

use proptest::prelude::*;
use serde::{Deserialize, Serialize};

use rs_matter::sc::case::ResumableSession;
use rs_matter::transport::session::SessionMode;

use vh::sim::admin::*;
use vh::sim::imdev::ReportBody;
use vh::sim::node::mk_crypto;
use vh::sim::{clock, MemKv, Net, Sched, MS, SEC};
use vh::{Case, Run};

const N_COMM: usize = 3;
/// the same administrator node id in every fabric (chip-tool's default)
const ADMIN_NODE: u64 = 112233;
/// the same node id for the device in every fabric
const DEV_NODE: u64 = 0x2000;
const OP_SIGMA2_RESUME: u8 = 0x33;

const CL_BASIC: u32 = 0x0028;

thread_local! {
    static TAP_FROM: std::cell::Cell<u64> = const { std::cell::Cell::new(0) };
}

// ------------------------------------------------------------------------------------------ case

#[derive(Debug, Clone, PartialEq, Eq, Serialize, Deserialize)]
enum Op {
    Pase(u8),
    Arm(u8, u8),
    Csr(u8),
    Root(u8),
    AddNoc(u8),
    /// CASE handshake of commissioner x with its fabric; `fresh` = forget the warm record first
    Case { x: u8, fresh: bool },
    Subscribe(u8),
    Complete(u8),
    /// SetVIDVerificationStatement by commissioner x over its CASE session (legal before
    /// CommissioningComplete: it touches the fabric that is still staged)
    Vid(u8),
    /// RemoveFabric(fabric of x) sent by commissioner `by`
    Remove { x: u8, by: u8 },
    /// ArmFailSafe(0) by commissioner x (over its PASE session, else its CASE session)
    Arm0(u8),
    /// RevokeCommissioning by commissioner `by` (over CASE)
    Revoke(u8),
    OpenWindow(u8),
    Expire,
    Restart,
    Wait(u16),
    /// (k = 255: the most recent one)
    UseOld { x: u8, k: u8 },
    ResumeOld { x: u8, k: u8 },
    /// CASE handshake of x as a background task; its k-th unencrypted secure-channel message
    /// (either direction, retransmissions not counted) is held back until the removal `rm` has
    /// been executed and answered, then released
    CaseHeld {
        x: u8,
        fresh: bool,
        k: u8,
        rm: Rm,
        early_ack: bool,
        /// the DEVICE opens the handshake towards commissioner x (its fabric's administrator node)
        #[serde(default)]
        dev_initiates: bool,
    },
    /// Subscribe of x as a background task: the StatusResponse to the first / last priming chunk
    /// is held back until the removal `rm` has been executed (on another exchange) and answered
    SubscribeHeld { x: u8, rm: Rm, first: bool, wide: bool },
}

/// What removes the fabric while the handshake is in flight.
#[derive(Debug, Clone, Copy, PartialEq, Eq, Serialize, Deserialize)]
enum Rm {
    Remove { by: u8 },
    Arm0,
    Revoke { by: u8 },
    Expire,
}

#[derive(Debug, Clone, Serialize, Deserialize)]
struct C07Case {
    seed: u32,
    real_pase: bool,
    sched: Option<u64>,
    ops: Vec<Op>,
}

fn comm() -> impl Strategy<Value = u8> {
    0u8..N_COMM as u8
}

fn any_op() -> impl Strategy<Value = Op> {
    prop_oneof![
        2 => comm().prop_map(Op::Pase),
        2 => (comm(), 20u8..90).prop_map(|(x, s)| Op::Arm(x, s)),
        2 => comm().prop_map(Op::Csr),
        2 => comm().prop_map(Op::Root),
        2 => comm().prop_map(Op::AddNoc),
        4 => (comm(), any::<bool>()).prop_map(|(x, fresh)| Op::Case { x, fresh }),
        2 => comm().prop_map(Op::Subscribe),
        3 => comm().prop_map(Op::Complete),
        1 => comm().prop_map(Op::Vid),
        3 => (comm(), comm()).prop_map(|(x, by)| Op::Remove { x, by }),
        2 => comm().prop_map(Op::Arm0),
        2 => comm().prop_map(Op::Revoke),
        1 => comm().prop_map(Op::OpenWindow),
        3 => Just(Op::Expire),
        3 => Just(Op::Restart),
        3 => prop_oneof![0u16..400, 400u16..2500].prop_map(Op::Wait),
        5 => (comm(), 0u8..4).prop_map(|(x, k)| Op::UseOld { x, k }),
        5 => (comm(), 0u8..4).prop_map(|(x, k)| Op::ResumeOld { x, k }),
        2 => (comm(), comm(), 0u8..4, any::<bool>(), any::<bool>()).prop_map(|(x, by, r, first, wide)| Op::SubscribeHeld {
            x,
            first,
            wide,
            rm: match r {
                0 => Rm::Remove { by },
                1 => Rm::Arm0,
                2 => Rm::Revoke { by },
                _ => Rm::Expire,
            },
        }),
        2 => (comm(), any::<bool>(), 1u8..7, comm(), 0u8..4, any::<bool>(), prop::bool::weighted(0.4)).prop_map(|(x, fresh, k, by, r, early_ack, dev_initiates)| Op::CaseHeld {
            x,
            fresh,
            k,
            early_ack,
            dev_initiates,
            rm: match r {
                0 => Rm::Remove { by },
                1 => Rm::Arm0,
                2 => Rm::Revoke { by },
                _ => Rm::Expire,
            },
        }),
    ]
}

#[derive(Debug, Clone)]
enum Phase {
    /// complete commissioning of x
    Full { x: u8, subscribe: bool, secs: u8 },
    /// commissioning of x up to (and including) step `upto`, then `ender`
    Partial { x: u8, upto: u8, ender: u8, by: u8, secs: u8, wait: u16 },
    Remove { x: u8, by: u8 },
    Probes { x: u8, k: u8 },
    Sessions { x: u8, fresh: bool, subscribe: bool },
    Restart { wait: u16 },
    /// x's commissioning is cut short after CASE (and maybe a subscription), y takes over the
    /// index, then x probes
    Takeover { x: u8, y: u8, subscribe: bool, ender: u8, wait: u16, finish_y: bool },
    /// x (committed) is removed by `by`, y is commissioned next, then x probes
    Evict { x: u8, by: u8, y: u8, wait: u16, restart: bool },
    /// x subscribes and the device restarts (the resumed subscription keeps the reporter busy
    /// looking for x); y's commissioning with a subscription is rolled back; z takes the index
    Linger { x: u8, y: u8, z: u8, ender: u8 },
    /// a request over y's (upgraded) PASE session arrives just when the fail-safe is due
    Race { y: u8, secs: u8, pre: u16, delta: u16 },
    /// administrator x removes the fabric y is still commissioning
    EvictPending { x: u8, y: u8, with_case: bool },
    /// x's fabric (pending or committed) is removed while a subscription of x is being primed
    Inprime { x: u8, y: u8, z: u8, pending: bool, first: bool, wide: bool, rm: u8, busy: bool },
    /// x's fabric (pending or committed) is removed while a CASE handshake of x is in flight
    Inflight { x: u8, y: u8, z: u8, pending: bool, fresh: bool, k: u8, rm: u8, early_ack: bool, dev_initiates: bool },
}

fn phase() -> impl Strategy<Value = Phase> {
    prop_oneof![
        4 => (comm(), any::<bool>(), 30u8..90).prop_map(|(x, subscribe, secs)| Phase::Full { x, subscribe, secs }),
        5 => (comm(), 3u8..8, 0u8..6, comm(), 20u8..60, prop_oneof![0u16..300, 600u16..2000])
            .prop_map(|(x, upto, ender, by, secs, wait)| Phase::Partial { x, upto, ender, by, secs, wait }),
        3 => (comm(), comm()).prop_map(|(x, by)| Phase::Remove { x, by }),
        4 => (comm(), 0u8..4).prop_map(|(x, k)| Phase::Probes { x, k }),
        2 => (comm(), any::<bool>(), any::<bool>()).prop_map(|(x, fresh, subscribe)| Phase::Sessions { x, fresh, subscribe }),
        2 => prop_oneof![0u16..300, 600u16..2000].prop_map(|wait| Phase::Restart { wait }),
        6 => (comm(), comm(), any::<bool>(), 0u8..6, prop_oneof![0u16..300, 600u16..2000], any::<bool>())
            .prop_map(|(x, y, subscribe, ender, wait, finish_y)| Phase::Takeover { x, y, subscribe, ender, wait, finish_y }),
        5 => (comm(), comm(), comm(), prop_oneof![0u16..300, 600u16..2000], prop::bool::weighted(0.3))
            .prop_map(|(x, by, y, wait, restart)| Phase::Evict { x, by, y, wait, restart }),
        3 => (comm(), comm(), comm(), 0u8..4).prop_map(|(x, y, z, ender)| Phase::Linger { x, y, z, ender }),
        3 => (comm(), 20u8..40, 0u16..1000, 0u16..700).prop_map(|(y, secs, pre, delta)| Phase::Race { y, secs, pre, delta }),
        3 => (comm(), comm(), any::<bool>()).prop_map(|(x, y, with_case)| Phase::EvictPending { x, y, with_case }),
        8 => (comm(), comm(), comm(), any::<bool>(), any::<bool>(), any::<bool>(), 0u8..8, prop::bool::weighted(0.3))
            .prop_map(|(x, y, z, pending, first, wide, rm, busy)| Phase::Inprime { x, y: if y == x { (x + 1) % N_COMM as u8 } else { y }, z, pending, first, wide, rm, busy }),
        9 => (comm(), comm(), comm(), any::<bool>(), any::<bool>(), 1u8..7, 0u8..8, any::<bool>(), prop::bool::weighted(0.4))
            .prop_map(|(x, y, z, pending, fresh, k, rm, early_ack, dev_initiates)| Phase::Inflight { x, y: if y == x { (x + 1) % N_COMM as u8 } else { y }, z, pending, fresh, k, rm, early_ack, dev_initiates }),
    ]
}

fn expand(p: &Phase) -> Vec<Op> {
    match p {
        Phase::Full { x, subscribe, secs } => {
            let mut v = vec![Op::Pase(*x), Op::Arm(*x, *secs), Op::Csr(*x), Op::Root(*x), Op::AddNoc(*x), Op::Case { x: *x, fresh: true }];
            if *subscribe {
                v.push(Op::Subscribe(*x));
            }
            v.push(Op::Complete(*x));
            v
        }
        Phase::Partial { x, upto, ender, by, secs, wait } => {
            let all = [
                Op::Pase(*x),
                Op::Arm(*x, *secs),
                Op::Csr(*x),
                Op::Root(*x),
                Op::AddNoc(*x),
                Op::Case { x: *x, fresh: true },
                Op::Subscribe(*x),
                Op::Case { x: *x, fresh: false },
            ];
            let mut v: Vec<Op> = all[..(*upto as usize).min(all.len())].to_vec();
            v.push(Op::Wait(*wait));
            v.push(match ender % 6 {
                0 | 1 => Op::Expire,
                2 => Op::Arm0(*x),
                3 => Op::Revoke(*by),
                _ => Op::Restart,
            });
            v
        }
        Phase::Remove { x, by } => vec![Op::Remove { x: *x, by: *by }],
        Phase::Probes { x, k } => vec![Op::UseOld { x: *x, k: *k }, Op::ResumeOld { x: *x, k: *k }, Op::UseOld { x: *x, k: k.wrapping_add(1) }],
        Phase::Sessions { x, fresh, subscribe } => {
            let mut v = vec![Op::Case { x: *x, fresh: *fresh }];
            if *subscribe {
                v.push(Op::Subscribe(*x));
            }
            v
        }
        Phase::Restart { wait } => vec![Op::Wait(*wait), Op::Restart],
        Phase::Takeover { x, y, subscribe, ender, wait, finish_y } => {
            let mut v = vec![Op::Pase(*x), Op::Arm(*x, 30), Op::Csr(*x), Op::Root(*x), Op::AddNoc(*x), Op::Case { x: *x, fresh: true }];
            if *subscribe {
                v.push(Op::Subscribe(*x));
            }
            if *wait % 2 == 0 {
                v.push(Op::Vid(*x));
            }
            v.push(Op::Wait(*wait));
            v.push(match ender % 6 {
                0 | 1 => Op::Expire,
                2 => Op::Arm0(*x),
                3 => Op::Revoke(*y),
                _ => Op::Restart,
            });
            v.extend([Op::Pase(*y), Op::Arm(*y, 60), Op::Csr(*y), Op::Root(*y), Op::AddNoc(*y)]);
            if *finish_y {
                v.extend([Op::Case { x: *y, fresh: true }, Op::Complete(*y)]);
            }
            v.extend([Op::UseOld { x: *x, k: 0 }, Op::ResumeOld { x: *x, k: 0 }, Op::UseOld { x: *x, k: 1 }]);
            v
        }
        Phase::Inprime { x, y, z, pending, first, wide, rm, busy } => {
            let mut v = Vec::new();
            let rm = if *pending {
                match rm % 8 {
                    0 | 1 => Rm::Arm0,
                    2 | 3 => Rm::Revoke { by: *y },
                    4 => Rm::Remove { by: *y },
                    5 => Rm::Remove { by: *x },
                    _ => Rm::Expire,
                }
            } else if rm % 3 == 0 {
                Rm::Remove { by: *y }
            } else {
                Rm::Remove { by: *x }
            };
            v.extend(expand(&Phase::Full { x: *y, subscribe: *busy, secs: 60 }));
            if *busy {
                // after a restart y's resumed subscription keeps the reporter looking for y
                v.push(Op::Restart);
            }
            if *pending {
                let secs = if rm == Rm::Expire { 3 } else { 60 };
                v.extend([Op::Pase(*x), Op::Arm(*x, secs), Op::Csr(*x), Op::Root(*x), Op::AddNoc(*x), Op::Case { x: *x, fresh: true }]);
            } else {
                v.extend(expand(&Phase::Full { x: *x, subscribe: false, secs: 60 }));
            }
            v.push(Op::SubscribeHeld { x: *x, rm, first: *first, wide: *wide });
            v.push(Op::Wait(300));
            // the next commissioner gets the index
            v.extend([Op::Pase(*z), Op::Arm(*z, 60), Op::Csr(*z), Op::Root(*z), Op::AddNoc(*z), Op::Case { x: *z, fresh: true }, Op::Complete(*z)]);
            v.extend([Op::Wait(1200), Op::UseOld { x: *x, k: 255 }]);
            v
        }
        Phase::Inflight { x, y, z, pending, fresh, k, rm, early_ack, dev_initiates } => {
            let mut v = Vec::new();
            let rm = if *pending {
                match rm % 8 {
                    0 | 1 => Rm::Arm0,
                    2 | 3 => Rm::Revoke { by: *y },
                    4 | 5 => Rm::Remove { by: *y },
                    _ => Rm::Expire,
                }
            } else if rm % 2 == 0 {
                Rm::Remove { by: *y }
            } else {
                Rm::Remove { by: *x }
            };
            v.extend(expand(&Phase::Full { x: *y, subscribe: false, secs: 60 }));
            if *pending {
                let secs = if rm == Rm::Expire { 3 } else { 60 };
                v.extend([Op::Pase(*x), Op::Arm(*x, secs), Op::Csr(*x), Op::Root(*x), Op::AddNoc(*x)]);
            } else {
                v.extend(expand(&Phase::Full { x: *x, subscribe: rm == (Rm::Remove { by: *x }), secs: 60 }));
            }
            if !*fresh {
                // a warm record to resume with
                v.push(Op::Case { x: *x, fresh: true });
            }
            v.push(Op::CaseHeld { x: *x, fresh: *fresh, k: *k, rm, early_ack: *early_ack, dev_initiates: *dev_initiates });
            v.extend([Op::UseOld { x: *x, k: 255 }, Op::ResumeOld { x: *x, k: 255 }]);
            // the next commissioner gets the index
            v.extend([Op::Pase(*z), Op::Arm(*z, 60), Op::Csr(*z), Op::Root(*z), Op::AddNoc(*z)]);
            v.extend([Op::UseOld { x: *x, k: 255 }, Op::ResumeOld { x: *x, k: 255 }, Op::UseOld { x: *x, k: 254 }]);
            v
        }
        Phase::Race { y, secs, pre, delta } => vec![
            Op::Wait(*pre),
            Op::Pase(*y),
            Op::Arm(*y, *secs),
            Op::Csr(*y),
            Op::Root(*y),
            Op::AddNoc(*y),
            Op::Wait(*secs as u16 * 1000 + *delta),
            Op::Arm(*y, 60),
            Op::Csr(*y),
            Op::Expire,
        ],
        Phase::EvictPending { x, y, with_case } => {
            let mut v = expand(&Phase::Full { x: *x, subscribe: false, secs: 60 });
            v.extend([Op::Pase(*y), Op::Arm(*y, 40), Op::Csr(*y), Op::Root(*y), Op::AddNoc(*y)]);
            if *with_case {
                v.push(Op::Case { x: *y, fresh: true });
            }
            v.extend([Op::Remove { x: *y, by: *x }, Op::Expire, Op::UseOld { x: *y, k: 0 }]);
            v
        }
        Phase::Linger { x, y, z, ender } => {
            let mut v = expand(&Phase::Full { x: *x, subscribe: true, secs: 60 });
            v.push(Op::Restart);
            v.extend([Op::Pase(*y), Op::Arm(*y, 30), Op::Csr(*y), Op::Root(*y), Op::AddNoc(*y), Op::Case { x: *y, fresh: true }, Op::Subscribe(*y)]);
            v.push(match ender % 4 {
                0 => Op::Expire,
                1 | 2 => Op::Arm0(*y),
                _ => Op::Revoke(*x),
            });
            v.extend([Op::Pase(*z), Op::Arm(*z, 60), Op::Csr(*z), Op::Root(*z), Op::AddNoc(*z), Op::Case { x: *z, fresh: true }, Op::Complete(*z)]);
            v
        }
        Phase::Evict { x, by, y, wait, restart } => {
            let mut v = expand(&Phase::Full { x: *x, subscribe: true, secs: 60 });
            if by != x {
                v.extend(expand(&Phase::Full { x: *by, subscribe: false, secs: 60 }));
                v.push(Op::Case { x: *x, fresh: false });
            }
            v.push(Op::Wait(*wait));
            v.push(Op::Remove { x: *x, by: *by });
            if *restart {
                v.push(Op::Restart);
            }
            v.extend([Op::Pase(*y), Op::Arm(*y, 60), Op::Csr(*y), Op::Root(*y), Op::AddNoc(*y), Op::Case { x: *y, fresh: true }, Op::Complete(*y)]);
            v.extend([Op::UseOld { x: *x, k: 0 }, Op::ResumeOld { x: *x, k: 0 }, Op::UseOld { x: *x, k: 2 }]);
            v
        }
    }
}

fn case_strategy() -> impl Strategy<Value = C07Case> {
    (
        any::<u32>(),
        prop::bool::weighted(0.3),
        prop_oneof![2 => Just(None), 1 => any::<u64>().prop_map(Some)],
        prop::collection::vec(phase(), 1..6),
        prop::collection::vec((any::<u16>(), any_op()), 0..4),
        prop::collection::vec(any::<u16>(), 0..2),
    )
        .prop_map(|(seed, real_pase, sched, phases, inserts, deletes)| {
            let mut ops: Vec<Op> = phases.iter().flat_map(expand).collect();
            for (p, o) in inserts {
                let i = vh::util::pick(p, ops.len() + 1);
                ops.insert(i, o);
            }
            for p in deletes {
                if ops.len() > 2 {
                    ops.remove(vh::util::pick(p, ops.len()));
                }
            }
            ops.truncate(90);
            C07Case { seed, real_pase, sched, ops }
        })
}

// ------------------------------------------------------------------------------------------ state

#[derive(Debug, Clone)]
struct Kept {
    pair: SessPair,
    idx: u8,
    gen: u32,
    /// device incarnation in which the session was established
    boot: u32,
}

#[derive(Clone)]
struct KeptRec {
    rec: ResumableSession,
    idx: u8,
    gen: u32,
}

#[derive(Default)]
struct Comm {
    pase: Option<SessPair>,
    csr: Option<Vec<u8>>,
    /// device-side index of this commissioner's fabric, while the device's table shows it
    fab: Option<u8>,
    committed: bool,
    cur: Option<SessPair>,
    kept: Vec<Kept>,
    recs: Vec<KeptRec>,
    /// (subscription id, device fabric index, generation, device incarnation) of every subscription it made
    subs: Vec<(u32, u8, u32, u32)>,
    /// number of reports already looked at
    reports_seen: usize,
}

#[derive(Default)]
struct Tracker {
    gen: BTreeMap<u8, u32>,
    /// index -> (fabric id, root hash)
    present: BTreeMap<u8, (u64, u32)>,
    sess: BTreeMap<u32, (u8, u32)>,
    recs: BTreeMap<(u8, u32), u32>,
    subs: BTreeMap<u32, (u8, u32)>,
    /// indices that disappeared while the device held something bound to them
    gone_with_objects: BTreeSet<u8>,
}

impl Tracker {
    fn gen_of(&self, idx: u8) -> u32 {
        self.gen.get(&idx).copied().unwrap_or(0)
    }

    fn live(&self, idx: u8, gen: u32) -> bool {
        self.present.contains_key(&idx) && self.gen_of(idx) == gen
    }
}

struct Progress {
    pos: usize,
    boot_no: u32,
    verdict: Option<Case>,
    labels: Vec<String>,
    nontrivial: bool,
    restart_pending: bool,
}

fn fail(p: &mut Progress, sig: &str, detail: String) {
    if p.verdict.is_none() {
        p.verdict = Some(Case::fail(sig, detail));
    }
}

fn sess_fab(mode: &SessionMode) -> Option<u8> {
    match mode {
        SessionMode::Case { fab_idx, .. } => Some(fab_idx.get()),
        SessionMode::Pase { fab_idx } if *fab_idx != 0 => Some(*fab_idx),
        _ => None,
    }
}

/// What the device holds that is bound to a fabric index: (sessions, records, subscriptions).
fn bound_objects<CC: rs_matter::crypto::Crypto>(b: &Boot<'_, CC>) -> BTreeSet<u8> {
    let mut s = BTreeSet::new();
    for x in b.device_sessions() {
        if let Some(i) = sess_fab(&x.mode) {
            if !x.reserved {
                s.insert(i);
            }
        }
    }
    for r in b.resumption_records() {
        s.insert(r.fab_idx);
    }
    for r in b.live_subscriptions() {
        s.insert(r.fab_idx);
    }
    s
}

/// Bring the generation numbers up to date from the device's fabric table; returns the indices
/// whose generation was bumped.
fn update_generations<CC: rs_matter::crypto::Crypto>(b: &Boot<'_, CC>, t: &mut Tracker, before: &BTreeSet<u8>) -> BTreeSet<u8> {
    let now: BTreeMap<u8, (u64, u32)> = b.fabric_identities().into_iter().map(|(i, fid, _n, root)| (i, (fid, root))).collect();
    let mut bumped = BTreeSet::new();
    let old: Vec<u8> = t.present.keys().copied().collect();
    for i in old {
        match now.get(&i) {
            Some(id) if *id == t.present[&i] => {}
            _ => {
                *t.gen.entry(i).or_insert(0) += 1;
                t.present.remove(&i);
                bumped.insert(i);
                if before.contains(&i) {
                    t.gone_with_objects.insert(i);
                }
            }
        }
    }
    for (i, id) in now {
        t.present.entry(i).or_insert(id);
    }
    bumped
}

/// The table invariant. `None` = holds.
fn check_tables<CC: rs_matter::crypto::Crypto>(b: &Boot<'_, CC>, t: &mut Tracker, after: &str) -> Option<(String, String)> {
    // sessions
    let sessions = b.device_sessions();
    let ids: BTreeSet<u32> = sessions.iter().map(|s| s.id).collect();
    t.sess.retain(|id, _| ids.contains(id));
    for s in &sessions {
        let Some(i) = sess_fab(&s.mode) else { continue };
        if s.reserved || s.expired {
            // an expired session only lets its last answer out; the probes test that it refuses new exchanges
            continue;
        }
        let kind = if matches!(s.mode, SessionMode::Case { .. }) { "CASE" } else { "PASE" };
        match t.sess.get(&s.id) {
            None => {
                if !t.present.contains_key(&i) {
                    return Some((
                        format!("stale:{}-session-of-absent-fabric", kind.to_lowercase()),
                        format!("{after}: the device holds a {kind} session (id {}, local session id {}, peer node {:x?}) bound to fabric index {i}, and there is no fabric {i}", s.id, s.local_sess_id, s.peer_nodeid),
                    ));
                }
                t.sess.insert(s.id, (i, t.gen_of(i)));
            }
            Some((i0, g0)) => {
                if *i0 != i {
                    t.sess.insert(s.id, (i, t.gen_of(i)));
                    continue;
                }
                if !t.present.contains_key(&i) {
                    return Some((
                        format!("stale:{}-session-of-absent-fabric", kind.to_lowercase()),
                        format!("{after}: fabric {i} is gone, but the device still holds the {kind} session (id {}, local session id {}, peer node {:x?}) established on it", s.id, s.local_sess_id, s.peer_nodeid),
                    ));
                }
                if *g0 != t.gen_of(i) {
                    return Some((
                        format!("stale:{}-session-of-replaced-fabric", kind.to_lowercase()),
                        format!("{after}: the {kind} session (id {}, peer node {:x?}) was established on an earlier fabric with index {i} (generation {g0}); index {i} now belongs to another fabric (generation {}) and the session is still there", s.id, s.peer_nodeid, t.gen_of(i)),
                    ));
                }
            }
        }
    }
    // resumption records
    let recs = b.resumption_records();
    // (records are remembered for good: one that vanished may come back from the store after a restart)
    for r in &recs {
        let i = r.fab_idx;
        let k = (i, r.secret_hash);
        match t.recs.get(&k) {
            None => {
                if !t.present.contains_key(&i) {
                    return Some((
                        "stale:resumption-record-of-absent-fabric".into(),
                        format!("{after}: the resumption cache holds a record for (fabric index {i}, peer node {:#x}), and there is no fabric {i}", r.peer_node_id),
                    ));
                }
                t.recs.insert(k, t.gen_of(i));
            }
            Some(g0) => {
                if !t.present.contains_key(&i) {
                    return Some((
                        "stale:resumption-record-of-absent-fabric".into(),
                        format!("{after}: fabric {i} is gone, but its resumption record for peer node {:#x} is still in the cache", r.peer_node_id),
                    ));
                }
                if *g0 != t.gen_of(i) {
                    return Some((
                        "stale:resumption-record-of-replaced-fabric".into(),
                        format!("{after}: the resumption record for (index {i}, peer node {:#x}) was created for an earlier fabric with that index (generation {g0}, now {})", r.peer_node_id, t.gen_of(i)),
                    ));
                }
            }
        }
    }
    // the fail-safe context
    let gone: Vec<u8> = (1u8..=254).filter(|i| !t.present.contains_key(i) && b.failsafe_armed_for(*i)).collect();
    if let Some(i) = gone.first() {
        return Some((
            "stale:failsafe-context-of-absent-fabric".into(),
            format!("{after}: the fail-safe is armed for fabric index {i}, and there is no fabric {i}"),
        ));
    }
    // subscriptions: the reporter drops the subscriptions of a missing fabric the next time it
    // wakes, so one that names an ABSENT index is tolerated (it cannot be reported on); one that
    // names an index which now belongs to another fabric is not.
    let subs = b.live_subscriptions();
    let ids: BTreeSet<u32> = subs.iter().map(|s| s.id).collect();
    t.subs.retain(|id, _| ids.contains(id));
    for s in &subs {
        let i = s.fab_idx;
        match t.subs.get(&s.id) {
            None => {
                if t.present.contains_key(&i) {
                    t.subs.insert(s.id, (i, t.gen_of(i)));
                } else {
                    // committed for an index that is absent already (its priming was completed after
                    // the removal): tolerated while the index stays absent, but it belongs to no
                    // generation the index will ever have
                    t.subs.insert(s.id, (i, u32::MAX));
                }
            }
            Some((i0, g0)) => {
                if *i0 == i && t.present.contains_key(&i) && *g0 != t.gen_of(i) {
                    return Some((
                        "stale:subscription-of-replaced-fabric".into(),
                        format!(
                            "{after}: subscription {} of peer node {:#x} {}; index {i} now belongs to another fabric (generation {}) and the subscription is still in the table",
                            s.id,
                            s.peer_node_id,
                            if *g0 == u32::MAX {
                                format!("was committed for index {i} when its fabric was already gone (its priming was completed after the removal)")
                            } else {
                                format!("was accepted on an earlier fabric with index {i} (generation {g0})")
                            },
                            t.gen_of(i)
                        ),
                    ));
                }
            }
        }
    }
    None
}

struct World {
    kits: Vec<FabricKit>,
}

#[allow(clippy::too_many_arguments)]
fn run_segment<CC: rs_matter::crypto::Crypto>(
    b: &mut Boot<'_, CC>,
    case: &C07Case,
    tables: bool,
    w: &World,
    comms: &mut [Comm],
    t: &mut Tracker,
    p: &mut Progress,
    ctrl_fab: &[core::num::NonZeroU8],
) {
    let gen = mk_crypto(case.seed ^ 0x5eed ^ (p.boot_no << 8));
    let trace = std::env::var_os("C07_TRACE").is_some();
    b.op_timeout = 30 * SEC;

    // ---- after a (re)boot
    if p.boot_no > 0 {
        t.sess.clear();
        // resumed persisted subscriptions get new ids: they are judged as new ones
        t.subs.clear();
        for c in comms.iter_mut() {
            c.pase = None;
            c.csr = None;
            // the device lost every session (the commissioner still keeps its half in `kept`)
            c.cur = None;
        }
        let before: BTreeSet<u8> = t.present.keys().copied().collect(); // whatever was bound is judged after the boot
        let bumped = update_generations(b, t, &before);
        sync_comms(b, comms, t, &bumped);
        if tables {
            if let Some((sig, d)) = check_tables(b, t, &format!("after restart #{}", p.boot_no)) {
                fail(p, &sig, d);
                return;
            }
        }
    } else {
        update_generations(b, t, &BTreeSet::new());
    }

    while p.pos < case.ops.len() && p.verdict.is_none() {
        if let Some(e) = b.dm_run_exited() {
            fail(p, "dm-run-terminated", format!("InteractionModel::run (fail-safe timer, subscription reporter) returned {e} before step #{}", p.pos));
            return;
        }
        let op = case.ops[p.pos].clone();
        let step = p.pos;
        p.pos += 1;
        let before_objects = bound_objects(b);
        // (re-taken right before a removal command, after any CASE session the step itself needed)
        let mut before_sessions = b.device_sessions();
        // subscriptions whose fabric was already gone when this step began: no report may arrive for them
        // (subscription ids are re-assigned when the device resumes its persisted subscriptions after a
        // restart: only the subscriptions made in this incarnation are judged by their id)
        let dead_subs: Vec<Vec<u32>> = comms
            .iter()
            .map(|c| {
                let live: Vec<u32> = c.subs.iter().filter(|(_, i, g, bt)| *bt == p.boot_no && t.live(*i, *g)).map(|s| s.0).collect();
                if p.boot_no > 0 {
                    // resumed subscriptions of earlier incarnations may bear any id
                    return Vec::new();
                }
                c.subs.iter().filter(|(id, i, g, bt)| *bt == p.boot_no && !t.live(*i, *g) && !live.contains(id)).map(|s| s.0).collect()
            })
            .collect();
        for (xi, c) in comms.iter_mut().enumerate() {
            c.reports_seen = b.ctrls[xi].reports.borrow().len();
        }
        let mut note = String::new();
        let mut removal_step = false;

        match &op {
            Op::Wait(ms) => {
                b.run_for(*ms as u64 * MS);
            }
            Op::Restart => {
                p.restart_pending = true;
                p.labels.push("restart".into());
                return;
            }
            Op::Expire => {
                // (a lot of virtual time passes here: sessions may come and go for unrelated reasons, e.g.
                // the reporter giving up on an unreachable subscriber, so the "other fabrics are
                // unaffected" comparison is confined to the instantaneous removals)
                let mut n = 0;
                while b.failsafe_armed() && n < 40 {
                    b.run_for(5 * SEC);
                    n += 1;
                }
                if n > 0 {
                    p.labels.push("failsafe-expired-by-timer".into());
                }
                if b.failsafe_armed() {
                    fail(p, "failsafe-never-expires", format!("step #{step}: the fail-safe is still armed after 200 s"));
                    return;
                }
            }
            Op::Pase(x) => {
                let x = *x as usize;
                if let Some(s) = &comms[x].pase {
                    if !b.device_has_session(s) {
                        comms[x].pase = None;
                    }
                }
                if comms[x].pase.is_none() {
                    if !b.window_open() {
                        // an administrator of a committed fabric opens the window
                        let opener = (0..N_COMM).find(|y| comms[*y].committed && comms[*y].fab.is_some());
                        if let Some(y) = opener {
                            if let Some(sp) = ensure_case(b, comms, t, y, ctrl_fab, p) {
                                let o = b.invoke(y, sp.ctrl_sid, &Cmd::OpenBasicWindow { timeout: 600 });
                                note = format!("window opened by {y}: {}", o.brief());
                            }
                        }
                    }
                    if b.window_open() {
                        let r = if case.real_pase { b.pase_handshake(x, PASSCODE) } else { b.plant_pase(x) };
                        match r {
                            Ok(s) => {
                                comms[x].pase = Some(s);
                                comms[x].csr = None;
                                p.labels.push(if case.real_pase { "real-pase" } else { "planted-pase" }.into());
                            }
                            Err(e) => note = format!("{note} pase failed: {e}"),
                        }
                    } else {
                        p.labels.push("skipped:no-window".into());
                    }
                }
            }
            Op::Arm(x, secs) => {
                if let Some(s) = comms[*x as usize].pase {
                    let o = b.invoke(*x as usize, s.ctrl_sid, &Cmd::ArmFailSafe { secs: *secs as u16, breadcrumb: 1 });
                    note = o.brief();
                }
            }
            Op::Csr(x) => {
                if let Some(s) = comms[*x as usize].pase {
                    let o = b.invoke(*x as usize, s.ctrl_sid, &Cmd::CsrRequest { nonce: vec![step as u8 ^ 0xa5; 32], for_update: None });
                    if let Outcome::Response { csr: Some(c), .. } = &o {
                        comms[*x as usize].csr = Some(c.clone());
                    }
                    note = o.brief();
                }
            }
            Op::Root(x) => {
                if let Some(s) = comms[*x as usize].pase {
                    let o = b.invoke(*x as usize, s.ctrl_sid, &Cmd::AddTrustedRoot { rcac: w.kits[*x as usize].ca.rcac.clone() });
                    note = o.brief();
                }
            }
            Op::AddNoc(x) => {
                let xi = *x as usize;
                if let (Some(s), Some(csr)) = (comms[xi].pase, comms[xi].csr.clone()) {
                    let kit = &w.kits[xi];
                    match kit.ca.issue(&gen, &csr, DEV_NODE, &[]) {
                        Ok(noc) => {
                            let o = b.invoke(
                                xi,
                                s.ctrl_sid,
                                &Cmd::AddNoc { noc, icac: kit.icac(), ipk: kit.ca.ipk.to_vec(), admin_subject: ADMIN_NODE, vendor_id: 0xFFF1 },
                            );
                            if let Outcome::Response { code: 0, fabric_index: Some(i), .. } = &o {
                                comms[xi].fab = Some(*i);
                                comms[xi].committed = false;
                                comms[xi].cur = None;
                                p.labels.push("addnoc".into());
                                if t.gone_with_objects.contains(i) {
                                    p.nontrivial = true;
                                    p.labels.push("index-reused-after-loss-with-objects".into());
                                }
                            }
                            note = o.brief();
                        }
                        Err(e) => {
                            p.verdict = Some(Case::inconclusive(format!("cannot issue a NOC: {:?}", e.code())));
                            return;
                        }
                    }
                }
            }
            Op::Case { x, fresh } => {
                let xi = *x as usize;
                if comms[xi].fab.is_some() {
                    if *fresh {
                        let f = ctrl_fab[xi];
                        b.ctrls[xi].matter.with_state(|s| s.resumption.remove_by_peer(f, DEV_NODE));
                    }
                    note = do_case(b, comms, t, xi, ctrl_fab, p).1;
                }
            }
            Op::Subscribe(x) => {
                let xi = *x as usize;
                if comms[xi].fab.is_some() {
                    if let Some(sp) = ensure_case(b, comms, t, xi, ctrl_fab, p) {
                        let o = b.subscribe(xi, sp.ctrl_sid, &[(0, CL_BASIC, 5)], 0, 1000, true);
                        if let Some((id, _)) = o.subscribed {
                            p.labels.push("subscribed".into());
                            let idx = comms[xi].fab.unwrap_or(0);
                            comms[xi].subs.push((id, idx, t.gen_of(idx), p.boot_no));
                        }
                        note = format!("subscribed={:?} status={:?} err={:?}", o.subscribed, o.status, o.error);
                    }
                }
            }
            Op::Complete(x) => {
                let xi = *x as usize;
                if comms[xi].fab.is_some() && !comms[xi].committed {
                    if let Some(sp) = ensure_case(b, comms, t, xi, ctrl_fab, p) {
                        let o = b.invoke(xi, sp.ctrl_sid, &Cmd::CommissioningComplete);
                        if o.accepted() {
                            comms[xi].committed = true;
                            for c in comms.iter_mut() {
                                c.pase = None;
                            }
                            p.labels.push("committed".into());
                        }
                        note = o.brief();
                    }
                }
            }
            Op::Vid(x) => {
                let xi = *x as usize;
                if comms[xi].fab.is_some() {
                    if let Some(sp) = ensure_case(b, comms, t, xi, ctrl_fab, p) {
                        let o = b.invoke(xi, sp.ctrl_sid, &Cmd::SetVidStatement { vendor_id: Some(0xFFF1), statement: None });
                        if o.accepted() {
                            p.labels.push(if comms[xi].committed { "vid-statement-on-committed-fabric" } else { "vid-statement-on-staged-fabric" }.into());
                        }
                        note = format!("SetVIDVerificationStatement -> {}", o.brief());
                    }
                }
            }
            Op::Remove { x, by } => {
                let (xi, yi) = (*x as usize, *by as usize);
                if comms[yi].committed && comms[yi].fab.is_some() {
                    if let Some(sp) = ensure_case(b, comms, t, yi, ctrl_fab, p) {
                        let idx = comms[xi].fab.unwrap_or(9);
                        removal_step = true;
                        before_sessions = b.device_sessions();
                        let o = b.invoke(yi, sp.ctrl_sid, &Cmd::RemoveFabric { idx });
                        if o.accepted() {
                            p.labels.push(if xi == yi { "removed-own-fabric" } else { "removed-other-fabric" }.into());
                        }
                        note = format!("RemoveFabric({idx}) -> {}", o.brief());
                        // let the reporter and the transport digest the removal
                        b.run_for(10 * MS);
                    }
                }
            }
            Op::Arm0(x) => {
                let xi = *x as usize;
                let sp = match comms[xi].pase {
                    Some(s) if b.device_has_session(&s) => Some(s),
                    _ => {
                        if comms[xi].fab.is_some() {
                            ensure_case(b, comms, t, xi, ctrl_fab, p)
                        } else {
                            None
                        }
                    }
                };
                if let Some(sp) = sp {
                    removal_step = true;
                    before_sessions = b.device_sessions();
                    let was = b.failsafe_armed();
                    let o = b.invoke(xi, sp.ctrl_sid, &Cmd::ArmFailSafe { secs: 0, breadcrumb: 0 });
                    if was && !b.failsafe_armed() {
                        p.labels.push("failsafe-expired-by-arm0".into());
                    }
                    note = o.brief();
                }
            }
            Op::Revoke(by) => {
                let yi = *by as usize;
                if comms[yi].committed && comms[yi].fab.is_some() {
                    if let Some(sp) = ensure_case(b, comms, t, yi, ctrl_fab, p) {
                        removal_step = true;
                        before_sessions = b.device_sessions();
                        let was = b.failsafe_armed();
                        let o = b.invoke(yi, sp.ctrl_sid, &Cmd::RevokeCommissioning);
                        if was && !b.failsafe_armed() {
                            p.labels.push("failsafe-expired-by-revoke".into());
                        }
                        note = o.brief();
                        b.run_for(10 * MS);
                    }
                }
            }
            Op::OpenWindow(by) => {
                let yi = *by as usize;
                if comms[yi].committed && comms[yi].fab.is_some() {
                    if let Some(sp) = ensure_case(b, comms, t, yi, ctrl_fab, p) {
                        let o = b.invoke(yi, sp.ctrl_sid, &Cmd::OpenBasicWindow { timeout: 600 });
                        note = o.brief();
                    }
                }
            }
            Op::SubscribeHeld { x, rm, first, wide } => {
                let xi = *x as usize;
                'held: {
                    let Some(idx0) = comms[xi].fab else {
                        p.labels.push("inprime:skipped-no-fabric".into());
                        break 'held;
                    };
                    let gen0 = t.gen_of(idx0);
                    let Some(sp) = ensure_case(b, comms, t, xi, ctrl_fab, p) else {
                        p.labels.push("inprime:skipped-no-session".into());
                        break 'held;
                    };
                    // the removal runs on another exchange - of the same session when x removes itself
                    let rm_sess: Option<(usize, SessPair)> = match rm {
                        Rm::Remove { by } | Rm::Revoke { by } => {
                            let yi = *by as usize;
                            if yi == xi {
                                Some((xi, sp))
                            } else if comms[yi].committed && comms[yi].fab.is_some() {
                                ensure_case(b, comms, t, yi, ctrl_fab, p).map(|s| (yi, s))
                            } else {
                                None
                            }
                        }
                        Rm::Arm0 => match comms[xi].pase {
                            Some(ps) if b.device_has_session(&ps) => Some((xi, ps)),
                            _ => Some((xi, sp)),
                        },
                        Rm::Expire => None,
                    };
                    if rm_sess.is_none() && !(*rm == Rm::Expire && b.failsafe_armed_for(idx0)) {
                        p.labels.push("inprime:skipped-removal-not-possible".into());
                        break 'held;
                    }
                    let gate = std::rc::Rc::new(vh::sim::imdev::SubGate::new(if *first { vh::sim::imdev::HoldChunk::First } else { vh::sim::imdev::HoldChunk::Last }));
                    let paths: Vec<(Option<u16>, Option<u32>, Option<u32>)> = if *wide { vec![(Some(0), None, None)] } else { vec![(Some(0), Some(CL_BASIC), Some(5))] };
                    let task = b.subscribe_spawn(xi, sp.ctrl_sid, &paths, 0, 1000, true, gate.clone());
                    let reached = {
                        let g = gate.clone();
                        b.run_until_or_subscribe_end(&task, 3 * SEC, move || g.reached.get().is_some())
                    };
                    let mut removal = String::from("-");
                    let mut gone = false;
                    if reached {
                        let o = match (rm, rm_sess) {
                            (Rm::Remove { .. }, Some((yi, s))) => Some(b.invoke(yi, s.ctrl_sid, &Cmd::RemoveFabric { idx: idx0 })),
                            (Rm::Arm0, Some((yi, s))) => Some(b.invoke(yi, s.ctrl_sid, &Cmd::ArmFailSafe { secs: 0, breadcrumb: 0 })),
                            (Rm::Revoke { .. }, Some((yi, s))) => Some(b.invoke(yi, s.ctrl_sid, &Cmd::RevokeCommissioning)),
                            _ => {
                                let mut n = 0;
                                while b.failsafe_armed() && n < 24 {
                                    b.run_for(500 * MS);
                                    n += 1;
                                }
                                None
                            }
                        };
                        gone = !b.fabric_identities().iter().any(|fi| fi.0 == idx0);
                        removal = format!("{} gone={gone}", o.map(|o| o.brief()).unwrap_or_else(|| "timer".into()));
                        if gone {
                            p.labels.push(format!(
                                "inprime:removal-at-{}-chunk:{}:{}",
                                if gate.reached.get() == Some(0) && *first { "first" } else { "last" },
                                match rm {
                                    Rm::Remove { by } if *by as usize == xi => "remove-own-same-session",
                                    Rm::Remove { .. } => "remove-by-other",
                                    Rm::Arm0 => "arm0",
                                    Rm::Revoke { .. } => "revoke",
                                    Rm::Expire => "timer",
                                },
                                if *wide { "wildcard" } else { "one-attribute" }
                            ));
                            p.labels.push("inprime:removal-inside-a-priming".into());
                            p.nontrivial = true;
                        } else {
                            p.labels.push("inprime:removal-refused".into());
                        }
                    } else {
                        p.labels.push("inprime:priming-over-before-the-hold".into());
                    }
                    gate.release.set(true);
                    let out = b.subscribe_finish(task, 30 * SEC);
                    // give the reporter a round
                    b.run_for(100 * MS);
                    note = format!("hold reached={:?} removal: {removal}; subscribe: subscribed={:?} status={:?} err={:?} chunks={}", gate.reached.get(), out.subscribed, out.status, out.error, out.chunks);
                    if let Some((id, _)) = out.subscribed {
                        comms[xi].subs.push((id, idx0, gen0, p.boot_no));
                        if gone {
                            p.labels.push("inprime:subscribe-response-after-removal".into());
                        }
                    }
                }
            }
            Op::CaseHeld { x, fresh, k, rm, early_ack, dev_initiates } => {
                let xi = *x as usize;
                'held: {
                    let Some(idx0) = comms[xi].fab else {
                        p.labels.push("inflight:skipped-no-fabric".into());
                        break 'held;
                    };
                    let gen0 = t.gen_of(idx0);
                    let f = ctrl_fab[xi];
                    // whatever the removal needs is set up before the handshake starts
                    let rm_sess: Option<(usize, SessPair)> = match rm {
                        Rm::Remove { by } | Rm::Revoke { by } => {
                            let yi = *by as usize;
                            if comms[yi].committed && comms[yi].fab.is_some() {
                                ensure_case(b, comms, t, yi, ctrl_fab, p).map(|sp| (yi, sp))
                            } else {
                                None
                            }
                        }
                        Rm::Arm0 => match comms[xi].pase {
                            Some(sp) if b.device_has_session(&sp) => Some((xi, sp)),
                            _ => ensure_case(b, comms, t, xi, ctrl_fab, p).map(|sp| (xi, sp)),
                        },
                        Rm::Expire => None,
                    };
                    if rm_sess.is_none() && !(*rm == Rm::Expire && b.failsafe_armed_for(idx0)) {
                        p.labels.push("inflight:skipped-removal-not-possible".into());
                        break 'held;
                    }
                    let admin_node = w.kits[xi].admin_node;
                    let dev_fab = core::num::NonZeroU8::new(idx0);
                    if *dev_initiates {
                        if *fresh {
                            if let Some(df) = dev_fab {
                                b.matter.with_state(|s| s.resumption.remove_by_peer(df, admin_node));
                            }
                        }
                        p.labels.push("inflight:device-initiates".into());
                    } else if *fresh {
                        b.ctrls[xi].matter.with_state(|s| s.resumption.remove_by_peer(f, DEV_NODE));
                    } else if b.ctrls[xi].matter.with_state(|s| s.resumption.find_by_peer(f, DEV_NODE).is_none()) {
                        let _ = do_case(b, comms, t, xi, ctrl_fab, p);
                    }
                    let from = b.tap_pos();
                    let hold = b.hold_install(xi, *k as usize);
                    let task = match (*dev_initiates, dev_fab) {
                        (true, Some(df)) => b.dev_case_spawn(xi, df, admin_node),
                        _ => b.case_spawn(xi, f, DEV_NODE),
                    };
                    let reached = {
                        let h = &hold;
                        b.run_until_or_case_end(&task, 3 * SEC, || h.held().is_some())
                    };
                    let mut removal = String::from("-");
                    if reached {
                        let m = hold.held().unwrap();
                        let name = match m.opcode {
                            0x10 => "ack",
                            0x30 => "sigma1",
                            0x31 => "sigma2",
                            0x32 => "sigma3",
                            0x33 => "sigma2resume",
                            0x40 => "status",
                            _ => "other",
                        };
                        // the initiator acknowledges first and sends the held message late
                        let acked = *early_ack && b.hold_early_ack(&hold);
                        let o = match (rm, rm_sess) {
                            (Rm::Remove { .. }, Some((yi, sp))) => Some(b.invoke(yi, sp.ctrl_sid, &Cmd::RemoveFabric { idx: idx0 })),
                            (Rm::Arm0, Some((yi, sp))) => Some(b.invoke(yi, sp.ctrl_sid, &Cmd::ArmFailSafe { secs: 0, breadcrumb: 0 })),
                            (Rm::Revoke { .. }, Some((yi, sp))) => Some(b.invoke(yi, sp.ctrl_sid, &Cmd::RevokeCommissioning)),
                            _ => {
                                let mut n = 0;
                                while b.failsafe_armed() && n < 24 {
                                    b.run_for(500 * MS);
                                    n += 1;
                                }
                                None
                            }
                        };
                        let gone = !b.fabric_identities().iter().any(|fi| fi.0 == idx0);
                        removal = format!("{} gone={gone}", o.map(|o| o.brief()).unwrap_or_else(|| "timer".into()));
                        if gone {
                            p.labels.push(format!(
                                "inflight:removal-at-msg{}:{}{}:{}:{}:{}",
                                k,
                                name,
                                if acked { "+early-ack" } else { "" },
                                if m.src == 0 { "from-device" } else { "to-device" },
                                if *fresh { "full" } else { "resume" },
                                match rm {
                                    Rm::Remove { by } if *by as usize == xi => "remove-own",
                                    Rm::Remove { .. } => "remove-by-other",
                                    Rm::Arm0 => "arm0",
                                    Rm::Revoke { .. } => "revoke",
                                    Rm::Expire => "timer",
                                }
                            ));
                            p.labels.push(format!("inflight:removal-at-msg{k}"));
                            p.nontrivial = true;
                        } else {
                            p.labels.push("inflight:removal-refused".into());
                        }
                    } else {
                        p.labels.push("inflight:handshake-over-before-msg-k".into());
                    }
                    b.hold_release(&hold);
                    let end = b.case_finish(task, 30 * SEC);
                    b.hold_clear();
                    let resumed = b.device_sc_opcodes_since(from).contains(&OP_SIGMA2_RESUME);
                    note = format!("held={:?} removal: {removal}; handshake {:?} resumed={resumed} ctrl_sid={:?} dev_sid={:?}", hold.held().map(|m| (m.opcode, m.src)), end.result, end.ctrl_sid, end.dev_sid);
                    if *dev_initiates {
                        // (the sessions and records this leaves on the DEVICE are covered by the
                        // table invariant; the commissioner's end is not used for probes)
                        if end.result.is_ok() {
                            p.labels.push("inflight:device-initiated-handshake-completed".into());
                        }
                    } else if let Some(ctrl_sid) = end.ctrl_sid {
                        // whatever came out of it was begun in generation gen0 of the index
                        let pair = SessPair { ctrl_sid, dev_sid: end.dev_sid.unwrap_or(u32::MAX), dev_local_sess: end.dev_local_sess.unwrap_or(0), ctrl: xi };
                        comms[xi].kept.push(Kept { pair, idx: idx0, gen: gen0, boot: p.boot_no });
                        if end.dev_sid.is_some() {
                            comms[xi].cur = Some(pair);
                            p.labels.push("inflight:session-established".into());
                        }
                    }
                    // the record the commissioner holds now (new or rotated) dates from generation gen0 too
                    let rec: Option<ResumableSession> =
                        if *dev_initiates { None } else { b.ctrls[xi].matter.with_state(|s| s.resumption.find_by_peer(f, DEV_NODE).cloned()) };
                    if let Some(rec) = rec {
                        let rid = rec.resumption_id.reference().access().to_vec();
                        if !comms[xi].recs.iter().any(|kr| kr.rec.resumption_id.reference().access().as_slice() == rid.as_slice()) {
                            comms[xi].recs.push(KeptRec { rec, idx: idx0, gen: gen0 });
                        }
                    }
                }
            }
            Op::UseOld { x, k } => {
                let xi = *x as usize;
                if !comms[xi].kept.is_empty() {
                    let n = comms[xi].kept.len();
                    let kept = comms[xi].kept[if *k >= 254 { n.saturating_sub(256 - *k as usize) } else { *k as usize % n }].clone();
                    let live = t.live(kept.idx, kept.gen);
                    let held = kept.boot == p.boot_no && b.device_has_session(&kept.pair);
                    let bc_before = b.breadcrumb();
                    let bc_new = 0xC070_0000u64 + step as u64 * 16 + xi as u64;
                    let r = b.read(xi, kept.pair.ctrl_sid, &[(0, CL_ACL, 0), (0, CL_OP_CREDS, 5)], true);
                    let wr = b.invoke(xi, kept.pair.ctrl_sid, &Cmd::WriteBreadcrumb { value: bc_new });
                    let data: Vec<String> = r
                        .attrs
                        .iter()
                        .filter_map(|a| match &a.body {
                            ReportBody::Data { value, .. } => Some(format!("{:#x}/{:#x}={:?}", a.path.cluster.unwrap_or(0), a.path.leaf.unwrap_or(0), value)),
                            _ => None,
                        })
                        .collect();
                    let wrote = b.breadcrumb() == bc_new && bc_before != bc_new;
                    note = format!("session of index {} gen {} live={live} held={held}: data={} wrote={wrote} (read err {:?}, write {})", kept.idx, kept.gen, data.len(), r.error, wr.brief());
                    if !live {
                        p.labels.push("probe-old-session".into());
                        if t.gone_with_objects.contains(&kept.idx) || held {
                            p.nontrivial = true;
                        }
                        if !data.is_empty() {
                            let d: String = data.join("; ").chars().take(300).collect();
                            fail(
                                p,
                                "probe:old-session-served-data",
                                format!("step #{step}: commissioner {xi} read over the CASE session it established when index {} held its fabric (generation {}, now {}{}) and got attribute data: {d}", kept.idx, kept.gen, t.gen_of(kept.idx), if t.present.contains_key(&kept.idx) { ", index in use by another fabric" } else { ", index absent" }),
                            );
                            return;
                        }
                        if wrote {
                            fail(
                                p,
                                "probe:old-session-acted",
                                format!("step #{step}: commissioner {xi} wrote the breadcrumb over the CASE session it established when index {} held its fabric (generation {}, now {})", kept.idx, kept.gen, t.gen_of(kept.idx)),
                            );
                            return;
                        }
                    } else if held {
                        p.labels.push("probe-live-session".into());
                        // (the probe takes virtual time: the fail-safe timer may have rolled the fabric back meanwhile)
                        let still = b.fabric_identities().iter().any(|f| f.0 == kept.idx && t.present.get(&kept.idx) == Some(&(f.1, f.3))) && b.device_has_session(&kept.pair);
                        // (the commissioner's own session table is finite too: it may have evicted its half)
                        let ctrl_lost = r.error.as_deref().map(|e| e.starts_with("initiate:")).unwrap_or(false);
                        // (no answer at all: the device's handlers may all be sitting on half-open
                        // handshakes left behind by the in-flight steps; try again when they have timed out)
                        let mut served = !data.is_empty();
                        if !served && still && !ctrl_lost && r.error.is_some() {
                            b.run_for(70 * SEC);
                            let still2 = b.fabric_identities().iter().any(|f| f.0 == kept.idx && t.present.get(&kept.idx) == Some(&(f.1, f.3))) && b.device_has_session(&kept.pair);
                            if still2 {
                                let r2 = b.read(xi, kept.pair.ctrl_sid, &[(0, CL_OP_CREDS, 5)], true);
                                served = r2.attrs.iter().any(|a| matches!(a.body, ReportBody::Data { .. })) || r2.error.as_deref().map(|e| e.starts_with("initiate:")).unwrap_or(false);
                                p.labels.push("probe-live-session-retried".into());
                            } else {
                                served = true;
                            }
                        }
                        if !served && still && !ctrl_lost {
                            fail(
                                p,
                                "probe:live-session-not-served",
                                format!("step #{step}: commissioner {xi}'s session on its present fabric {} (held by the device) got no attribute data: status {:?}, error {:?}", kept.idx, r.status, r.error),
                            );
                            return;
                        }
                    }
                }
            }
            Op::ResumeOld { x, k } => {
                let xi = *x as usize;
                if !comms[xi].recs.is_empty() {
                    let n = comms[xi].recs.len();
                    let kr = comms[xi].recs[if *k >= 254 { n.saturating_sub(256 - *k as usize) } else { *k as usize % n }].clone();
                    let live = t.live(kr.idx, kr.gen);
                    let f = ctrl_fab[xi];
                    // what the controller holds now, to be put back afterwards
                    let saved: Option<ResumableSession> = b.ctrls[xi].matter.with_state(|s| s.resumption.find_by_peer(f, DEV_NODE).cloned());
                    b.ctrls[xi].matter.with_state(|s| s.resumption.insert_or_update(kr.rec.clone()));
                    let from = b.tap_pos();
                    let r = b.case_handshake(xi, f, DEV_NODE);
                    let resumed = b.device_sc_opcodes_since(from).contains(&OP_SIGMA2_RESUME);
                    note = format!("record of index {} gen {} live={live}: resumed={resumed} result={:?}", kr.idx, kr.gen, r.as_ref().map(|s| s.dev_sid).map_err(|e| e.clone()));
                    if !live {
                        p.labels.push("probe-old-record".into());
                        if t.gone_with_objects.contains(&kr.idx) {
                            p.nontrivial = true;
                        }
                        if resumed {
                            fail(
                                p,
                                "probe:old-record-resumed",
                                format!("step #{step}: commissioner {xi} offered the resumption record it got when index {} held its fabric (generation {}, now {}{}) and the device answered Sigma2_Resume{}", kr.idx, kr.gen, t.gen_of(kr.idx), if t.present.contains_key(&kr.idx) { ", index in use by another fabric" } else { ", index absent" }, if r.is_ok() { "; a session was established" } else { "" }),
                            );
                            return;
                        }
                    } else if resumed {
                        p.labels.push("resumed-live-record".into());
                    }
                    match r {
                        Ok(sp) => {
                            // a session came out of it
                            let idx = b.device_session_fabric(&sp).unwrap_or(0);
                            if comms[xi].fab == Some(idx) && t.present.contains_key(&idx) {
                                comms[xi].cur = Some(sp);
                                comms[xi].kept.push(Kept { pair: sp, idx, gen: t.gen_of(idx), boot: p.boot_no });
                                capture_record(b, comms, t, xi, ctrl_fab, idx);
                            } else {
                                fail(
                                    p,
                                    "probe:session-without-fabric",
                                    format!("step #{step}: commissioner {xi}, whose fabric is not on the device, obtained a CASE session (device fabric index {idx})"),
                                );
                                return;
                            }
                        }
                        Err(_) => {
                            if let Some(rec) = saved {
                                b.ctrls[xi].matter.with_state(|s| s.resumption.insert_or_update(rec));
                            }
                        }
                    }
                }
            }
        }

        // ---- after the step
        let bumped = update_generations(b, t, &before_objects);
        sync_comms(b, comms, t, &bumped);
        if trace {
            eprintln!(
                "[t={}] #{step} {op:?}: {note} | fabrics={:?} bumped={bumped:?} armed={} sess={:?} recs={:?} subs={:?}",
                clock::now(),
                b.fabric_identities().iter().map(|f| f.0).collect::<Vec<_>>(),
                b.failsafe_armed(),
                b.device_sessions().iter().filter(|s| !s.reserved).map(|s| (s.id, sess_fab(&s.mode), s.expired)).collect::<Vec<_>>(),
                b.resumption_records().iter().map(|r| r.fab_idx).collect::<Vec<_>>(),
                b.live_subscriptions().iter().map(|s| (s.id, s.fab_idx)).collect::<Vec<_>>(),
            );
            if std::env::var_os("C07_TAP").is_some() {
                b.net.with_tap(|tp| {
                    for sd in tp.sent.iter().filter(|sd| sd.t_us >= TAP_FROM.with(|c| c.get())) {
                        eprintln!("      wire t={} {}->{:?} {:?}", sd.t_us, sd.src, sd.dst, vh::sim::node::decode_plain(&sd.bytes));
                    }
                });
                TAP_FROM.with(|c| c.set(clock::now() + 1));
            }
            for (xi, c) in b.ctrls.iter().enumerate() {
                for r in c.reports.borrow().iter().skip(comms[xi].reports_seen) {
                    eprintln!("      report at commissioner {xi}: {r:?}");
                }
            }
        }
        if !bumped.is_empty() {
            p.labels.push("fabric-gone".into());
            if bumped.iter().any(|i| before_objects.contains(i)) {
                p.labels.push("fabric-gone-with-bound-objects".into());
            }
        }
        if p.verdict.is_some() {
            return;
        }
        // ---- no report for a subscription of a fabric that was gone before this step
        for xi in 0..N_COMM {
            let reports = b.ctrls[xi].reports.borrow();
            for r in reports.iter().skip(comms[xi].reports_seen) {
                if let Some(id) = r.subscription_id {
                    let live_any = comms.iter().any(|c| c.subs.iter().any(|(sid, i, g, bt)| *sid == id && *bt == p.boot_no && t.live(*i, *g)));
                    let dead_of = (0..N_COMM).find(|y| dead_subs[*y].contains(&id));
                    if let (Some(y), false) = (dead_of, live_any) {
                        p.verdict = Some(Case::fail(
                            "probe:report-for-dead-subscription",
                            format!(
                                "step #{step} ({op:?}): commissioner {xi} received a ReportData (with data: {}) for subscription {id}, which commissioner {y} made on a fabric that was already gone from the device before this step",
                                r.has_data
                            ),
                        ));
                    } else if r.has_data {
                        p.labels.push("report-received".into());
                    }
                }
            }
        }
        if p.verdict.is_some() {
            return;
        }
        if tables {
            if let Some((sig, d)) = check_tables(b, t, &format!("after step #{step} ({op:?})")) {
                fail(p, &sig, d);
                return;
            }
        }
        // ---- sessions of the other fabrics are unaffected by a removal
        if removal_step && !bumped.is_empty() {
            let after = b.device_sessions();
            for s in &before_sessions {
                let SessionMode::Case { fab_idx, .. } = &s.mode else { continue };
                if bumped.contains(&fab_idx.get()) || s.expired || s.reserved {
                    continue;
                }
                let same = after.iter().any(|a| {
                    a.id == s.id && a.mode == s.mode && a.dec_key == s.dec_key && a.enc_key == s.enc_key && a.local_sess_id == s.local_sess_id && a.peer_sess_id == s.peer_sess_id && a.peer_nodeid == s.peer_nodeid && !a.expired
                });
                if !same {
                    fail(
                        p,
                        "collateral:session-of-other-fabric-lost",
                        format!("step #{step} ({op:?}) removed fabric(s) {bumped:?}; the CASE session (id {}) of fabric {} is gone or changed", s.id, fab_idx.get()),
                    );
                    return;
                }
            }
            for y in 0..N_COMM {
                let (Some(idx), Some(sp)) = (comms[y].fab, comms[y].cur) else { continue };
                if !comms[y].committed || bumped.contains(&idx) || !b.device_has_session(&sp) {
                    continue;
                }
                let r = b.read(y, sp.ctrl_sid, &[(0, CL_OP_CREDS, 5)], true);
                let ok = r.attrs.iter().any(|a| matches!(a.body, ReportBody::Data { .. }));
                p.labels.push("other-fabric-probed".into());
                if !ok {
                    fail(
                        p,
                        "collateral:session-of-other-fabric-unusable",
                        format!("step #{step} ({op:?}) removed fabric(s) {bumped:?}; afterwards a read over commissioner {y}'s session on fabric {idx} failed: status {:?} error {:?}", r.status, r.error),
                    );
                    return;
                }
            }
        }
    }
}

/// Forget what a commissioner believes about a fabric that is gone.
fn sync_comms<CC: rs_matter::crypto::Crypto>(_b: &Boot<'_, CC>, comms: &mut [Comm], t: &Tracker, bumped: &BTreeSet<u8>) {
    for c in comms.iter_mut() {
        if let Some(i) = c.fab {
            if bumped.contains(&i) || !t.present.contains_key(&i) {
                c.fab = None;
                c.committed = false;
                c.cur = None;
            }
        }
    }
}

fn capture_record<CC: rs_matter::crypto::Crypto>(b: &Boot<'_, CC>, comms: &mut [Comm], t: &Tracker, xi: usize, ctrl_fab: &[core::num::NonZeroU8], idx: u8) {
    let f = ctrl_fab[xi];
    let rec: Option<ResumableSession> = b.ctrls[xi].matter.with_state(|s| s.resumption.find_by_peer(f, DEV_NODE).cloned());
    if let Some(rec) = rec {
        let rid = rec.resumption_id.reference().access().to_vec();
        let known = comms[xi].recs.iter().any(|k| k.rec.resumption_id.reference().access().as_slice() == rid.as_slice());
        if !known {
            comms[xi].recs.push(KeptRec { rec, idx, gen: t.gen_of(idx) });
        }
    }
}

/// A CASE handshake of commissioner `xi` with its fabric. Returns the session and a note.
fn do_case<CC: rs_matter::crypto::Crypto>(
    b: &mut Boot<'_, CC>,
    comms: &mut [Comm],
    t: &Tracker,
    xi: usize,
    ctrl_fab: &[core::num::NonZeroU8],
    p: &mut Progress,
) -> (Option<SessPair>, String) {
    let from = b.tap_pos();
    let r = b.case_handshake(xi, ctrl_fab[xi], DEV_NODE);
    let resumed = b.device_sc_opcodes_since(from).contains(&OP_SIGMA2_RESUME);
    match r {
        Ok(sp) => {
            let idx = b.device_session_fabric(&sp).unwrap_or(0);
            comms[xi].cur = Some(sp);
            comms[xi].kept.push(Kept { pair: sp, idx, gen: t.gen_of(idx), boot: p.boot_no });
            capture_record(b, comms, t, xi, ctrl_fab, idx);
            p.labels.push(if resumed { "case-resumed" } else { "case-full" }.into());
            (Some(sp), format!("CASE ok (resumed={resumed}) dev index {idx}"))
        }
        Err(e) => (None, format!("CASE failed: {e}")),
    }
}

/// The commissioner's current session on its fabric, establishing one when the device lost it.
fn ensure_case<CC: rs_matter::crypto::Crypto>(
    b: &mut Boot<'_, CC>,
    comms: &mut [Comm],
    t: &Tracker,
    xi: usize,
    ctrl_fab: &[core::num::NonZeroU8],
    p: &mut Progress,
) -> Option<SessPair> {
    if let Some(sp) = comms[xi].cur {
        if b.device_has_session(&sp) {
            return Some(sp);
        }
    }
    comms[xi].fab?;
    do_case(b, comms, t, xi, ctrl_fab, p).0
}

fn check_history(case: &C07Case, tables: bool) -> Case {
    vh::sim::reset_universe();
    let net = Net::new(1 + N_COMM);
    let gen = mk_crypto(case.seed ^ 0x5eed);
    let mut kits = Vec::new();
    for i in 0..N_COMM {
        match FabricKit::new(&gen, 0xF000 + i as u64, i == 1, ADMIN_NODE, 3 + i as u8) {
            Ok(k) => kits.push(k),
            Err(e) => return Case::inconclusive(format!("fabric kit: {:?}", e.code())),
        }
    }
    let w = World { kits };
    let kv = MemKv::new();
    // the commissioners live across device restarts: they keep their sessions and records
    let ctrls: Vec<_> = (0..N_COMM).map(|i| new_controller(case.seed, i)).collect();
    let mut ctrl_fab = Vec::new();
    for i in 0..N_COMM {
        match ctrls[i].install(&w.kits[i]) {
            Ok(f) => ctrl_fab.push(f),
            Err(e) => return Case::inconclusive(format!("controller fabric: {:?}", e.code())),
        }
    }
    let mut comms: Vec<Comm> = (0..N_COMM).map(|_| Comm::default()).collect();
    let mut t = Tracker::default();
    let mut p = Progress { pos: 0, boot_no: 0, verdict: None, labels: Vec::new(), nontrivial: false, restart_pending: false };

    loop {
        let cfg = BootCfg {
            seed: case.seed.wrapping_add(p.boot_no.wrapping_mul(0x9e37)),
            net: NetKind::Eth,
            resume: true,
            open_window_secs: Some(900),
            sched: match case.sched {
                None => Sched::Fifo,
                Some(s) => Sched::Seeded(s),
            },
        };
        let opts = BootOpts { persist_resumption_ms: Some(500), ctrl_report_sink: true };
        p.restart_pending = false;
        let r = boot_with(&cfg, &opts, &kv, &net, &ctrls, |b| {
            run_segment(b, case, tables, &w, &mut comms, &mut t, &mut p, &ctrl_fab);
        });
        if let Err(e) = r {
            if p.boot_no == 0 {
                return Case::inconclusive(format!("first boot failed: {e}"));
            }
            return Case::fail("restart:node-does-not-boot", format!("restart #{}: {e}", p.boot_no));
        }
        for i in 0..1 + N_COMM {
            net.set_up(i, false);
            net.set_up(i, true);
        }
        if p.verdict.is_some() || !p.restart_pending {
            break;
        }
        p.boot_no += 1;
        kv.marker(format!("restart#{}", p.boot_no));
    }

    if let Some(v) = p.verdict {
        return v;
    }
    let mut labels = p.labels;
    labels.sort();
    labels.dedup();
    Case::pass(p.nontrivial).labels(labels)
}

struct StderrLog;

impl log::Log for StderrLog {
    fn enabled(&self, _: &log::Metadata) -> bool {
        true
    }
    fn log(&self, r: &log::Record) {
        eprintln!("    [{} {}] {}", r.level(), r.target(), r.args());
    }
    fn flush(&self) {}
}

fn main() {
    if let Some(l) = std::env::var_os("C07_LOG") {
        static L: StderrLog = StderrLog;
        let _ = log::set_logger(&L);
        log::set_max_level(if l == "debug" { log::LevelFilter::Debug } else { log::LevelFilter::Info });
    }
    let mut run = Run::new(
        "C07",
        "exploration",
        "histories of up to 90 steps over one device and three commissioners (own root each, same administrator node id and same device node id in every fabric), built from 2-6 phases (complete commissioning; commissioning cut after step 3..8 and ended by timer expiry / ArmFailSafe(0) / RevokeCommissioning / restart; RemoveFabric(x by y); probe bursts; extra CASE sessions full or resumed, subscriptions; restart after a short or long wait; 'takeover', 'evict', 'linger', 'race', 'evict-pending' and 'inflight' (a CASE handshake of the affected fabric, full or resumed, is in flight with its k-th secure-channel message held back while RemoveFabric / ArmFailSafe(0) / RevokeCommissioning / the timer removes the fabric) scenarios that end with the next commissioner getting the index and the old one probing) plus inserted random steps and deletions; CASE sessions always by real handshakes (resumption included), PASE real in 30% of the cases, resumption-cache writer at 500 ms. Non-trivial: a fabric index disappeared while the device held a session, resumption record or subscription bound to it, and a later step got that index handed out again (AddNOC) or probed a session / record of the dead generation; distinct = distinct serialized history",
    );
    run.assume("generation of a fabric index = number of times the device's public fabric table showed the index disappearing or changing its (fabric id, root certificate); an object first seen after a step was created in the generation current at that moment");
    run.assume("expired sessions (kept only to let the last answer out) and reserved sessions are not counted by the table check; the probes verify that they are not served");
    run.assume("a subscription naming an ABSENT index is tolerated in the table (the reporter drops it when it next wakes and cannot report on it); one naming an index that belongs to a newer fabric is a violation");
    run.assume("subscription ids are re-assigned when the device resumes persisted subscriptions after a restart: subscriptions found after a restart are judged as new ones, and reports are attributed to a commissioner's dead subscription only in the first incarnation");
    run.assume("the 'sessions of other fabrics are unchanged' comparison is made for the instantaneous removals (RemoveFabric, ArmFailSafe(0), RevokeCommissioning), not across a timer expiry, during which the device may drop sessions for unrelated reasons (e.g. the reporter giving up on an unreachable subscriber: no mDNS in the simulator)");
    run.assume("a resumption is recognised by the device sending the unencrypted secure-channel opcode 0x33 (Sigma2_Resume) on the wire tap");
    run.assume("hooks: MatterState::verif_sessions (C01), MatterState::verif_failsafe (C08), Subscriptions::verif_for_each_live_sub (read-only); state.resumption and state.fabrics are public");
    let n = run.cases(1_500, 40_000);
    run.prop("tables", n, case_strategy, |c| check_history(c, true));
    let n = run.cases(1_000, 20_000);
    run.prop("probes", n, case_strategy, |c| check_history(c, false));
    run.finish();
}
