//! mkcorpus — writes the committed seed corpora of the libFuzzer engine (E3).
//!
//! ```text
//! mkcorpus [--out DIR] [--per-format N] [--seed N] [--max-files N]
//! ```
//!
//! For every fuzz target it asks the property binary's own `fuzz_seeds()` (legal cases from the
//! existing proptest strategies, encoded by the existing encoders / reference models, in the
//! input layout of that binary's `fuzz_entry`, plus literal vectors) for `N` cases per format
//! (default 300), drops duplicates (content hash) and inputs of 2 KiB or more, and keeps an
//! evenly spaced sample over the length-sorted cases of every format label so that the total
//! stays at or below `--max-files` (default 60). Output: `DIR/<target>/<label>-<hash>`,
//! default DIR = `fuzz/corpus-seed` below the harness crate. Deterministic for a given seed.
//!
//! To add a target: include the bin as a module below and add it to `targets`.
#![allow(dead_code, unused_imports)]

use std::collections::{BTreeMap, HashSet};
use std::path::PathBuf;

#[path = "c16.rs"]
mod c16;
#[path = "c17a.rs"]
mod c17a;
#[path = "c17b.rs"]
mod c17b;

fn fnv1a(b: &[u8]) -> u64 {
    let mut h: u64 = 0xcbf29ce484222325;
    for x in b {
        h ^= *x as u64;
        h = h.wrapping_mul(0x100000001b3);
    }
    h
}

fn main() {
    let mut out = PathBuf::from(concat!(env!("CARGO_MANIFEST_DIR"), "/fuzz/corpus-seed"));
    let mut per_format = 300usize;
    let mut seed = 20260925u64;
    let mut max_files = 60usize;
    let mut it = std::env::args().skip(1);
    while let Some(a) = it.next() {
        match a.as_str() {
            "--out" => out = PathBuf::from(it.next().expect("--out DIR")),
            "--per-format" => per_format = it.next().and_then(|s| s.parse().ok()).expect("--per-format N"),
            "--seed" => seed = it.next().and_then(|s| s.parse().ok()).expect("--seed N"),
            "--max-files" => max_files = it.next().and_then(|s| s.parse().ok()).expect("--max-files N"),
            other => {
                eprintln!("unknown argument {other}");
                std::process::exit(2);
            }
        }
    }

    type Seeds = fn(usize, u64) -> Vec<(String, Vec<u8>)>;
    let targets: [(&str, Seeds); 3] = [("tlv", c16::fuzz_seeds), ("codecs_a", c17a::fuzz_seeds), ("codecs_b", c17b::fuzz_seeds)];

    for (target, seeds) in targets {
        let all = seeds(per_format, seed);
        let generated = all.len();
        let mut seen = HashSet::new();
        let mut by_label: BTreeMap<String, Vec<Vec<u8>>> = BTreeMap::new();
        for (label, bytes) in all {
            if bytes.is_empty() || bytes.len() >= 2048 || !seen.insert(fnv1a(&bytes)) {
                continue;
            }
            by_label.entry(label).or_default().push(bytes);
        }
        let distinct: usize = by_label.values().map(|v| v.len()).sum();
        let quota = (max_files / by_label.len().max(1)).max(1);
        let dir = out.join(target);
        let _ = std::fs::remove_dir_all(&dir);
        std::fs::create_dir_all(&dir).expect("create corpus dir");
        let mut written = 0usize;
        let mut bytes_total = 0usize;
        for (label, mut cases) in by_label {
            cases.sort_by(|a, b| (a.len(), a).cmp(&(b.len(), b)));
            let take = quota.min(cases.len());
            for k in 0..take {
                if written >= max_files {
                    break;
                }
                // evenly spaced over the length-sorted list, both ends included
                let idx = if take == 1 { 0 } else { k * (cases.len() - 1) / (take - 1) };
                let c = &cases[idx];
                let name: String = label.chars().map(|ch| if ch.is_ascii_alphanumeric() || ch == '-' { ch } else { '_' }).collect();
                std::fs::write(dir.join(format!("{name}-{:016x}", fnv1a(c))), c).expect("write seed");
                written += 1;
                bytes_total += c.len();
            }
        }
        println!("{target}: {generated} generated, {distinct} distinct < 2 KiB, {written} written ({bytes_total} bytes) to {}", dir.display());
    }
}
