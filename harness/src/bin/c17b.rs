//! C17 (second half) — onboarding payloads, discovery records and certificate conversion decode
//! what was encoded; decoders never panic; invalid codes are refused.
//!
//! Oracles are independent reference models written from the Matter Core specification
//! (QR bit packing 5.1.3, base-38 5.1.3.1, manual pairing code 5.1.4 + Verhoeff, BLE
//! advertising data 5.4.2.5.6, DNS wire format RFC 1035/6762/6763) — never from the code.

#![allow(clippy::type_complexity)]

use std::fmt::Write as _;

use proptest::prelude::*;
use serde::{Deserialize, Serialize};

use rs_matter::error::Error;
use rs_matter::pairing::qr::{CommFlowType, QrPayload};
use rs_matter::pairing::DiscoveryCapabilities;
use rs_matter::utils::codec::base38;
use rs_matter::BasicCommData;

use vh::util::pick;
use vh::{Case, Run};

// ---------------------------------------------------------------------------------------------
// Reference models
// ---------------------------------------------------------------------------------------------

const B38: &[u8; 38] = b"0123456789ABCDEFGHIJKLMNOPQRSTUVWXYZ-.";

fn b38_idx(c: u8) -> Option<u32> {
    B38.iter().position(|x| *x == c).map(|p| p as u32)
}

/// Spec 5.1.3.1: 3 bytes -> 5 chars, 2 bytes -> 4 chars, 1 byte -> 2 chars; little-endian value,
/// least significant base-38 digit first.
fn ref_b38_encode(bytes: &[u8]) -> String {
    let mut s = String::new();
    for chunk in bytes.chunks(3) {
        let mut v: u32 = 0;
        for (i, b) in chunk.iter().enumerate() {
            v |= (*b as u32) << (8 * i);
        }
        let n = match chunk.len() {
            3 => 5,
            2 => 4,
            _ => 2,
        };
        for _ in 0..n {
            s.push(B38[(v % 38) as usize] as char);
            v /= 38;
        }
    }
    s
}

#[derive(Debug, Clone, PartialEq, Eq)]
enum B38Err {
    /// a byte outside the base-38 alphabet at this offset
    Char(usize),
    /// the last chunk has 1 or 3 characters
    Len,
}

#[derive(Debug, Clone)]
struct B38Dec {
    bytes: Vec<u8>,
    /// some chunk holds a value too large for the number of bytes it stands for
    overflow: bool,
}

fn ref_b38_decode(s: &str) -> Result<B38Dec, B38Err> {
    let b = s.as_bytes();
    for (i, c) in b.iter().enumerate() {
        if b38_idx(*c).is_none() {
            return Err(B38Err::Char(i));
        }
    }
    if matches!(b.len() % 5, 1 | 3) {
        return Err(B38Err::Len);
    }
    let mut out = Vec::new();
    let mut overflow = false;
    for chunk in b.chunks(5) {
        let n = match chunk.len() {
            5 => 3,
            4 => 2,
            _ => 1,
        };
        let mut v: u64 = 0;
        for c in chunk.iter().rev() {
            v = v * 38 + b38_idx(*c).unwrap_or(0) as u64;
        }
        if v >> (8 * n) != 0 {
            overflow = true;
        }
        for i in 0..n {
            out.push((v >> (8 * i)) as u8);
        }
    }
    Ok(B38Dec { bytes: out, overflow })
}

/// LSB-first bit writer (spec 5.1.3: "packed ... least significant bit first").
#[derive(Default)]
struct BitW {
    bytes: Vec<u8>,
    n: usize,
}

impl BitW {
    fn put(&mut self, v: u32, bits: usize) {
        for i in 0..bits {
            if self.n % 8 == 0 {
                self.bytes.push(0);
            }
            if (v >> i) & 1 == 1 {
                *self.bytes.last_mut().unwrap() |= 1 << (self.n % 8);
            }
            self.n += 1;
        }
    }
}

fn get_bits(bytes: &[u8], pos: &mut usize, bits: usize) -> u32 {
    let mut v = 0u32;
    for i in 0..bits {
        let p = *pos + i;
        if (bytes[p / 8] >> (p % 8)) & 1 == 1 {
            v |= 1 << i;
        }
    }
    *pos += bits;
    v
}

#[derive(Debug, Clone, PartialEq, Eq)]
struct QrFixed {
    version: u8,
    vid: u16,
    pid: u16,
    flow: u8,
    caps: u8,
    disc: u16,
    passcode: u32,
    padding: u8,
}

/// Spec table "Packed Binary Data Structure for Onboarding Payload".
fn ref_qr_pack(f: &QrFixed) -> Vec<u8> {
    let mut w = BitW::default();
    w.put(f.version as u32, 3);
    w.put(f.vid as u32, 16);
    w.put(f.pid as u32, 16);
    w.put(f.flow as u32, 2);
    w.put(f.caps as u32, 8);
    w.put(f.disc as u32, 12);
    w.put(f.passcode, 27);
    w.put(f.padding as u32, 4);
    w.bytes
}

fn ref_qr_unpack(bytes: &[u8]) -> Option<QrFixed> {
    if bytes.len() < 11 {
        return None;
    }
    let mut p = 0;
    Some(QrFixed {
        version: get_bits(bytes, &mut p, 3) as u8,
        vid: get_bits(bytes, &mut p, 16) as u16,
        pid: get_bits(bytes, &mut p, 16) as u16,
        flow: get_bits(bytes, &mut p, 2) as u8,
        caps: get_bits(bytes, &mut p, 8) as u8,
        disc: get_bits(bytes, &mut p, 12) as u16,
        passcode: get_bits(bytes, &mut p, 27),
        padding: get_bits(bytes, &mut p, 4) as u8,
    })
}

// Verhoeff (dihedral group D5), standard tables.
const VD: [[u8; 10]; 10] = [
    [0, 1, 2, 3, 4, 5, 6, 7, 8, 9],
    [1, 2, 3, 4, 0, 6, 7, 8, 9, 5],
    [2, 3, 4, 0, 1, 7, 8, 9, 5, 6],
    [3, 4, 0, 1, 2, 8, 9, 5, 6, 7],
    [4, 0, 1, 2, 3, 9, 5, 6, 7, 8],
    [5, 9, 8, 7, 6, 0, 4, 3, 2, 1],
    [6, 5, 9, 8, 7, 1, 0, 4, 3, 2],
    [7, 6, 5, 9, 8, 2, 1, 0, 4, 3],
    [8, 7, 6, 5, 9, 3, 2, 1, 0, 4],
    [9, 8, 7, 6, 5, 4, 3, 2, 1, 0],
];
const VP: [[u8; 10]; 8] = [
    [0, 1, 2, 3, 4, 5, 6, 7, 8, 9],
    [1, 5, 7, 6, 2, 8, 3, 0, 9, 4],
    [5, 8, 0, 3, 7, 9, 6, 1, 4, 2],
    [8, 9, 1, 6, 0, 4, 3, 5, 2, 7],
    [9, 4, 5, 3, 1, 2, 6, 8, 7, 0],
    [4, 2, 8, 6, 5, 7, 3, 9, 0, 1],
    [2, 7, 9, 3, 8, 0, 6, 4, 1, 5],
    [7, 0, 4, 6, 9, 1, 3, 2, 5, 8],
];
const VINV: [u8; 10] = [0, 4, 3, 2, 1, 5, 6, 7, 8, 9];

/// Check digit for a string of decimal digits (values 0..=9).
fn verhoeff_digit(digits: &[u8]) -> u8 {
    let mut c = 0u8;
    for (i, d) in digits.iter().rev().enumerate() {
        c = VD[c as usize][VP[(i + 1) % 8][*d as usize] as usize];
    }
    VINV[c as usize]
}

fn verhoeff_valid(digits: &[u8]) -> bool {
    let mut c = 0u8;
    for (i, d) in digits.iter().rev().enumerate() {
        c = VD[c as usize][VP[i % 8][*d as usize] as usize];
    }
    c == 0
}

/// The raw digit groups of a manual pairing code (spec 5.1.4.1, table "Manual Pairing Code
/// Elements"), before the check digit.
#[derive(Debug, Clone, Serialize, Deserialize)]
struct ManualGroups {
    d1: u8,        // 1 digit
    g2: u32,       // 5 digits
    g3: u32,       // 4 digits
    long: bool,    // 21-digit form
    vid: u32,      // 5 digits
    pid: u32,      // 5 digits
}

fn push_dec(out: &mut Vec<u8>, v: u32, width: usize) {
    let mut tmp = vec![0u8; width];
    let mut v = v;
    for i in (0..width).rev() {
        tmp[i] = (v % 10) as u8;
        v /= 10;
    }
    out.extend(tmp);
}

/// Digits (values) including the check digit.
fn ref_manual_digits(g: &ManualGroups) -> Vec<u8> {
    let mut d = Vec::new();
    push_dec(&mut d, g.d1 as u32, 1);
    push_dec(&mut d, g.g2, 5);
    push_dec(&mut d, g.g3, 4);
    if g.long {
        push_dec(&mut d, g.vid, 5);
        push_dec(&mut d, g.pid, 5);
    }
    let c = verhoeff_digit(&d);
    d.push(c);
    d
}

fn digits_str(d: &[u8]) -> String {
    d.iter().map(|x| (b'0' + *x) as char).collect()
}

fn ref_manual_groups(disc: u16, passcode: u32, long: bool, vid: u16, pid: u16) -> ManualGroups {
    ManualGroups {
        d1: ((long as u8) << 2) | (disc >> 10) as u8,
        g2: (((disc as u32) & 0x300) << 6) | (passcode & 0x3FFF),
        g3: passcode >> 14,
        long,
        vid: vid as u32,
        pid: pid as u32,
    }
}

#[derive(Debug, Clone, PartialEq, Eq)]
struct ManualFields {
    short_disc: u8,
    passcode: u32,
    vid_pid: Option<(u16, u16)>,
}

/// Reference decoder of a manual pairing code given as text. `Err(reason)` = must be refused.
fn ref_manual_decode(code: &str) -> Result<ManualFields, &'static str> {
    let mut d = Vec::new();
    for ch in code.chars() {
        if ch == '-' || ch == ' ' {
            continue;
        }
        if !ch.is_ascii_digit() {
            return Err("non-digit");
        }
        d.push(ch as u8 - b'0');
    }
    let long = match d.len() {
        11 => false,
        21 => true,
        _ => return Err("length"),
    };
    if !verhoeff_valid(&d) {
        return Err("check-digit");
    }
    let num = |r: std::ops::Range<usize>| d[r].iter().fold(0u32, |a, x| a * 10 + *x as u32);
    let d1 = d[0];
    if d1 > 7 {
        return Err("version");
    }
    if ((d1 >> 2) == 1) != long {
        return Err("vid-pid-flag");
    }
    let g2 = num(1..6);
    if g2 > 0xFFFF {
        return Err("group2-range");
    }
    let g3 = num(6..10);
    if g3 > 0x1FFF {
        return Err("group3-range");
    }
    let vid_pid = if long {
        let v = num(10..15);
        let p = num(15..20);
        if v > 0xFFFF || p > 0xFFFF {
            return Err("vid-pid-range");
        }
        Some((v as u16, p as u16))
    } else {
        None
    };
    Ok(ManualFields {
        short_disc: (((d1 & 3) << 2) as u32 | (g2 >> 14)) as u8,
        passcode: (g3 << 14) | (g2 & 0x3FFF),
        vid_pid,
    })
}

// Matter TLV (Appendix A) for the optional QR data: context-tagged elements.
#[derive(Debug, Clone, Serialize, Deserialize)]
enum OptVal {
    Str(String),
    Uint(u64),
    Int(i64),
    Bool(bool),
    Bytes(Vec<u8>),
}

#[derive(Debug, Clone, Serialize, Deserialize)]
struct OptElem {
    tag: u8,
    val: OptVal,
}

fn ref_tlv_elem(out: &mut Vec<u8>, tag: u8, val: &OptVal) {
    const CTX: u8 = 0x20;
    match val {
        OptVal::Str(s) => {
            out.extend([CTX | 0x0C, tag, s.len() as u8]);
            out.extend(s.as_bytes());
        }
        OptVal::Bytes(b) => {
            out.extend([CTX | 0x10, tag, b.len() as u8]);
            out.extend(b);
        }
        OptVal::Bool(b) => out.extend([CTX | if *b { 0x09 } else { 0x08 }, tag]),
        OptVal::Uint(v) => {
            if *v <= u8::MAX as u64 {
                out.extend([CTX | 0x04, tag]);
                out.extend((*v as u8).to_le_bytes());
            } else if *v <= u16::MAX as u64 {
                out.extend([CTX | 0x05, tag]);
                out.extend((*v as u16).to_le_bytes());
            } else if *v <= u32::MAX as u64 {
                out.extend([CTX | 0x06, tag]);
                out.extend((*v as u32).to_le_bytes());
            } else {
                out.extend([CTX | 0x07, tag]);
                out.extend(v.to_le_bytes());
            }
        }
        OptVal::Int(v) => {
            if let Ok(x) = i8::try_from(*v) {
                out.extend([CTX, tag]);
                out.extend(x.to_le_bytes());
            } else if let Ok(x) = i16::try_from(*v) {
                out.extend([CTX | 0x01, tag]);
                out.extend(x.to_le_bytes());
            } else if let Ok(x) = i32::try_from(*v) {
                out.extend([CTX | 0x02, tag]);
                out.extend(x.to_le_bytes());
            } else {
                out.extend([CTX | 0x03, tag]);
                out.extend(v.to_le_bytes());
            }
        }
    }
}

fn err_dbg(e: &Error) -> String {
    let mut s = String::new();
    let _ = write!(s, "{:?}", e.code());
    s
}

// ---------------------------------------------------------------------------------------------
// Strategies shared by several formats
// ---------------------------------------------------------------------------------------------

fn u16_extremes() -> impl Strategy<Value = u16> {
    prop_oneof![
        3 => prop::sample::select(vec![0u16, 1, 0x00FF, 0x0100, 0x7FFF, 0x8000, 0xFFF1, 0xFFF4, 0xFFF5, 0xFFFE, 0xFFFF]),
        2 => any::<u16>(),
    ]
}

fn disc12() -> impl Strategy<Value = u16> {
    prop_oneof![
        3 => prop::sample::select(vec![0u16, 1, 0x0FF, 0x100, 0x2FF, 0x300, 0x3FF, 0x400, 0xBFF, 0xC00, 0xF00, 0xFFE, 0xFFF]),
        2 => 0u16..=0xFFF,
    ]
}

fn passcode27() -> impl Strategy<Value = u32> {
    prop_oneof![
        3 => prop::sample::select(vec![0u32, 1, 0x3FFF, 0x4000, 0x4001, 20202021, 12345678, 99999998, 99999999, (1 << 27) - 1, 1 << 26, 0x7FFC000, 0x3FFF]),
        3 => 1u32..=99_999_998,
        1 => 0u32..(1 << 27),
    ]
}

fn text(max_chars: usize) -> impl Strategy<Value = String> {
    let ascii: Vec<char> = "ABCDEFGHIJKLMNOPQRSTUVWXYZabcdefghijklmnopqrstuvwxyz0123456789-_ .=+:/".chars().collect();
    let wide: Vec<char> = "aZ09 =\u{e9}\u{df}\u{416}\u{4e2d}\u{1F600}\u{7f}\u{1}".chars().collect();
    prop_oneof![
        4 => prop::collection::vec(prop::sample::select(ascii), 0..=max_chars),
        1 => prop::collection::vec(prop::sample::select(wide), 0..=max_chars),
    ]
    .prop_map(|v| v.into_iter().collect())
}

// ---------------------------------------------------------------------------------------------
// QR payload
// ---------------------------------------------------------------------------------------------

#[derive(Debug, Clone, Serialize, Deserialize)]
struct QrCase {
    vid: u16,
    pid: u16,
    flow: u8,
    caps: u8,
    disc: u16,
    passcode: u32,
    serial: String,
    opt: Vec<OptElem>,
    /// selector of a too-small parse buffer
    small: u16,
}

fn opt_val() -> impl Strategy<Value = OptVal> {
    prop_oneof![
        3 => text(20).prop_map(OptVal::Str),
        2 => prop_oneof![any::<u64>(), 0u64..300, Just(u64::MAX), Just(65536u64)].prop_map(OptVal::Uint),
        2 => prop_oneof![any::<i64>(), -200i64..200, Just(i64::MIN), Just(65550i64)].prop_map(OptVal::Int),
        1 => any::<bool>().prop_map(OptVal::Bool),
        1 => prop::collection::vec(any::<u8>(), 0..24).prop_map(OptVal::Bytes),
    ]
}

fn opt_elems() -> impl Strategy<Value = Vec<OptElem>> {
    // ascending, distinct context tags: 1..=4 (reserved common tags) and 0x80..=0xFF (vendor)
    let tag = prop_oneof![1u8..=4, 0x80u8..=0xFF, Just(0x80u8), Just(0xFFu8)];
    prop_oneof![
        2 => Just(Vec::new()),
        3 => prop::collection::btree_map(tag, opt_val(), 1..5)
            .prop_map(|m| m.into_iter().map(|(tag, val)| OptElem { tag, val }).collect()),
    ]
}

fn qr_case() -> impl Strategy<Value = QrCase> {
    (
        u16_extremes(),
        u16_extremes(),
        0u8..3,
        prop_oneof![4 => 1u8..=7, 1 => Just(0u8)],
        disc12(),
        passcode27(),
        prop_oneof![2 => Just(String::new()), 3 => text(32)],
        opt_elems(),
        any::<u16>(),
    )
        .prop_map(|(vid, pid, flow, caps, disc, passcode, serial, opt, small)| QrCase {
            vid,
            pid,
            flow,
            caps,
            disc,
            passcode,
            serial,
            opt,
            small,
        })
}

fn flow_of(bits: u8) -> CommFlowType {
    match bits {
        0 => CommFlowType::Standard,
        1 => CommFlowType::UserIntent,
        _ => CommFlowType::Custom,
    }
}

fn comm_data(passcode: u32, disc: u16) -> BasicCommData {
    BasicCommData {
        password: passcode.to_le_bytes().into(),
        discriminator: disc,
    }
}

fn check_qr_roundtrip(c: &QrCase) -> Case {
    // --- what the specification says the text must be
    let fixed = QrFixed {
        version: 0,
        vid: c.vid,
        pid: c.pid,
        flow: c.flow,
        caps: c.caps,
        disc: c.disc,
        passcode: c.passcode,
        padding: 0,
    };
    let mut opt_bytes = Vec::new();
    for e in &c.opt {
        ref_tlv_elem(&mut opt_bytes, e.tag, &e.val);
    }
    let mut tail = Vec::new();
    if !c.serial.is_empty() || !opt_bytes.is_empty() {
        tail.push(0x15);
        if !c.serial.is_empty() {
            ref_tlv_elem(&mut tail, 0x00, &OptVal::Str(c.serial.clone()));
        }
        tail.extend(&opt_bytes);
        tail.push(0x18);
    }
    let mut all = ref_qr_pack(&fixed);
    all.extend(&tail);
    let expected = format!("MT:{}", ref_b38_encode(&all));

    // --- encode with the code under test
    let caps = DiscoveryCapabilities::from_bits_truncate(c.caps);
    let opt_ref = &opt_bytes;
    let payload = QrPayload::new(
        caps,
        flow_of(c.flow),
        comm_data(c.passcode, c.disc),
        c.vid,
        c.pid,
        c.serial.as_str(),
        move || opt_ref.clone().into_iter().map(Ok::<u8, Error>),
    );
    let mut buf = vec![0u8; 4096];
    let text = match payload.as_str(&mut buf) {
        Ok((s, _)) => s.to_string(),
        Err(e) => return Case::fail("qr:encode-failed", format!("as_str failed: {}", err_dbg(&e))),
    };
    let mut via_iter = String::new();
    for ch in payload.emit_chars() {
        match ch {
            Ok(ch) => via_iter.push(ch),
            Err(e) => return Case::fail("qr:encode-failed", format!("emit_chars failed: {}", err_dbg(&e))),
        }
    }
    if via_iter != text {
        return Case::fail("qr:as_str-differs-from-emit_chars", format!("{text} vs {via_iter}"));
    }
    if text != expected {
        return Case::fail(
            "qr:encoding-differs-from-spec",
            format!("fields {fixed:?} serial {:?} opt {:02x?}: expected {expected}, got {text}", c.serial, opt_bytes),
        );
    }

    // --- decode with the code under test
    let mut pbuf = vec![0u8; all.len() + 8];
    let parsed = match QrPayload::parse(&text, &mut pbuf) {
        Ok(p) => p,
        Err(e) => {
            return Case::fail(
                "qr:own-encoding-refused",
                format!("parse({text}) failed with {} for {fixed:?}", err_dbg(&e)),
            )
        }
    };
    let got = QrFixed {
        version: parsed.version(),
        vid: parsed.vid(),
        pid: parsed.pid(),
        flow: parsed.comm_flow() as u8,
        caps: parsed.discovery_capabilities().bits(),
        disc: parsed.discriminator(),
        passcode: parsed.passcode(),
        padding: 0,
    };
    if got != fixed {
        return Case::fail("qr:fields-differ", format!("encoded {fixed:?}, decoded {got:?} from {text}"));
    }
    if parsed.serial_no() != c.serial {
        return Case::fail(
            "qr:serial-differs",
            format!("encoded serial {:?}, decoded {:?} from {text}", c.serial, parsed.serial_no()),
        );
    }
    if parsed.optional_data() != tail.as_slice() {
        return Case::fail(
            "qr:optional-data-differs",
            format!("expected {:02x?}, decoded {:02x?}", tail, parsed.optional_data()),
        );
    }
    if parsed.commissionable_filter().discriminator != Some(c.disc) {
        return Case::fail("qr:filter-discriminator", "commissionable_filter() does not carry the discriminator");
    }

    // --- a buffer that cannot hold the decoded payload must give an error, not a panic
    let small = pick(c.small, all.len());
    let mut sbuf = vec![0u8; small];
    if QrPayload::parse(&text, &mut sbuf).is_ok() {
        return Case::fail(
            "qr:short-buffer-accepted",
            format!("parse into a {small}-byte buffer succeeded for a {}-byte payload", all.len()),
        );
    }

    let has_opt = !tail.is_empty();
    let extreme = [c.vid, c.pid].iter().any(|v| *v == 0 || *v == 0xFFFF)
        || c.disc == 0
        || c.disc == 0xFFF
        || c.passcode == 0
        || c.passcode == (1 << 27) - 1
        || c.passcode == 1
        || c.passcode == 99_999_998;
    let mut case = Case::pass(has_opt && extreme);
    if !c.serial.is_empty() {
        case = case.label("serial");
    }
    if !c.opt.is_empty() {
        case = case.label("tlv-extension");
    }
    if extreme {
        case = case.label("field-extreme");
    }
    case
}

/// `QrPayload::is_valid` is the only range validator of the QR payload fields (the parser does not
/// validate): legal field combinations must be valid, out-of-range ones must not (spec 5.1.7
/// invalid passcodes, 2.5.2 vendor id ranges, 5.1.3 at least one discovery capability).
fn check_qr_is_valid(c: &QrCase) -> Case {
    let opt: Vec<u8> = Vec::new();
    let opt_ref = &opt;
    let payload = QrPayload::new(
        DiscoveryCapabilities::from_bits_truncate(c.caps),
        flow_of(c.flow),
        comm_data(c.passcode, c.disc),
        c.vid,
        c.pid,
        c.serial.as_str(),
        move || opt_ref.clone().into_iter().map(Ok::<u8, Error>),
    );
    let got = payload.is_valid();
    const BAD_PINS: [u32; 12] = [0, 11111111, 22222222, 33333333, 44444444, 55555555, 66666666, 77777777, 88888888, 99999999, 12345678, 87654321];
    let pin_ok = c.passcode <= 99_999_998 && !BAD_PINS.contains(&c.passcode);
    let caps_ok = c.caps & 0x07 != 0;
    let vid_reserved = c.vid >= 0xFFF5;
    let pid_ok = c.pid != 0 || c.vid == 0;
    if !pin_ok || !caps_ok {
        return if got {
            Case::fail("qr:is-valid-accepts-out-of-range-field", format!("passcode {} capabilities {:#x} judged valid", c.passcode, c.caps))
        } else {
            Case::pass(true).label("invalid-refused")
        };
    }
    if vid_reserved {
        return if got {
            Case::fail("qr:is-valid-accepts-reserved-vendor-id", format!("vendor id {:#06x} (reserved range 0xFFF5..=0xFFFF) judged valid", c.vid))
        } else {
            Case::pass(true).label("reserved-vid-refused")
        };
    }
    if !pid_ok {
        // product id 0 with a concrete vendor id: the specification reserves it; either outcome
        return Case::pass(false).label("pid0");
    }
    if !got {
        return Case::fail(
            "qr:is-valid-refuses-legal-fields",
            format!("vendor id {:#06x} product id {:#06x} passcode {} discriminator {:#x} capabilities {:#x} judged invalid", c.vid, c.pid, c.passcode, c.disc, c.caps),
        );
    }
    Case::pass(c.vid != 0).label("valid")
}

#[derive(Debug, Clone, Serialize, Deserialize)]
enum QrFuzz {
    /// arbitrary text
    Raw(String),
    /// "MT:" + arbitrary characters, mostly from the base-38 alphabet
    Body(String),
    /// reference encoding of arbitrary bytes, then an edit
    Bytes { bytes: Vec<u8>, edit: Edit },
}

#[derive(Debug, Clone, Serialize, Deserialize)]
enum Edit {
    None,
    /// replace the character selected by `.0` by `.1`
    Replace(u16, char),
    /// insert `.1` at the position selected by `.0`
    Insert(u16, char),
    /// drop this many trailing characters
    Truncate(u8),
}

fn bad_char() -> impl Strategy<Value = char> {
    prop::sample::select(vec![
        'a', 'z', '/', ':', ';', '@', '[', ' ', '$', '%', '*', '+', ',', '!', '_', '~', '\u{0}', '\u{7f}', '\u{e9}',
        '\u{4e2d}', 'A', '0', '.', '-', 'Z',
    ])
}

fn edit() -> impl Strategy<Value = Edit> {
    prop_oneof![
        2 => Just(Edit::None),
        4 => (any::<u16>(), bad_char()).prop_map(|(p, c)| Edit::Replace(p, c)),
        2 => (any::<u16>(), bad_char()).prop_map(|(p, c)| Edit::Insert(p, c)),
        2 => (1u8..6).prop_map(Edit::Truncate),
    ]
}

fn apply_edit(s: &str, e: &Edit) -> String {
    let mut chars: Vec<char> = s.chars().collect();
    match e {
        Edit::None => {}
        Edit::Replace(p, c) => {
            if !chars.is_empty() {
                let i = pick(*p, chars.len());
                chars[i] = *c;
            }
        }
        Edit::Insert(p, c) => {
            let i = pick(*p, chars.len() + 1);
            chars.insert(i, *c);
        }
        Edit::Truncate(n) => {
            let keep = chars.len().saturating_sub(*n as usize);
            chars.truncate(keep);
        }
    }
    chars.into_iter().collect()
}

fn b38_text(max: usize) -> impl Strategy<Value = String> {
    let alpha: Vec<char> = B38.iter().map(|c| *c as char).collect();
    prop::collection::vec(
        prop_oneof![20 => prop::sample::select(alpha), 1 => bad_char()],
        0..=max,
    )
    .prop_map(|v| v.into_iter().collect())
}

fn qr_payload_bytes() -> impl Strategy<Value = Vec<u8>> {
    prop_oneof![
        3 => prop::collection::vec(any::<u8>(), 0..40),
        3 => prop::collection::vec(any::<u8>(), 11..=11),
        3 => (prop::collection::vec(any::<u8>(), 11..=11), prop::collection::vec(any::<u8>(), 0..30)).prop_map(|(mut a, b)| {
            // a plausible TLV tail
            a.push(0x15);
            a.extend(b);
            a.push(0x18);
            a
        }),
    ]
}

fn qr_fuzz() -> impl Strategy<Value = QrFuzz> {
    prop_oneof![
        1 => text(40).prop_map(QrFuzz::Raw),
        3 => b38_text(60).prop_map(QrFuzz::Body),
        6 => (qr_payload_bytes(), edit()).prop_map(|(bytes, edit)| QrFuzz::Bytes { bytes, edit }),
    ]
}

fn check_qr_fuzz(c: &QrFuzz) -> Case {
    let text = match c {
        QrFuzz::Raw(s) => s.clone(),
        QrFuzz::Body(s) => format!("MT:{s}"),
        QrFuzz::Bytes { bytes, edit } => format!("MT:{}", apply_edit(&ref_b38_encode(bytes), edit)),
    };
    let mut buf = vec![0u8; text.len() + 16];
    let res = QrPayload::parse(&text, &mut buf);
    // touch everything of an accepted payload
    let got = res.as_ref().ok().map(|p| {
        let _ = p.serial_no().len();
        let _ = p.commissionable_filter();
        (
            QrFixed {
                version: p.version(),
                vid: p.vid(),
                pid: p.pid(),
                flow: p.comm_flow() as u8,
                caps: p.discovery_capabilities().bits(),
                disc: p.discriminator(),
                passcode: p.passcode(),
                padding: 0,
            },
            p.optional_data().to_vec(),
        )
    });

    let Some(body) = text.strip_prefix("MT:") else {
        return if got.is_some() {
            Case::fail("qr:missing-prefix-accepted", format!("{text:?} was accepted"))
        } else {
            Case::pass(false).label("no-prefix")
        };
    };
    match ref_b38_decode(body) {
        Err(why) => {
            if let Some((f, _)) = got {
                Case::fail(
                    "qr:invalid-base38-accepted",
                    format!("{text:?} is not valid base-38 ({why:?}) but was accepted as {f:?}"),
                )
            } else {
                Case::pass(true).label("invalid-base38-refused")
            }
        }
        Ok(dec) => {
            let Some(mut exp) = ref_qr_unpack(&dec.bytes) else {
                return if got.is_some() {
                    Case::fail("qr:short-payload-accepted", format!("{text:?} ({} bytes) accepted", dec.bytes.len()))
                } else {
                    Case::pass(false).label("too-short")
                };
            };
            if exp.flow == 3 {
                return if got.is_some() {
                    Case::fail("qr:reserved-flow-accepted", format!("{text:?} has commissioning flow 3 and was accepted"))
                } else {
                    Case::pass(true).label("reserved-flow-refused")
                };
            }
            match got {
                Some((mut f, tail)) => {
                    if dec.overflow {
                        return Case::pass(true).label("chunk-overflow-accepted");
                    }
                    // bits of the capabilities bitmap the implementation does not know may be dropped
                    exp.caps &= 0x07;
                    f.caps &= 0x07;
                    exp.padding = 0;
                    if f != exp {
                        return Case::fail("qr:fuzz-fields-differ", format!("{text:?}: reference {exp:?}, decoded {f:?}"));
                    }
                    if tail != dec.bytes[11..] {
                        return Case::fail("qr:fuzz-tail-differs", format!("{text:?}: tail {:02x?} vs {:02x?}", &dec.bytes[11..], tail));
                    }
                    Case::pass(true).label("accepted")
                }
                None => {
                    let canonical = !dec.overflow && ref_b38_encode(&dec.bytes) == body;
                    if canonical && exp.version == 0 && exp.padding == 0 && dec.bytes.len() == 11 {
                        Case::fail("qr:legal-code-refused", format!("{text:?} encodes {exp:?} but was refused"))
                    } else {
                        Case::pass(true).label("refused-unspecified")
                    }
                }
            }
        }
    }
}

// ---------------------------------------------------------------------------------------------
// Manual pairing code
// ---------------------------------------------------------------------------------------------

#[derive(Debug, Clone, Serialize, Deserialize)]
struct ManualCase {
    disc: u16,
    passcode: u32,
    long: bool,
    vid: u16,
    pid: u16,
    /// separators to insert: (position selector, dash?)
    seps: Vec<(u16, bool)>,
}

fn manual_case() -> impl Strategy<Value = ManualCase> {
    (
        disc12(),
        passcode27(),
        any::<bool>(),
        u16_extremes(),
        u16_extremes(),
        prop::collection::vec((any::<u16>(), any::<bool>()), 0..5),
    )
        .prop_map(|(disc, passcode, long, vid, pid, seps)| ManualCase { disc, passcode, long, vid, pid, seps })
}

fn manual_fields_of(code: &str) -> Result<ManualFields, String> {
    match QrPayload::parse_pairing_code(code) {
        Ok(p) => {
            let _ = p.commissionable_filter();
            Ok(ManualFields {
                short_disc: p.short_discriminator(),
                passcode: p.passcode(),
                vid_pid: p.vid_pid(),
            })
        }
        Err(e) => Err(err_dbg(&e)),
    }
}

fn check_manual_roundtrip(c: &ManualCase) -> Case {
    let groups = ref_manual_groups(c.disc, c.passcode, c.long, c.vid, c.pid);
    let digits = ref_manual_digits(&groups);
    let code = digits_str(&digits);
    let want = ManualFields {
        short_disc: (c.disc >> 8) as u8,
        passcode: c.passcode,
        vid_pid: c.long.then_some((c.vid, c.pid)),
    };

    if !c.long {
        // the encoder of the code under test only produces the short form
        let cd = comm_data(c.passcode, c.disc);
        let sut = cd.compute_pairing_code();
        if sut.as_str() != code {
            return Case::fail(
                "manual:encoding-differs-from-spec",
                format!("discriminator {:#x} passcode {}: expected {code}, got {}", c.disc, c.passcode, sut.as_str()),
            );
        }
        let pretty = cd.compute_pretty_pairing_code();
        let want_pretty = format!("{}-{}-{}", &code[..4], &code[4..8], &code[8..]);
        if pretty.as_str() != want_pretty {
            return Case::fail("manual:pretty-form-differs", format!("expected {want_pretty}, got {}", pretty.as_str()));
        }
        match manual_fields_of(pretty.as_str()) {
            Ok(f) if f == want => {}
            other => return Case::fail("manual:pretty-form-not-decoded", format!("{want_pretty}: expected {want:?}, got {other:?}")),
        }
    }

    match manual_fields_of(&code) {
        Ok(f) if f == want => {}
        Ok(f) => return Case::fail("manual:fields-differ", format!("{code}: encoded {want:?}, decoded {f:?}")),
        Err(e) => return Case::fail("manual:legal-code-refused", format!("{code} ({want:?}) refused with {e}")),
    }
    match QrPayload::parse_pairing_code(&code) {
        Ok(p) => {
            let flow = p.comm_flow();
            let ok = if c.long { flow.is_none() } else { flow == Some(CommFlowType::Standard) };
            if !ok {
                return Case::fail("manual:flow-differs", format!("{code}: comm_flow() = {flow:?}"));
            }
            if p.commissionable_filter().short_discriminator != Some((c.disc >> 8) as u8) {
                return Case::fail("manual:filter-short-discriminator", format!("{code}: filter does not carry the short discriminator"));
            }
        }
        Err(_) => return Case::fail("manual:legal-code-refused", format!("{code} refused on second parse")),
    }

    // separators anywhere are ignored
    if !c.seps.is_empty() {
        let mut chars: Vec<char> = code.chars().collect();
        for (p, dash) in &c.seps {
            let i = pick(*p, chars.len() + 1);
            chars.insert(i, if *dash { '-' } else { ' ' });
        }
        let s: String = chars.into_iter().collect();
        match manual_fields_of(&s) {
            Ok(f) if f == want => {}
            other => return Case::fail("manual:separators-not-ignored", format!("{s:?}: expected {want:?}, got {other:?}")),
        }
    }

    // every single-digit change must be refused
    for i in 0..digits.len() {
        for alt in 0..10u8 {
            if alt == digits[i] {
                continue;
            }
            let mut d = digits.clone();
            d[i] = alt;
            let s = digits_str(&d);
            if let Ok(f) = manual_fields_of(&s) {
                return Case::fail(
                    "manual:single-digit-error-accepted",
                    format!("{code} with digit {i} changed to {alt} ({s}) was accepted as {f:?}"),
                );
            }
        }
    }
    // every transposition of two adjacent, different digits must be refused
    let mut transpositions = 0;
    for i in 0..digits.len() - 1 {
        if digits[i] == digits[i + 1] {
            continue;
        }
        let mut d = digits.clone();
        d.swap(i, i + 1);
        transpositions += 1;
        let s = digits_str(&d);
        if let Ok(f) = manual_fields_of(&s) {
            return Case::fail(
                "manual:transposition-accepted",
                format!("{code} with digits {i},{} swapped ({s}) was accepted as {f:?}", i + 1),
            );
        }
    }
    // wrong lengths
    for s in [&code[..code.len() - 1], &format!("{code}0"), &code[1..]] {
        if manual_fields_of(s).is_ok() {
            return Case::fail("manual:wrong-length-accepted", format!("{s} ({} digits) was accepted", s.len()));
        }
    }

    let extreme = c.disc == 0 || c.disc == 0xFFF || c.passcode <= 1 || c.passcode >= 99_999_998 || c.passcode & 0x3FFF == 0x3FFF;
    let mut case = Case::pass((c.long || !c.seps.is_empty()) && extreme && transpositions > 0);
    case = case.label(if c.long { "long-form" } else { "short-form" });
    if !c.seps.is_empty() {
        case = case.label("separators");
    }
    case
}

fn manual_groups_any() -> impl Strategy<Value = ManualGroups> {
    (
        0u8..=9,
        prop_oneof![0u32..=99_999, 65_530u32..=65_541, Just(65_535u32), Just(65_536u32), Just(99_999u32)],
        prop_oneof![0u32..=9_999, 8_186u32..=8_197, Just(8_191u32), Just(8_192u32), Just(9_999u32)],
        any::<bool>(),
        prop_oneof![0u32..=99_999, 65_530u32..=65_541, Just(65_535u32), Just(65_536u32)],
        prop_oneof![0u32..=99_999, 65_530u32..=65_541, Just(65_535u32), Just(65_536u32)],
    )
        .prop_map(|(d1, g2, g3, long, vid, pid)| ManualGroups { d1, g2, g3, long, vid, pid })
}

/// Codes with a CORRECT check digit but arbitrary digit groups: accepted iff all groups are in
/// range, and then decoded to the reference fields.
fn check_manual_groups(g: &ManualGroups) -> Case {
    let code = digits_str(&ref_manual_digits(g));
    let got = manual_fields_of(&code);
    match (ref_manual_decode(&code), got) {
        (Ok(want), Ok(f)) => {
            if f == want {
                Case::pass(true).label("in-range-accepted")
            } else {
                Case::fail("manual:fields-differ", format!("{code}: reference {want:?}, decoded {f:?}"))
            }
        }
        (Ok(want), Err(e)) => Case::fail("manual:legal-code-refused", format!("{code} ({want:?}) refused with {e}")),
        (Err(why), Ok(f)) => Case::fail(
            format!("manual:out-of-range-accepted:{why}"),
            format!("{code} must be refused ({why}) but was accepted as {f:?}"),
        ),
        (Err(why), Err(_)) => Case::pass(true).label(format!("refused:{why}")),
    }
}

#[derive(Debug, Clone, Serialize, Deserialize)]
enum ManualFuzz {
    Raw(String),
    Digits(String),
    Edited { groups: ManualGroups, edit: Edit },
}

fn manual_fuzz() -> impl Strategy<Value = ManualFuzz> {
    let digitish: Vec<char> = "0123456789- ".chars().collect();
    prop_oneof![
        1 => text(30).prop_map(ManualFuzz::Raw),
        3 => prop::collection::vec(prop_oneof![30 => prop::sample::select(digitish), 1 => bad_char()], 0..26)
            .prop_map(|v| ManualFuzz::Digits(v.into_iter().collect())),
        5 => (manual_groups_any(), prop_oneof![
            2 => Just(Edit::None),
            3 => (any::<u16>(), prop::sample::select(vec!['0', '1', '5', '9', '-', ' ', 'x', '\u{663}', '\u{ff11}', '+'])).prop_map(|(p, c)| Edit::Replace(p, c)),
            3 => (any::<u16>(), prop::sample::select(vec!['0', '7', '-', ' ', 'x', '\u{663}', '\n'])).prop_map(|(p, c)| Edit::Insert(p, c)),
            1 => (1u8..4).prop_map(Edit::Truncate),
        ]).prop_map(|(groups, edit)| ManualFuzz::Edited { groups, edit }),
    ]
}

fn check_manual_fuzz(c: &ManualFuzz) -> Case {
    let text = match c {
        ManualFuzz::Raw(s) | ManualFuzz::Digits(s) => s.clone(),
        ManualFuzz::Edited { groups, edit } => apply_edit(&digits_str(&ref_manual_digits(groups)), edit),
    };
    let got = manual_fields_of(&text);
    match (ref_manual_decode(&text), got) {
        (Ok(want), Ok(f)) => {
            if f == want {
                Case::pass(true).label("accepted")
            } else {
                Case::fail("manual:fields-differ", format!("{text:?}: reference {want:?}, decoded {f:?}"))
            }
        }
        (Ok(want), Err(e)) => Case::fail("manual:legal-code-refused", format!("{text:?} ({want:?}) refused with {e}")),
        (Err(why), Ok(f)) => Case::fail(
            format!("manual:invalid-accepted:{why}"),
            format!("{text:?} must be refused ({why}) but was accepted as {f:?}"),
        ),
        (Err(why), Err(_)) => Case::pass(why == "check-digit" || why.ends_with("range")).label(format!("refused:{why}")),
    }
}

// ---------------------------------------------------------------------------------------------
// base-38
// ---------------------------------------------------------------------------------------------

#[derive(Debug, Clone, Serialize, Deserialize)]
struct B38Case {
    bytes: Vec<u8>,
}

fn b38_case() -> impl Strategy<Value = B38Case> {
    let byte = prop_oneof![3 => any::<u8>(), 1 => Just(0u8), 1 => Just(0xFFu8)];
    prop_oneof![
        8 => prop::collection::vec(byte.clone(), 0..=64),
        1 => prop::collection::vec(byte, 65..300),
    ]
    .prop_map(|bytes| B38Case { bytes })
}

fn sut_b38_decode(s: &str) -> Result<Vec<u8>, String> {
    let mut out = Vec::new();
    for b in base38::decode(s) {
        match b {
            Ok(b) => out.push(b),
            Err(e) => return Err(err_dbg(&e)),
        }
    }
    Ok(out)
}

fn check_b38_roundtrip(c: &B38Case) -> Case {
    let want = ref_b38_encode(&c.bytes);
    let got: String = base38::encode(&c.bytes).collect();
    if got != want {
        return Case::fail(
            "base38:encoding-differs-from-spec",
            format!("{} bytes {:02x?}: expected {want}, got {got}", c.bytes.len(), c.bytes),
        );
    }
    match base38::encode_string::<512>(&c.bytes) {
        Ok(s) if s.as_str() == want => {}
        Ok(s) => return Case::fail("base38:encode_string-differs", format!("expected {want}, got {}", s.as_str())),
        Err(e) => return Case::fail("base38:encode_string-failed", err_dbg(&e)),
    }
    match sut_b38_decode(&got) {
        Ok(b) if b == c.bytes => {}
        other => {
            return Case::fail(
                "base38:roundtrip-differs",
                format!("{} bytes {:02x?} -> {got} -> {other:02x?}", c.bytes.len(), c.bytes),
            )
        }
    }
    match base38::decode_vec::<512>(&got) {
        Ok(b) if b.as_slice() == c.bytes.as_slice() => {}
        Ok(b) => return Case::fail("base38:decode_vec-differs", format!("{got} -> {:02x?}", b.as_slice())),
        Err(e) => return Case::fail("base38:decode_vec-failed", err_dbg(&e)),
    }
    // a capacity that is too small gives an error (not a panic, not a truncated result)
    if !c.bytes.is_empty() {
        if let Ok(b) = base38::decode_vec::<4>(&got) {
            if c.bytes.len() > 4 {
                return Case::fail("base38:decode_vec-overflow-accepted", format!("{} bytes decoded into capacity 4: {:02x?}", c.bytes.len(), b.as_slice()));
            }
        }
        if c.bytes.len() > 2 && base38::encode_string::<3>(&c.bytes).is_ok() {
            return Case::fail("base38:encode_string-overflow-accepted", "more than 3 characters fit a String<3>");
        }
    }
    let len = c.bytes.len();
    Case::pass(len % 3 != 0 && len > 0)
        .label(format!("len%3={}", len % 3))
        .label(if len <= 64 { format!("len={len:02}") } else { "len>64".to_string() })
}

#[derive(Debug, Clone, Serialize, Deserialize)]
enum B38Fuzz {
    Text(String),
    Edited { bytes: Vec<u8>, edit: Edit },
}

fn b38_fuzz() -> impl Strategy<Value = B38Fuzz> {
    prop_oneof![
        2 => b38_text(40).prop_map(B38Fuzz::Text),
        1 => text(20).prop_map(B38Fuzz::Text),
        6 => (prop::collection::vec(any::<u8>(), 0..40), edit()).prop_map(|(bytes, edit)| B38Fuzz::Edited { bytes, edit }),
    ]
}

fn check_b38_decode(c: &B38Fuzz) -> Case {
    let text = match c {
        B38Fuzz::Text(s) => s.clone(),
        B38Fuzz::Edited { bytes, edit } => apply_edit(&ref_b38_encode(bytes), edit),
    };
    let got = sut_b38_decode(&text);
    let got_vec = base38::decode_vec::<256>(&text);
    match ref_b38_decode(&text) {
        Err(why) => {
            let sig = match why {
                B38Err::Char(_) => "base38:invalid-character-not-refused",
                B38Err::Len => "base38:invalid-chunk-length-not-refused",
            };
            if let Ok(b) = &got {
                return Case::fail(sig, format!("decode({text:?}) must fail ({why:?}) but yielded {b:02x?} without an error"));
            }
            if let Ok(b) = &got_vec {
                return Case::fail(sig, format!("decode_vec({text:?}) must fail ({why:?}) but returned Ok({:02x?})", b.as_slice()));
            }
            Case::pass(true).label(match why {
                B38Err::Char(_) => "refused:character",
                B38Err::Len => "refused:length",
            })
        }
        Ok(dec) => {
            if dec.overflow {
                // a chunk value that does not fit its bytes: refusing and wrapping are both tolerated
                return Case::pass(true).label(if got.is_ok() { "chunk-overflow-accepted" } else { "chunk-overflow-refused" });
            }
            match (&got, &got_vec) {
                (Ok(a), Ok(b)) if *a == dec.bytes && b.as_slice() == dec.bytes.as_slice() => {
                    Case::pass(!dec.bytes.is_empty()).label("accepted")
                }
                _ => Case::fail(
                    "base38:valid-text-decoded-wrongly",
                    format!("{text:?}: reference {:02x?}, decode {got:02x?}, decode_vec ok={}", dec.bytes, got_vec.is_ok()),
                ),
            }
        }
    }
}

// ---------------------------------------------------------------------------------------------
// Self-test of the reference models against the vectors of the specification / repository
// ---------------------------------------------------------------------------------------------

fn self_test() -> Result<(), String> {
    for code in ["00876800071", "26318621095", "34970112332"] {
        let d: Vec<u8> = code.bytes().map(|b| b - b'0').collect();
        if !verhoeff_valid(&d) || verhoeff_digit(&d[..10]) != d[10] {
            return Err(format!("Verhoeff tables do not reproduce {code}"));
        }
    }
    let g = ref_manual_groups(3840, 20202021, false, 0, 0);
    if digits_str(&ref_manual_digits(&g)) != "34970112332" {
        return Err("manual code reference encoder does not reproduce 34970112332".into());
    }
    // CHIP SDK test vector of the long form: discriminator 0xa1f (short 10), passcode 12345679, vid 1, pid 1
    let dec = [0x88u8, 0xff, 0xa7, 0x91, 0x50, 0x40, 0x00, 0x47, 0x51, 0xdd, 0x02];
    if ref_b38_encode(&dec) != "-MOA57ZU02IT2L2BJ00" {
        return Err("base-38 reference encoder does not reproduce the repository vector".into());
    }
    match ref_b38_decode("-MOA57ZU02IT2L2BJ00") {
        Ok(d) if d.bytes == dec && !d.overflow => {}
        _ => return Err("base-38 reference decoder does not reproduce the repository vector".into()),
    }
    let f = QrFixed { version: 0, vid: 9050, pid: 65279, flow: 0, caps: 2, disc: 2976, passcode: 34567890, padding: 0 };
    if format!("MT:{}", ref_b38_encode(&ref_qr_pack(&f))) != "MT:YNJV7VSC00CMVH7SR00" {
        return Err("QR reference encoder does not reproduce MT:YNJV7VSC00CMVH7SR00".into());
    }
    if ref_qr_unpack(&ref_qr_pack(&f)) != Some(f) {
        return Err("QR reference unpack is not the inverse of pack".into());
    }
    Ok(())
}

fn main() {
    let mut run = Run::new(
        "C17",
        "exploration",
        "per format: generated field combinations weighted to extremes (0, max, group boundaries) with optional parts, encoded by rs-matter and compared with an independent reference encoding, decoded back and compared field by field; plus decoder inputs that are arbitrary text/bytes, reference encodings of arbitrary fields and single edits of valid encodings, judged by an independent reference decoder. Non-trivial: round trip with >= 1 optional part present and >= 1 field at an extreme; fuzz input that passes the first decoder stage or hits a must-refuse class; distinct = distinct serialized case",
    );
    run.assume("the reference models (Verhoeff tables, base-38, QR bit packing, TLV, BLE AD, DNS wire format) are correct; they are self-tested against the vectors 34970112332 / 00876800071 / 26318621095 / MT:YNJV7VSC00CMVH7SR00 / -MOA57ZU02IT2L2BJ00");
    run.assume("buffers handed to encoders are large enough (QrPayload::as_str panics in split_at_mut on a too-small buffer; encoders are not the subject of the no-panic clause)");
    run.assume("the `x509-cert`/`der` crates (0.2.5/0.7.10) decode DER correctly; they are used only on the output of CertRef::as_asn1, never inside rs-matter's conversion path");
    run.assume("hook MatterLocalService::verif_service is a pass-through to the private service_internal (explicit device details, port and ICD mode instead of a Matter object)");
    run.assume("generator domains: 12-bit discriminator, 27-bit passcode, serial number <= 32 characters, device name <= 32 / pairing instruction <= 250 bytes (one TXT string), certificates with <= 5 RDNs and DER-minimal positive serial numbers, key usage 1..=0x1FF, key purposes 1..=6");

    if let Err(e) = self_test() {
        eprintln!("reference model self-test failed: {e}");
        std::process::exit(2);
    }

    let n = run.cases(60_000, 1_500_000);
    run.prop("qr-roundtrip", n, qr_case, check_qr_roundtrip);
    let n = run.cases(300_000, 6_000_000);
    run.prop("qr-parse-fuzz", n, qr_fuzz, check_qr_fuzz);
    let n = run.cases(50_000, 500_000);
    run.prop("qr-is-valid", n, qr_case, check_qr_is_valid);

    let n = run.cases(50_000, 1_000_000);
    run.prop("manual-roundtrip", n, manual_case, check_manual_roundtrip);
    let n = run.cases(200_000, 4_000_000);
    run.prop("manual-digit-groups", n, manual_groups_any, check_manual_groups);
    let n = run.cases(300_000, 6_000_000);
    run.prop("manual-parse-fuzz", n, manual_fuzz, check_manual_fuzz);

    let n = run.cases(100_000, 2_000_000);
    run.prop("base38-roundtrip", n, b38_case, check_b38_roundtrip);
    let n = run.cases(300_000, 6_000_000);
    run.prop("base38-decode", n, b38_fuzz, check_b38_decode);

    more::run_all(&mut run);

    run.finish();
}

mod more {
    use super::*;

    pub fn run_all(run: &mut Run) {
        super::ble::run_all(run);
        super::mdns_chk::run_all(run);
        super::cert_chk::run_all(run);
        super::cd_chk::run_all(run);
    }
}

// ---------------------------------------------------------------------------------------------
// Certification declaration: CMS SignedData envelope (RFC 5652 as profiled by Matter 6.3.1) and
// the certification-elements TLV. rs-matter has only decoders, so the encoder is the reference.
// ---------------------------------------------------------------------------------------------
mod cd_chk {
    use super::cert_model::der_len;
    use super::*;

    use rs_matter::attest::cd::{CertificationElements, CertificationType, CmsSignedData};

    const VEC_CONTENT_01: &str = "152400012501f1ff360205008018250334122c04135a494732303134315a423333303030312d32342405002406002507942624080018";
    const VEC_CMS_01: &str = "3081e806092a864886f70d010702a081da3081d7020103310d300b0609608648016503040201304506092a864886f70d010701a0380436152400012501f1ff360205008018250334122c04135a494732303134315a423333303030312d32342405002406002507942624080018317c307a020103801462fa823359acfaa9963e1cfa140addf504f37160300b0609608648016503040201300a06082a8648ce3d04030204463044022043a63f2b943df33c38b3e02fcaa75fe3532aebbf5e63f5bbdbc0b1f01d3c4f6002204c1abf5f1807b81894b1576c47e4724e4d966c612ed3fa25c118c3f2b3f90369";
    const VEC_CONTENT_02: &str = "152400012501f2ff360205018005028018250334122c04135a494732303134325a423333303030322d3234240500240600250794262408002509f1ff250a008018";
    const VEC_CMS_02: &str = "3081f506092a864886f70d010702a081e73081e4020103310d300b0609608648016503040201305006092a864886f70d010701a0430441152400012501f2ff360205018005028018250334122c04135a494732303134325a423333303030322d3234240500240600250794262408002509f1ff250a008018317e307c020103801462fa823359acfaa9963e1cfa140addf504f37160300b0609608648016503040201300a06082a8648ce3d04030204483046022100926296f7578158be7c459388336ca7383766c9eedd9855cbda6f4cf6bdf43211022100e0dbf4a2bcec4ea274baf0dea208b3365c6ed544086d101afdaf079a2c23e0de";

    #[derive(Debug, Clone, PartialEq, Eq, Serialize, Deserialize)]
    pub struct CdSpec {
        format_version: u16,
        vendor_id: u16,
        product_ids: Vec<u16>,
        device_type: u32,
        cert_id: String,
        security_level: u8,
        security_info: u16,
        version_number: u16,
        cert_type: u8,
        dac_vid: Option<u16>,
        dac_pid: Option<u16>,
        paa: Option<Vec<Vec<u8>>>,
        key_id: Vec<u8>,
        r: Vec<u8>,
        s: Vec<u8>,
    }

    fn tl_uint(out: &mut Vec<u8>, tag: Option<u8>, v: u64) {
        let w = if v <= 0xFF { 0 } else if v <= 0xFFFF { 1 } else if v <= 0xFFFF_FFFF { 2 } else { 3 };
        match tag {
            Some(t) => out.extend([0x24 + w, t]),
            None => out.push(0x04 + w),
        }
        out.extend(&v.to_le_bytes()[..1 << w]);
    }

    fn cd_tlv(s: &CdSpec) -> Vec<u8> {
        let mut o = vec![0x15];
        tl_uint(&mut o, Some(0), s.format_version as u64);
        tl_uint(&mut o, Some(1), s.vendor_id as u64);
        o.extend([0x36, 2]);
        for p in &s.product_ids {
            tl_uint(&mut o, None, *p as u64);
        }
        o.push(0x18);
        tl_uint(&mut o, Some(3), s.device_type as u64);
        o.extend([0x2C, 4, s.cert_id.len() as u8]);
        o.extend(s.cert_id.as_bytes());
        tl_uint(&mut o, Some(5), s.security_level as u64);
        tl_uint(&mut o, Some(6), s.security_info as u64);
        tl_uint(&mut o, Some(7), s.version_number as u64);
        tl_uint(&mut o, Some(8), s.cert_type as u64);
        if let Some(v) = s.dac_vid {
            tl_uint(&mut o, Some(9), v as u64);
        }
        if let Some(p) = s.dac_pid {
            tl_uint(&mut o, Some(10), p as u64);
        }
        if let Some(paa) = &s.paa {
            o.extend([0x36, 11]);
            for k in paa {
                o.extend([0x10, k.len() as u8]);
                o.extend(k);
            }
            o.push(0x18);
        }
        o.push(0x18);
        o
    }

    fn der(tag: u8, body: &[u8]) -> Vec<u8> {
        let mut o = vec![tag];
        der_len(&mut o, body.len());
        o.extend(body);
        o
    }

    fn der_int(v: &[u8]) -> Vec<u8> {
        let mut b: &[u8] = v;
        while b.len() > 1 && b[0] == 0 {
            b = &b[1..];
        }
        let mut c = Vec::new();
        if b.is_empty() || b[0] & 0x80 != 0 {
            c.push(0);
        }
        c.extend(b);
        der(0x02, &c)
    }

    const OID_SIGNED_DATA: &[u8] = &[0x06, 0x09, 0x2a, 0x86, 0x48, 0x86, 0xf7, 0x0d, 0x01, 0x07, 0x02];
    const OID_DATA: &[u8] = &[0x06, 0x09, 0x2a, 0x86, 0x48, 0x86, 0xf7, 0x0d, 0x01, 0x07, 0x01];
    const OID_SHA256: &[u8] = &[0x06, 0x09, 0x60, 0x86, 0x48, 0x01, 0x65, 0x03, 0x04, 0x02, 0x01];
    const OID_ECDSA_SHA256: &[u8] = &[0x06, 0x08, 0x2a, 0x86, 0x48, 0xce, 0x3d, 0x04, 0x03, 0x02];

    fn cms(content: &[u8], key_id: &[u8], r: &[u8], s: &[u8]) -> Vec<u8> {
        let sig = der(0x30, &[der_int(r), der_int(s)].concat());
        let signer = der(
            0x30,
            &[vec![0x02, 0x01, 0x03], der(0x80, key_id), der(0x30, OID_SHA256), der(0x30, OID_ECDSA_SHA256), der(0x04, &sig)].concat(),
        );
        let encap = der(0x30, &[OID_DATA.to_vec(), der(0xA0, &der(0x04, content))].concat());
        let signed = der(
            0x30,
            &[vec![0x02, 0x01, 0x03], der(0x31, &der(0x30, OID_SHA256)), encap, der(0x31, &signer)].concat(),
        );
        der(0x30, &[OID_SIGNED_DATA.to_vec(), der(0xA0, &signed)].concat())
    }

    fn fixed32(v: &[u8]) -> Option<[u8; 32]> {
        let mut b: &[u8] = v;
        while b.len() > 1 && b[0] == 0 {
            b = &b[1..];
        }
        if b.len() > 32 {
            return None;
        }
        let mut out = [0u8; 32];
        out[32 - b.len()..].copy_from_slice(b);
        Some(out)
    }

    fn cert_id() -> impl Strategy<Value = String> {
        let chars: Vec<char> = "ABCDEFGHIJKLMNOPQRSTUVWXYZ0123456789-".chars().collect();
        prop::collection::vec(prop::sample::select(chars), 19..=19).prop_map(|v| v.into_iter().collect())
    }

    fn scalar() -> impl Strategy<Value = Vec<u8>> {
        prop_oneof![
            3 => prop::collection::vec(any::<u8>(), 32..=32),
            1 => prop::collection::vec(any::<u8>(), 1..32),
            1 => prop::collection::vec(any::<u8>(), 30..=30).prop_map(|mut v| { v.insert(0, 0); v.insert(0, 0); v }),
            1 => prop::collection::vec(any::<u8>(), 31..=31).prop_map(|mut v| { v.insert(0, 0xFF); v }),
        ]
    }

    fn cd_legal() -> impl Strategy<Value = CdSpec> {
        (
            (u16_extremes(), prop_oneof![3 => prop::collection::vec(u16_extremes(), 1..4), 1 => prop::collection::vec(any::<u16>(), 99..=100), 1 => prop::collection::vec(any::<u16>(), 4..99)]),
            (prop_oneof![Just(0u32), Just(u32::MAX), Just(0x1234u32), any::<u32>()], cert_id(), any::<u8>(), u16_extremes(), u16_extremes(), 0u8..=2),
            prop_oneof![1 => Just(None), 1 => (u16_extremes(), u16_extremes()).prop_map(Some)],
            prop_oneof![2 => Just(None), 2 => prop::collection::vec(prop::collection::vec(any::<u8>(), 20..=20), 1..=3).prop_map(Some), 1 => prop::collection::vec(prop::collection::vec(any::<u8>(), 20..=20), 10..=10).prop_map(Some)],
            (prop::collection::vec(any::<u8>(), 20..=20), scalar(), scalar()),
        )
            .prop_map(|((vendor_id, product_ids), (device_type, cert_id, security_level, security_info, version_number, cert_type), dac, paa, (key_id, r, s))| CdSpec {
                format_version: 1,
                vendor_id,
                product_ids,
                device_type,
                cert_id,
                security_level,
                security_info,
                version_number,
                cert_type,
                dac_vid: dac.map(|d| d.0),
                dac_pid: dac.map(|d| d.1),
                paa,
                key_id,
                r,
                s,
            })
    }

    /// One constraint of the certification-elements schema (Matter 6.3.1) to break.
    #[derive(Debug, Clone, Serialize, Deserialize)]
    pub enum Break {
        None,
        FormatVersion(u16),
        CertType(u8),
        CertIdLen(u8),
        NoProductIds,
        TooManyProductIds(u8),
        OnlyDacVid,
        OnlyDacPid,
        TooManyPaa,
        PaaKeyLen(u8),
    }

    #[derive(Debug, Clone, Serialize, Deserialize)]
    pub struct CdCase {
        spec: CdSpec,
        brk: Break,
    }

    fn cd_case() -> impl Strategy<Value = CdCase> {
        (
            cd_legal(),
            prop_oneof![
                8 => Just(Break::None),
                1 => prop_oneof![Just(0u16), Just(2u16), Just(0x101u16), any::<u16>()].prop_filter("not 1", |v| *v != 1).prop_map(Break::FormatVersion),
                1 => (3u8..=255).prop_map(Break::CertType),
                1 => prop_oneof![0u8..19, 20u8..40].prop_map(Break::CertIdLen),
                1 => Just(Break::NoProductIds),
                1 => (101u8..130).prop_map(Break::TooManyProductIds),
                1 => Just(Break::OnlyDacVid),
                1 => Just(Break::OnlyDacPid),
                1 => Just(Break::TooManyPaa),
                1 => prop_oneof![0u8..20, 21u8..33].prop_map(Break::PaaKeyLen),
            ],
        )
            .prop_map(|(spec, brk)| CdCase { spec, brk })
    }

    fn apply_break(s: &CdSpec, b: &Break) -> CdSpec {
        let mut s = s.clone();
        match b {
            Break::None => {}
            Break::FormatVersion(v) => s.format_version = *v,
            Break::CertType(t) => s.cert_type = *t,
            Break::CertIdLen(n) => {
                s.cert_id = "ZIG20141ZB330001-24ZIG20141ZB330001-24XX"[..*n as usize].to_string();
            }
            Break::NoProductIds => s.product_ids.clear(),
            Break::TooManyProductIds(n) => s.product_ids = (0..*n as u16).collect(),
            Break::OnlyDacVid => {
                s.dac_vid = Some(0xFFF1);
                s.dac_pid = None;
            }
            Break::OnlyDacPid => {
                s.dac_vid = None;
                s.dac_pid = Some(0x8000);
            }
            Break::TooManyPaa => s.paa = Some((0..11u8).map(|i| vec![i; 20]).collect()),
            Break::PaaKeyLen(n) => s.paa = Some(vec![vec![7u8; *n as usize]]),
        }
        s
    }

    fn elements_differ(e: &CertificationElements, s: &CdSpec) -> Option<String> {
        let paa = s.paa.clone().unwrap_or_default();
        let ok = e.format_version == s.format_version
            && e.vendor_id == s.vendor_id
            && e.product_ids_count == s.product_ids.len()
            && e.product_ids[..e.product_ids_count.min(100)] == s.product_ids[..]
            && e.device_type_id == s.device_type
            && e.certificate_id[..] == *s.cert_id.as_bytes()
            && e.security_level == s.security_level
            && e.security_information == s.security_info
            && e.version_number == s.version_number
            && e.certification_type as u8 == s.cert_type
            && e.dac_origin_vid_pid_present == s.dac_vid.is_some()
            && (s.dac_vid.is_none() || (Some(e.dac_origin_vendor_id), Some(e.dac_origin_product_id)) == (s.dac_vid, s.dac_pid))
            && e.authorized_paa_list_count == paa.len()
            && e.authorized_paa_list.iter().zip(paa.iter()).all(|(a, b)| a[..] == b[..]);
        (!ok).then(|| format!("encoded {s:?}, decoded {e:?}"))
    }

    fn check_cd_roundtrip(c: &CdCase) -> Case {
        let spec = apply_break(&c.spec, &c.brk);
        let content = cd_tlv(&spec);
        let msg = cms(&content, &spec.key_id, &spec.r, &spec.s);

        // the envelope does not depend on the validity of the content
        let want_sig = fixed32(&spec.r).zip(fixed32(&spec.s));
        match (CmsSignedData::parse(&msg), want_sig) {
            (Ok(p), Some((r, s))) => {
                if p.signer_key_id != spec.key_id.as_slice() || p.cd_content != content.as_slice() || p.signature_raw[..32] != r || p.signature_raw[32..] != s {
                    return Case::fail(
                        "cd:cms-fields-differ",
                        format!("key id {:02x?} vs {:02x?}; content equal: {}; signature {:02x?} vs r {:02x?} s {:02x?}", p.signer_key_id, spec.key_id, p.cd_content == content.as_slice(), p.signature_raw, spec.r, spec.s),
                    );
                }
            }
            (Err(e), Some(_)) => return Case::fail("cd:legal-cms-refused", format!("{} for {}", err_dbg(&e), vh::util::hex(&msg))),
            (Ok(_), None) => return Case::fail("cd:oversized-signature-accepted", format!("r {:02x?} s {:02x?}", spec.r, spec.s)),
            (Err(_), None) => {}
        }

        let decoded = CertificationElements::decode(&content);
        match (&c.brk, decoded) {
            (Break::None, Ok(e)) => {
                if let Some(d) = elements_differ(&e, &spec) {
                    return Case::fail("cd:elements-differ", d);
                }
                if e.certification_type != CertificationType::from_u8(spec.cert_type).unwrap_or(CertificationType::Official) {
                    return Case::fail("cd:certification-type", format!("{:?}", e.certification_type));
                }
            }
            (Break::None, Err(e)) => return Case::fail("cd:legal-elements-refused", format!("{} for {spec:?} ({})", err_dbg(&e), vh::util::hex(&content))),
            (b, Ok(e)) => {
                let mut sig = String::new();
                let _ = write!(sig, "{b:?}");
                let sig: String = sig.chars().take_while(|c| c.is_ascii_alphabetic()).collect();
                return Case::fail(format!("cd:out-of-range-accepted:{sig}"), format!("{b:?}: content {} accepted as {e:?}", vh::util::hex(&content)));
            }
            (_, Err(_)) => {}
        }
        let optional = spec.dac_vid.is_some() || spec.paa.is_some();
        let extreme = spec.product_ids.len() >= 99 || spec.vendor_id == 0 || spec.vendor_id == 0xFFFF || spec.device_type == u32::MAX || spec.r.len() != 32 || spec.r[0] >= 0x80;
        let mut label = String::new();
        let _ = write!(label, "{:?}", c.brk);
        let label: String = label.chars().take_while(|c| c.is_ascii_alphabetic()).collect();
        Case::pass(!matches!(c.brk, Break::None) || (optional && extreme)).label(format!("break={label}"))
    }

    #[derive(Debug, Clone, Serialize, Deserialize)]
    pub struct CdFuzz {
        /// 0..=3: repository vector (cms 1, content 1, cms 2, content 2); 4: generated cms; 5: generated content; 6: raw
        base: u8,
        spec: CdSpec,
        raw: Vec<u8>,
        edits: Vec<(u16, u8)>,
        cut: u16,
    }

    fn cd_fuzz() -> impl Strategy<Value = CdFuzz> {
        (
            0u8..7,
            cd_legal(),
            prop::collection::vec(any::<u8>(), 0..80),
            prop::collection::vec((any::<u16>(), prop_oneof![any::<u8>(), Just(0u8), Just(0xFFu8), Just(0x80u8), Just(0x30u8), Just(0x18u8), Just(0x81u8), Just(0x84u8)]), 0..4),
            prop_oneof![3 => Just(0u16), 1 => any::<u16>()],
        )
            .prop_map(|(base, spec, raw, edits, cut)| CdFuzz { base, spec, raw, edits, cut })
    }

    fn check_cd_fuzz(c: &CdFuzz) -> Case {
        let mut bytes = match c.base {
            0 => vh::util::unhex(VEC_CMS_01),
            1 => vh::util::unhex(VEC_CONTENT_01),
            2 => vh::util::unhex(VEC_CMS_02),
            3 => vh::util::unhex(VEC_CONTENT_02),
            4 => cms(&cd_tlv(&c.spec), &c.spec.key_id, &c.spec.r, &c.spec.s),
            5 => cd_tlv(&c.spec),
            _ => c.raw.clone(),
        };
        for (p, b) in &c.edits {
            if !bytes.is_empty() {
                let i = pick(*p, bytes.len());
                bytes[i] = *b;
            }
        }
        if c.cut != 0 {
            let keep = pick(c.cut, bytes.len() + 1);
            bytes.truncate(keep);
        }
        let untouched = c.edits.is_empty() && c.cut == 0;
        let cms_res = CmsSignedData::parse(&bytes);
        let inner = cms_res.as_ref().ok().map(|p| CertificationElements::decode(p.cd_content).is_ok());
        let el = CertificationElements::decode(&bytes);

        if untouched && c.base < 4 {
            // the repository vectors, decoded to the values documented next to them
            let (vid, pids, cid, dac): (u16, &[u16], &str, Option<(u16, u16)>) =
                if c.base < 2 { (0xFFF1, &[0x8000], "ZIG20141ZB330001-24", None) } else { (0xFFF2, &[0x8001, 0x8002], "ZIG20142ZB330002-24", Some((0xFFF1, 0x8000))) };
            let want = CdSpec {
                format_version: 1,
                vendor_id: vid,
                product_ids: pids.to_vec(),
                device_type: 0x1234,
                cert_id: cid.to_string(),
                security_level: 0,
                security_info: 0,
                version_number: 0x2694,
                cert_type: 0,
                dac_vid: dac.map(|d| d.0),
                dac_pid: dac.map(|d| d.1),
                paa: None,
                key_id: Vec::new(),
                r: Vec::new(),
                s: Vec::new(),
            };
            let got = if c.base % 2 == 0 {
                match &cms_res {
                    Ok(p) if vh::util::hex(p.signer_key_id) == "62fa823359acfaa9963e1cfa140addf504f37160" => CertificationElements::decode(p.cd_content),
                    Ok(p) => return Case::fail("cd:vector-key-id", vh::util::hex(p.signer_key_id)),
                    Err(e) => return Case::fail("cd:vector-refused", err_dbg(e)),
                }
            } else {
                el
            };
            return match got {
                Ok(e) => match elements_differ(&e, &want) {
                    None => Case::pass(true).label("vector"),
                    Some(d) => Case::fail("cd:vector-elements-differ", d),
                },
                Err(e) => Case::fail("cd:vector-refused", err_dbg(&e)),
            };
        }
        let accepted = cms_res.is_ok() || el.is_ok();
        Case::pass(accepted)
            .label(if cms_res.is_ok() { "cms-accepted" } else { "cms-refused" })
            .label(match inner {
                Some(true) => "inner-accepted",
                Some(false) => "inner-refused",
                None => "no-inner",
            })
            .label(if el.is_ok() { "elements-accepted" } else { "elements-refused" })
    }

    pub fn run_all(run: &mut Run) {
        let n = run.cases(60_000, 1_200_000);
        run.prop("cd-roundtrip", n, cd_case, check_cd_roundtrip);
        let n = run.cases(300_000, 6_000_000);
        run.prop("cd-decode-fuzz", n, cd_fuzz, check_cd_fuzz);
    }

    /// Engine E3 (libFuzzer) entry: raw bytes through `check_cd_fuzz` (base 6 = raw, no edits).
    pub fn fuzz_cd_raw(raw: &[u8]) -> Case {
        let spec = CdSpec {
            format_version: 1,
            vendor_id: 0xFFF1,
            product_ids: vec![0x8000],
            device_type: 0,
            cert_id: String::new(),
            security_level: 0,
            security_info: 0,
            version_number: 0,
            cert_type: 0,
            dac_vid: None,
            dac_pid: None,
            paa: None,
            key_id: Vec::new(),
            r: Vec::new(),
            s: Vec::new(),
        };
        check_cd_fuzz(&CdFuzz { base: 6, spec, raw: raw.to_vec(), edits: Vec::new(), cut: 0 })
    }

    /// Seed corpus: the repository vectors (CMS 1, content 1, CMS 2, content 2) and reference
    /// encodings of generated legal declarations (CMS envelope and bare certification elements).
    pub fn fuzz_seeds(n: usize, runner: &mut proptest::test_runner::TestRunner) -> Vec<Vec<u8>> {
        let mut out: Vec<Vec<u8>> = [VEC_CMS_01, VEC_CONTENT_01, VEC_CMS_02, VEC_CONTENT_02].iter().map(|v| vh::util::unhex(v)).collect();
        let st = cd_legal();
        for i in 0..n {
            if let Some(spec) = fuzz_sample(&st, runner) {
                let content = cd_tlv(&spec);
                out.push(if i % 2 == 0 { cms(&content, &spec.key_id, &spec.r, &spec.s) } else { content });
            }
        }
        out
    }
}

// ---------------------------------------------------------------------------------------------
// Matter certificate (TLV, spec 6.5) -> X.509 TBSCertificate (DER), compared with an independent
// decode by the `x509-cert` crate.
// ---------------------------------------------------------------------------------------------
mod cert_model {
    use super::*;

    #[derive(Debug, Clone, PartialEq, Eq, Serialize, Deserialize)]
    pub enum DnVal {
        Str(String),
        Uint(u64),
    }

    #[derive(Debug, Clone, PartialEq, Eq, Serialize, Deserialize)]
    pub struct DnAttr {
        /// Matter DN attribute tag 1..=22 (without the printable-string flag)
        pub tag: u8,
        /// the 0x80 flag: the X.509 value is a PrintableString
        pub printable: bool,
        pub val: DnVal,
        /// encode an unsigned value with this many extra width steps (TLV allows any width)
        pub wide: u8,
    }

    #[derive(Debug, Clone, PartialEq, Eq, Serialize, Deserialize)]
    pub enum Ext {
        Basic { ca: bool, path: Option<u8> },
        KeyUsage(u16),
        Eku(Vec<u8>),
        Skid(Vec<u8>),
        Akid(Vec<u8>),
        /// a DER `Extension`: arcs after 1.3.6.1.4.1.37244, critical, value
        Future { arc: u32, critical: bool, value: Vec<u8> },
    }

    #[derive(Debug, Clone, PartialEq, Eq, Serialize, Deserialize)]
    pub struct CertSpec {
        pub serial: Vec<u8>,
        pub sig_algo: u8,
        pub issuer: Vec<DnAttr>,
        pub not_before: u32,
        pub not_after: u32,
        pub subject: Vec<DnAttr>,
        pub pk_algo: u8,
        pub curve: u8,
        pub pubkey: Vec<u8>,
        pub exts: Vec<Ext>,
        pub signature: Option<Vec<u8>>,
    }

    // ---- TLV writer (Matter spec appendix A) ----
    fn t_uint(out: &mut Vec<u8>, tag: u8, v: u64, wide: u8) {
        let min = if v <= 0xFF { 0 } else if v <= 0xFFFF { 1 } else if v <= 0xFFFF_FFFF { 2 } else { 3 };
        let w = (min + wide).min(3);
        out.extend([0x24 + w, tag]);
        out.extend(&v.to_le_bytes()[..1 << w]);
    }

    fn t_bytes(out: &mut Vec<u8>, ctl: u8, tag: u8, b: &[u8]) {
        if b.len() <= 0xFF {
            out.extend([0x20 | ctl, tag, b.len() as u8]);
        } else {
            out.extend([0x20 | (ctl + 1), tag]);
            out.extend((b.len() as u16).to_le_bytes());
        }
        out.extend(b);
    }

    fn t_dn(out: &mut Vec<u8>, tag: u8, attrs: &[DnAttr]) {
        out.extend([0x37, tag]);
        for a in attrs {
            let t = a.tag | if a.printable { 0x80 } else { 0 };
            match &a.val {
                DnVal::Str(s) => t_bytes(out, 0x0C, t, s.as_bytes()),
                DnVal::Uint(v) => t_uint(out, t, *v, a.wide),
            }
        }
        out.push(0x18);
    }

    pub fn der_len(out: &mut Vec<u8>, n: usize) {
        if n < 0x80 {
            out.push(n as u8);
        } else if n < 0x100 {
            out.extend([0x81, n as u8]);
        } else {
            out.extend([0x82, (n >> 8) as u8, n as u8]);
        }
    }

    pub fn future_oid_arcs(arc: u32) -> String {
        format!("1.3.6.1.4.1.37244.{arc}")
    }

    /// DER of one X.509 `Extension` with an OID under the CSA arc.
    pub fn future_der(arc: u32, critical: bool, value: &[u8]) -> Vec<u8> {
        let mut oid = vec![0x2B, 0x06, 0x01, 0x04, 0x01, 0x82, 0xA2, 0x7C];
        // base-128 of arc
        let mut tmp = vec![(arc & 0x7F) as u8];
        let mut a = arc >> 7;
        while a > 0 {
            tmp.push((a & 0x7F) as u8 | 0x80);
            a >>= 7;
        }
        tmp.reverse();
        oid.extend(tmp);
        let mut body = vec![0x06];
        der_len(&mut body, oid.len());
        body.extend(oid);
        if critical {
            body.extend([0x01, 0x01, 0xFF]);
        }
        body.push(0x04);
        der_len(&mut body, value.len());
        body.extend(value);
        let mut out = vec![0x30];
        der_len(&mut out, body.len());
        out.extend(body);
        out
    }

    pub fn to_tlv(s: &CertSpec) -> Vec<u8> {
        let mut o = vec![0x15];
        t_bytes(&mut o, 0x10, 1, &s.serial);
        t_uint(&mut o, 2, s.sig_algo as u64, 0);
        t_dn(&mut o, 3, &s.issuer);
        o.extend([0x26, 4]);
        o.extend(s.not_before.to_le_bytes());
        o.extend([0x26, 5]);
        o.extend(s.not_after.to_le_bytes());
        t_dn(&mut o, 6, &s.subject);
        t_uint(&mut o, 7, s.pk_algo as u64, 0);
        t_uint(&mut o, 8, s.curve as u64, 0);
        t_bytes(&mut o, 0x10, 9, &s.pubkey);
        o.extend([0x37, 10]);
        for e in &s.exts {
            match e {
                Ext::Basic { ca, path } => {
                    o.extend([0x35, 1]);
                    o.extend([if *ca { 0x29 } else { 0x28 }, 1]);
                    if let Some(p) = path {
                        o.extend([0x24, 2, *p]);
                    }
                    o.push(0x18);
                }
                Ext::KeyUsage(k) => t_uint(&mut o, 2, *k as u64, 0),
                Ext::Eku(list) => {
                    o.extend([0x36, 3]);
                    for v in list {
                        o.extend([0x04, *v]);
                    }
                    o.push(0x18);
                }
                Ext::Skid(b) => t_bytes(&mut o, 0x10, 4, b),
                Ext::Akid(b) => t_bytes(&mut o, 0x10, 5, b),
                Ext::Future { arc, critical, value } => t_bytes(&mut o, 0x10, 6, &future_der(*arc, *critical, value)),
            }
        }
        o.push(0x18);
        if let Some(sig) = &s.signature {
            t_bytes(&mut o, 0x10, 11, sig);
        }
        o.push(0x18);
        o
    }

    // ---- TLV reader (only what certificates use) ----
    #[derive(Debug, Clone)]
    pub enum V {
        U(u64),
        B(bool),
        Bytes(Vec<u8>),
        Str(Vec<u8>),
        Cont(u8, Vec<(Option<u8>, V)>),
    }

    fn rd(b: &[u8], p: &mut usize) -> Option<(Option<u8>, V, bool)> {
        let ctl = *b.get(*p)?;
        *p += 1;
        let ty = ctl & 0x1F;
        if ty == 0x18 {
            return Some((None, V::U(0), true));
        }
        let tag = match ctl >> 5 {
            0 => None,
            1 => {
                let t = *b.get(*p)?;
                *p += 1;
                Some(t)
            }
            _ => return None,
        };
        let take = |p: &mut usize, n: usize| -> Option<&[u8]> {
            let s = b.get(*p..*p + n)?;
            *p += n;
            Some(s)
        };
        let le = |s: &[u8]| s.iter().rev().fold(0u64, |a, x| (a << 8) | *x as u64);
        let v = match ty {
            0x04..=0x07 => V::U(le(take(p, 1 << (ty - 4))?)),
            0x00..=0x03 => V::U(le(take(p, 1 << ty)?)),
            0x08 => V::B(false),
            0x09 => V::B(true),
            0x0C..=0x0E => {
                let n = le(take(p, 1 << (ty - 0x0C))?) as usize;
                V::Str(take(p, n)?.to_vec())
            }
            0x10..=0x12 => {
                let n = le(take(p, 1 << (ty - 0x10))?) as usize;
                V::Bytes(take(p, n)?.to_vec())
            }
            0x15..=0x17 => {
                let mut items = Vec::new();
                loop {
                    let (t, v, end) = rd(b, p)?;
                    if end {
                        break;
                    }
                    items.push((t, v));
                }
                V::Cont(ty, items)
            }
            _ => return None,
        };
        Some((tag, v, false))
    }

    fn dn_of(v: &V) -> Option<Vec<DnAttr>> {
        let V::Cont(_, items) = v else { return None };
        items
            .iter()
            .map(|(t, v)| {
                let t = (*t)?;
                let val = match v {
                    V::U(u) => DnVal::Uint(*u),
                    V::Str(s) => DnVal::Str(String::from_utf8(s.clone()).ok()?),
                    _ => return None,
                };
                Some(DnAttr { tag: t & 0x7F, printable: t & 0x80 != 0, val, wide: 0 })
            })
            .collect()
    }

    /// Independent reading of a Matter TLV certificate.
    pub fn from_tlv(b: &[u8]) -> Option<CertSpec> {
        let mut p = 0;
        let (_, V::Cont(0x15, items), _) = rd(b, &mut p)? else { return None };
        let get = |t: u8| items.iter().find(|(tt, _)| *tt == Some(t)).map(|(_, v)| v.clone());
        let u = |t: u8| match get(t)? {
            V::U(u) => Some(u),
            _ => None,
        };
        let bytes = |t: u8| match get(t)? {
            V::Bytes(b) => Some(b),
            _ => None,
        };
        let mut exts = Vec::new();
        let V::Cont(_, eitems) = get(10)? else { return None };
        for (t, v) in eitems {
            exts.push(match (t?, v) {
                (1, V::Cont(_, f)) => {
                    let ca = f.iter().any(|(t, v)| *t == Some(1) && matches!(v, V::B(true)));
                    let path = f.iter().find_map(|(t, v)| match (t, v) {
                        (Some(2), V::U(u)) => Some(*u as u8),
                        _ => None,
                    });
                    Ext::Basic { ca, path }
                }
                (2, V::U(k)) => Ext::KeyUsage(k as u16),
                (3, V::Cont(_, f)) => Ext::Eku(f.iter().filter_map(|(_, v)| if let V::U(u) = v { Some(*u as u8) } else { None }).collect()),
                (4, V::Bytes(b)) => Ext::Skid(b),
                (5, V::Bytes(b)) => Ext::Akid(b),
                // kept raw: only used by the writer/reader sanity check, which skips these
                (6, V::Bytes(b)) => Ext::Future { arc: 0, critical: false, value: b },
                _ => return None,
            });
        }
        Some(CertSpec {
            serial: bytes(1)?,
            sig_algo: u(2)? as u8,
            issuer: dn_of(&get(3)?)?,
            not_before: u(4)? as u32,
            not_after: u(5)? as u32,
            subject: dn_of(&get(6)?)?,
            pk_algo: u(7)? as u8,
            curve: u(8)? as u8,
            pubkey: bytes(9)?,
            exts,
            signature: bytes(11),
        })
    }

    // ---- expectation on the X.509 side ----
    pub fn dn_oid(tag: u8) -> Option<&'static str> {
        Some(match tag {
            1 => "2.5.4.3",
            2 => "2.5.4.4",
            3 => "2.5.4.5",
            4 => "2.5.4.6",
            5 => "2.5.4.7",
            6 => "2.5.4.8",
            7 => "2.5.4.10",
            8 => "2.5.4.11",
            9 => "2.5.4.12",
            10 => "2.5.4.41",
            11 => "2.5.4.42",
            12 => "2.5.4.43",
            13 => "2.5.4.44",
            14 => "2.5.4.46",
            15 => "2.5.4.65",
            16 => "0.9.2342.19200300.100.1.25",
            17 => "1.3.6.1.4.1.37244.1.1",
            18 => "1.3.6.1.4.1.37244.1.2",
            19 => "1.3.6.1.4.1.37244.1.3",
            20 => "1.3.6.1.4.1.37244.1.4",
            21 => "1.3.6.1.4.1.37244.1.5",
            22 => "1.3.6.1.4.1.37244.1.6",
            _ => return None,
        })
    }

    /// `None` when the two agree, else (signature, detail).
    pub fn compare_with_x509(spec: &CertSpec, der_bytes: &[u8]) -> Option<(String, String)> {
        use der::{Decode, Tag, Tagged};
        use x509_cert::ext::pkix::{AuthorityKeyIdentifier, BasicConstraints, ExtendedKeyUsage, KeyUsage, SubjectKeyIdentifier};
        use x509_cert::time::Time;
        use x509_cert::TbsCertificate;

        let fail = |sig: &str, d: String| Some((format!("cert:{sig}"), d));
        let tbs = match TbsCertificate::from_der(der_bytes) {
            Ok(t) => t,
            Err(e) => {
                let mut kind = String::new();
                let _ = write!(kind, "{:?}", e.kind());
                let kind: String = kind.chars().filter(|c| c.is_ascii_alphanumeric()).take(40).collect();
                return fail(&format!("der-not-decodable-by-x509-cert:{kind}"), format!("{e} for spec {spec:?}; DER {}", vh::util::hex(der_bytes)));
            }
        };
        if tbs.version != x509_cert::Version::V3 {
            return fail("version", format!("{:?}", tbs.version));
        }
        // serial: raw INTEGER content from the DER (SEQ { [0]{INT 2}, INT serial, ...
        let raw_serial = (|| {
            let (_, body) = der_tlv(der_bytes, 0)?;
            let (_, v) = der_tlv(der_bytes, body.0)?;
            let (tag, s) = der_tlv(der_bytes, v.1)?;
            (tag == 0x02).then(|| der_bytes[s.0..s.1].to_vec())
        })();
        if raw_serial.as_deref() != Some(&spec.serial[..]) {
            return fail("serial-differs", format!("TLV {:02x?}, DER {raw_serial:02x?}", spec.serial));
        }
        if tbs.signature.oid.to_string() != "1.2.840.10045.4.3.2" || tbs.signature.parameters.is_some() {
            return fail("signature-algorithm", format!("{:?}", tbs.signature));
        }
        for (what, name, want) in [("issuer", &tbs.issuer, &spec.issuer), ("subject", &tbs.subject, &spec.subject)] {
            if name.0.len() != want.len() {
                return fail(&format!("{what}-attribute-count"), format!("TLV has {} attributes {want:?}, X.509 has {}", want.len(), name.0.len()));
            }
            for (rdn, a) in name.0.iter().zip(want.iter()) {
                let atvs: Vec<_> = rdn.0.iter().collect();
                if atvs.len() != 1 {
                    return fail(&format!("{what}-rdn-shape"), format!("{} attributes in one RDN", atvs.len()));
                }
                let atv = atvs[0];
                let want_oid = dn_oid(a.tag).unwrap_or("?");
                let (want_tag, want_val) = match &a.val {
                    DnVal::Uint(v) if a.tag == 22 => (Tag::Utf8String, format!("{:08X}", *v as u32)),
                    DnVal::Uint(v) => (Tag::Utf8String, format!("{v:016X}")),
                    DnVal::Str(s) if a.tag == 16 => (Tag::Ia5String, s.clone()),
                    DnVal::Str(s) if a.printable => (Tag::PrintableString, s.clone()),
                    DnVal::Str(s) => (Tag::Utf8String, s.clone()),
                };
                if atv.oid.to_string() != want_oid || atv.value.value() != want_val.as_bytes() {
                    return fail(
                        &format!("{what}-attribute-differs"),
                        format!("TLV attribute {a:?}: expected OID {want_oid} value {want_val:?}, X.509 has OID {} value {:02x?}", atv.oid, atv.value.value()),
                    );
                }
                if atv.value.tag() != want_tag {
                    return fail(
                        &format!("{what}-attribute-string-type{}", if a.tag == 16 { "-domain-component" } else { "" }),
                        format!("TLV attribute {a:?}: expected {want_tag:?}, X.509 has {:?}", atv.value.tag()),
                    );
                }
            }
        }
        const MATTER_EPOCH: u64 = 946_684_800;
        const Y2050: u64 = 2_524_608_000;
        for (what, t, secs) in [("not-before", &tbs.validity.not_before, spec.not_before), ("not-after", &tbs.validity.not_after, spec.not_after)] {
            let want_unix = if what == "not-after" && secs == 0 { 253_402_300_799 } else { MATTER_EPOCH + secs as u64 };
            if t.to_unix_duration().as_secs() != want_unix {
                return fail(&format!("{what}-differs"), format!("TLV {secs} (unix {want_unix}), X.509 {t} (unix {})", t.to_unix_duration().as_secs()));
            }
            let general = matches!(t, Time::GeneralTime(_));
            if general != (want_unix >= Y2050) {
                return fail(&format!("{what}-time-form"), format!("unix {want_unix} encoded as {}", if general { "GeneralizedTime" } else { "UTCTime" }));
            }
        }
        let spki = &tbs.subject_public_key_info;
        let curve = spki.algorithm.parameters.as_ref().and_then(|p| p.decode_as::<der::asn1::ObjectIdentifier>().ok()).map(|o| o.to_string());
        if spki.algorithm.oid.to_string() != "1.2.840.10045.2.1" || curve.as_deref() != Some("1.2.840.10045.3.1.7") {
            return fail("public-key-algorithm", format!("{:?}", spki.algorithm));
        }
        if spki.subject_public_key.raw_bytes() != spec.pubkey.as_slice() || spki.subject_public_key.unused_bits() != 0 {
            return fail("public-key-differs", format!("TLV {:02x?}, X.509 {:02x?}", spec.pubkey, spki.subject_public_key.raw_bytes()));
        }
        let exts = tbs.extensions.clone().unwrap_or_default();
        if exts.len() != spec.exts.len() {
            return fail("extension-count", format!("TLV {:?}, X.509 has {}", spec.exts, exts.len()));
        }
        for (x, e) in exts.iter().zip(spec.exts.iter()) {
            let v = x.extn_value.as_bytes();
            let oid = x.extn_id.to_string();
            let ok = match e {
                Ext::Basic { ca, path } => {
                    oid == "2.5.29.19" && x.critical && matches!(BasicConstraints::from_der(v), Ok(b) if b.ca == *ca && b.path_len_constraint == *path)
                        // DER: a FALSE default must not be encoded
                        && !(v.len() > 2 && v[2] == 0x01 && !*ca)
                }
                Ext::KeyUsage(k) if *k == 0 => false,
                Ext::KeyUsage(k) => {
                    let minimal = {
                        // BIT STRING with the trailing zero bits removed (X.690 11.2.2)
                        let top = 15 - k.leading_zeros() as usize; // highest set bit index (bit 0 = digitalSignature)
                        let nbytes = top / 8 + 1;
                        let mut bits = vec![0u8; nbytes];
                        for i in 0..=top {
                            if k & (1 << i) != 0 {
                                bits[i / 8] |= 0x80 >> (i % 8);
                            }
                        }
                        let mut d = vec![0x03, (nbytes + 1) as u8, (7 - top % 8) as u8];
                        d.extend(bits);
                        d
                    };
                    oid == "2.5.29.15" && x.critical && matches!(KeyUsage::from_der(v), Ok(ku) if ku.0.bits() == *k) && v == minimal.as_slice()
                }
                Ext::Eku(list) => {
                    let want: Vec<String> = list
                        .iter()
                        .map(|p| format!("1.3.6.1.5.5.7.3.{}", match p { 1 => 1, 2 => 2, 3 => 3, 4 => 4, 5 => 8, _ => 9 }))
                        .collect();
                    oid == "2.5.29.37" && x.critical && matches!(ExtendedKeyUsage::from_der(v), Ok(l) if l.0.iter().map(|o| o.to_string()).collect::<Vec<_>>() == want)
                }
                Ext::Skid(b) => oid == "2.5.29.14" && !x.critical && matches!(SubjectKeyIdentifier::from_der(v), Ok(s) if s.0.as_bytes() == b.as_slice()),
                Ext::Akid(b) => {
                    oid == "2.5.29.35"
                        && !x.critical
                        && matches!(AuthorityKeyIdentifier::from_der(v), Ok(a) if a.key_identifier.as_ref().map(|k| k.as_bytes()) == Some(b.as_slice()) && a.authority_cert_issuer.is_none() && a.authority_cert_serial_number.is_none())
                }
                Ext::Future { arc, critical, value } => oid == future_oid_arcs(*arc) && x.critical == *critical && v == value.as_slice(),
            };
            if !ok {
                let kind = match e {
                    Ext::Basic { path: Some(p), .. } if *p >= 128 => "basic-constraints-pathlen>=128",
                    Ext::Basic { .. } => "basic-constraints",
                    Ext::KeyUsage(_) => "key-usage",
                    Ext::Eku(_) => "extended-key-usage",
                    Ext::Skid(_) => "subject-key-id",
                    Ext::Akid(_) => "authority-key-id",
                    Ext::Future { .. } => "future-extension",
                };
                return fail(&format!("extension-{kind}-differs"), format!("TLV {e:?}; X.509 OID {oid} critical {} value {:02x?}", x.critical, v));
            }
        }
        None
    }

    /// (tag, (content start, content end)) of the DER TLV at `pos`.
    pub fn der_tlv(b: &[u8], pos: usize) -> Option<(u8, (usize, usize))> {
        let tag = *b.get(pos)?;
        let l0 = *b.get(pos + 1)? as usize;
        let (len, hdr) = if l0 < 0x80 {
            (l0, 2)
        } else {
            let n = l0 & 0x7F;
            let mut len = 0usize;
            for i in 0..n {
                len = (len << 8) | *b.get(pos + 2 + i)? as usize;
            }
            (len, 2 + n)
        };
        let start = pos + hdr;
        b.get(start..start + len)?;
        Some((tag, (start, start + len)))
    }
}

mod cert_chk {
    use super::cert_model::*;
    use super::*;

    use rs_matter::cert::CertRef;
    use rs_matter::tlv::TLVElement;

    struct Sink;
    impl std::fmt::Write for Sink {
        fn write_str(&mut self, _: &str) -> std::fmt::Result {
            Ok(())
        }
    }

    fn serial_legal() -> impl Strategy<Value = Vec<u8>> {
        prop_oneof![
            4 => (1u8..=0x7F, prop::collection::vec(any::<u8>(), 0..=19)).prop_map(|(f, mut r)| {
                r.insert(0, f);
                r
            }),
            1 => (0x80u8..=0xFF, prop::collection::vec(any::<u8>(), 0..=18)).prop_map(|(f, mut r)| {
                r.insert(0, f);
                r.insert(0, 0);
                r
            }),
            1 => Just(vec![1u8]),
        ]
    }

    fn printable_text(max: usize) -> impl Strategy<Value = String> {
        let chars: Vec<char> = "ABCXYZabcxyz0189 '()+,-./:=?".chars().collect();
        prop::collection::vec(prop::sample::select(chars), 1..=max).prop_map(|v| v.into_iter().collect())
    }

    fn utf8_text(max: usize) -> impl Strategy<Value = String> {
        let chars: Vec<char> = "ABCabc019 _*@\u{e9}\u{416}\u{4e2d}".chars().collect();
        prop::collection::vec(prop::sample::select(chars), 1..=max).prop_map(|v| v.into_iter().collect())
    }

    fn ia5_text(max: usize) -> impl Strategy<Value = String> {
        let chars: Vec<char> = "abcxyz019-.@_".chars().collect();
        prop::collection::vec(prop::sample::select(chars), 1..=max).prop_map(|v| v.into_iter().collect())
    }

    fn u64_ext() -> impl Strategy<Value = u64> {
        prop_oneof![2 => prop::sample::select(vec![0u64, 1, 0xFF, 0x100, 0xFFFF_FFFF, 0x1_0000_0000, u64::MAX, 0xFFFF_FFFF_FFFF_FFFE]), 3 => any::<u64>()]
    }

    fn dn_attr_legal() -> impl Strategy<Value = DnAttr> {
        prop_oneof![
            6 => (17u8..=21, u64_ext(), 0u8..4).prop_map(|(tag, v, wide)| DnAttr { tag, printable: false, val: DnVal::Uint(v), wide }),
            2 => (prop_oneof![Just(0x0001_0001u32), Just(u32::MAX), any::<u32>()], 0u8..4).prop_map(|(v, wide)| DnAttr { tag: 22, printable: false, val: DnVal::Uint(v as u64), wide }),
            2 => (1u8..=15, printable_text(12)).prop_map(|(tag, s)| DnAttr { tag, printable: true, val: DnVal::Str(s), wide: 0 }),
            2 => (1u8..=15, utf8_text(10)).prop_map(|(tag, s)| DnAttr { tag, printable: false, val: DnVal::Str(s), wide: 0 }),
            1 => ia5_text(12).prop_map(|s| DnAttr { tag: 16, printable: false, val: DnVal::Str(s), wide: 0 }),
        ]
    }

    fn time_legal() -> impl Strategy<Value = u32> {
        prop_oneof![
            3 => prop::sample::select(vec![1u32, 2, 86_399, 86_400, 1_577_923_199, 1_577_923_200, 1_577_923_201, u32::MAX, u32::MAX - 1, 951_782_400, 68_169_600]),
            3 => any::<u32>(),
        ]
    }

    fn key_id() -> impl Strategy<Value = Vec<u8>> {
        prop::collection::vec(any::<u8>(), 20..=20)
    }

    fn exts_legal() -> impl Strategy<Value = Vec<Ext>> {
        (
            (any::<bool>(), prop_oneof![2 => Just(None), 1 => Just(Some(0u8)), 1 => Just(Some(1u8)), 1 => any::<u8>().prop_map(Some)]),
            prop_oneof![3 => 1u16..=0x1FF, 1 => Just(0x0001u16), 1 => Just(0x0060u16), 1 => Just(0x0100u16), 1 => Just(0x0080u16), 1 => Just(0x1FFu16)],
            prop_oneof![1 => Just(None), 2 => prop::collection::vec(1u8..=6, 1..4).prop_map(Some)],
            key_id(),
            prop_oneof![1 => Just(None), 4 => key_id().prop_map(Some)],
            prop_oneof![3 => Just(None), 1 => (1u32..100_000, any::<bool>(), prop::collection::vec(any::<u8>(), 0..12)).prop_map(Some)],
            any::<bool>(),
        )
            .prop_map(|((ca, path), ku, eku, skid, akid, fut, basic_present)| {
                let mut v = Vec::new();
                if basic_present || eku.is_none() {
                    v.push(Ext::Basic { ca, path: if ca { path } else { None } });
                }
                v.push(Ext::KeyUsage(ku));
                if let Some(e) = eku {
                    v.push(Ext::Eku(e));
                }
                v.push(Ext::Skid(skid));
                if let Some(a) = akid {
                    v.push(Ext::Akid(a));
                }
                if let Some((arc, critical, value)) = fut {
                    v.push(Ext::Future { arc, critical, value });
                }
                v
            })
    }

    fn pubkey_legal() -> impl Strategy<Value = Vec<u8>> {
        prop::collection::vec(any::<u8>(), 64..=64).prop_map(|mut v| {
            v.insert(0, 0x04);
            v
        })
    }

    fn spec_legal() -> impl Strategy<Value = CertSpec> {
        (
            serial_legal(),
            prop::collection::vec(dn_attr_legal(), 1..=5),
            time_legal(),
            prop_oneof![1 => Just(0u32), 3 => time_legal()],
            prop::collection::vec(dn_attr_legal(), 1..=5),
            pubkey_legal(),
            exts_legal(),
            prop_oneof![1 => Just(None), 1 => prop::collection::vec(any::<u8>(), 64..=64).prop_map(Some)],
        )
            .prop_map(|(serial, issuer, not_before, not_after, subject, pubkey, exts, signature)| CertSpec {
                serial,
                sig_algo: 1,
                issuer,
                not_before,
                not_after,
                subject,
                pk_algo: 1,
                curve: 1,
                pubkey,
                exts,
                signature,
            })
    }

    fn normalized(s: &CertSpec) -> CertSpec {
        let mut s = s.clone();
        for a in s.issuer.iter_mut().chain(s.subject.iter_mut()) {
            a.wide = 0;
        }
        s
    }

    fn first_uint(attrs: &[DnAttr], tags: &[u8]) -> Option<u64> {
        attrs.iter().find(|a| tags.contains(&a.tag)).and_then(|a| if let DnVal::Uint(v) = a.val { Some(v) } else { None })
    }

    fn check_cert_tlv_to_der(spec: &CertSpec) -> Case {
        let tlv = to_tlv(spec);
        // harness sanity: the independent reader inverts the independent writer
        match from_tlv(&tlv) {
            Some(back) if spec.exts.iter().any(|e| matches!(e, Ext::Future { .. })) || back == normalized(spec) => {}
            other => return Case::inconclusive(format!("reference TLV reader/writer disagree: {other:?} vs {spec:?}")),
        }
        let cert = CertRef::new(TLVElement::new(&tlv));
        let mut buf = vec![0u8; 2048];
        let n = match cert.as_asn1(&mut buf) {
            Ok(n) => n,
            Err(e) => {
                return Case::fail(
                    "cert:legal-certificate-not-converted",
                    format!("as_asn1 failed with {} for {spec:?} (TLV {})", err_dbg(&e), vh::util::hex(&tlv)),
                )
            }
        };
        if let Some((sig, detail)) = compare_with_x509(spec, &buf[..n]) {
            return Case::fail(sig, detail);
        }
        // a too-small output buffer is an error, never a panic
        let small = n / 2;
        let mut sbuf = vec![0u8; small];
        if cert.as_asn1(&mut sbuf).is_ok() {
            return Case::fail("cert:short-buffer-accepted", format!("{n} bytes of DER fit into {small}"));
        }
        // the field accessors of the TLV form
        if !matches!(cert.pubkey(), Ok(k) if k == spec.pubkey.as_slice()) {
            return Case::fail("cert:accessor-pubkey", "pubkey() differs");
        }
        let want_node = first_uint(&spec.subject, &[17]);
        let want_fabric = first_uint(&spec.subject, &[21]);
        let want_ca = first_uint(&spec.subject, &[19, 20]);
        for (what, got, want, has) in [
            ("node-id", cert.get_node_id().ok(), want_node, spec.subject.iter().any(|a| a.tag == 17)),
            ("fabric-id", cert.get_fabric_id().ok(), want_fabric, spec.subject.iter().any(|a| a.tag == 21)),
            ("ca-id", cert.get_ca_id().ok(), want_ca, spec.subject.iter().any(|a| a.tag == 19 || a.tag == 20)),
        ] {
            if got != want && has {
                return Case::fail(format!("cert:accessor-{what}"), format!("subject {:?}: expected {want:?}, got {got:?}", spec.subject));
            }
            if !has && got.is_some() {
                return Case::fail(format!("cert:accessor-{what}-from-nowhere"), format!("subject {:?}: got {got:?}", spec.subject));
            }
        }
        let cats: Vec<u32> = spec.subject.iter().filter(|a| a.tag == 22).filter_map(|a| if let DnVal::Uint(v) = a.val { Some(v as u32) } else { None }).collect();
        let mut out = [0u32; 3];
        match cert.get_cat_ids(&mut out) {
            Ok(()) if cats.len() <= 3 && out[..cats.len()] == cats[..] => {}
            Err(_) if cats.len() > 3 => {}
            other => return Case::fail("cert:accessor-cat-ids", format!("subject CATs {cats:x?}: {other:?} {out:x?}")),
        }
        let path = spec.exts.iter().find_map(|e| if let Ext::Basic { path, .. } = e { Some(*path) } else { None }).flatten();
        if cert.basic_constraints_path_len().ok() != Some(path) {
            return Case::fail("cert:accessor-path-len", format!("{path:?} vs {:?}", cert.basic_constraints_path_len().ok()));
        }
        let skid = spec.exts.iter().find_map(|e| if let Ext::Skid(b) = e { Some(b) } else { None });
        let akid = spec.exts.iter().find_map(|e| if let Ext::Akid(b) = e { Some(b) } else { None });
        if let (Some(s), Some(a)) = (skid, akid) {
            if cert.is_self_signed().ok() != Some(s == a) {
                return Case::fail("cert:accessor-self-signed", format!("SKID {s:02x?} AKID {a:02x?}: {:?}", cert.is_self_signed().ok()));
            }
        }
        let _ = write!(Sink, "{cert}");

        let optional = spec.exts.iter().any(|e| matches!(e, Ext::Eku(_) | Ext::Future { .. } | Ext::Basic { path: Some(_), .. }));
        let extreme = spec.not_after == 0
            || spec.not_before >= 1_577_923_200
            || spec.serial.len() == 20
            || spec.subject.iter().chain(spec.issuer.iter()).any(|a| matches!(a.val, DnVal::Uint(0) | DnVal::Uint(u64::MAX)));
        let mut c = Case::pass(optional && extreme);
        if spec.subject.iter().chain(spec.issuer.iter()).any(|a| a.tag <= 16) {
            c = c.label("standard-dn-attribute");
        }
        if spec.exts.iter().any(|e| matches!(e, Ext::Future { .. })) {
            c = c.label("future-extension");
        }
        if spec.not_after == 0 {
            c = c.label("no-expiry");
        }
        if spec.not_before >= 1_577_923_200 || spec.not_after >= 1_577_923_200 {
            c = c.label("generalized-time");
        }
        c
    }

    // ---- certificates produced by the public generators ----------------------------------

    #[derive(Debug, Clone, Serialize, Deserialize)]
    pub struct GenCase {
        seed: u32,
        fabric_id: u64,
        not_before: u32,
        not_after: u32,
        node_id: u64,
        cats: Vec<u32>,
        with_icac: bool,
    }

    fn gen_case() -> impl Strategy<Value = GenCase> {
        (
            1u32..u32::MAX,
            prop_oneof![Just(1u64), Just(u64::MAX), Just(0xFFFF_FFFF_FFFF_FFFEu64), any::<u64>()],
            prop_oneof![Just(1u32), Just(1_577_923_199u32), Just(1_577_923_200u32), 1u32..u32::MAX],
            prop_oneof![2 => Just(0u32), 1 => Just(u32::MAX), 3 => any::<u32>()],
            prop_oneof![Just(1u64), Just(0xFFFF_FFEF_FFFF_FFFFu64), any::<u64>()],
            prop::collection::vec(prop_oneof![Just(0x0001_0000u32), Just(u32::MAX), 0x0001_0000u32..=u32::MAX], 0..=3),
            any::<bool>(),
        )
            .prop_map(|(seed, fabric_id, not_before, not_after, node_id, cats, with_icac)| GenCase { seed, fabric_id, not_before, not_after, node_id, cats, with_icac })
    }

    fn check_cert_generated(c: &GenCase) -> Case {
        use rs_matter::cert::gen::Validity;
        use rs_matter::crypto::{default_crypto, Crypto, SigningSecretKey, WeakTestOnlyRand};
        use rs_matter::dm::devices::test::DAC_PRIVKEY;
        use rs_matter::onboard::cac::{IcacGenerator, RcacGenerator};
        use rs_matter::onboard::noc::NocGenerator;

        let crypto = default_crypto(WeakTestOnlyRand::new(c.seed), DAC_PRIVKEY);
        let validity = Validity { not_before: c.not_before, not_after: c.not_after };

        let mut b1 = vec![0u8; 1200];
        let (rcac_key, rcac) = match RcacGenerator::new(&mut b1).generate(&crypto, c.fabric_id, validity) {
            Ok((k, bytes)) => (k, bytes.to_vec()),
            Err(e) => return Case::fail("cert:rcac-generation-failed", err_dbg(&e)),
        };
        let mut b2 = vec![0u8; 1200];
        let (sign_key, icac) = if c.with_icac {
            match IcacGenerator::new(&mut b2).generate(&crypto, rcac_key.reference(), &rcac, validity) {
                Ok((k, bytes)) => (k, bytes.to_vec()),
                Err(e) => return Case::fail("cert:icac-generation-failed", err_dbg(&e)),
            }
        } else {
            (rcac_key, Vec::new())
        };
        let mut csr_buf = vec![0u8; 512];
        let csr = match crypto.generate_secret_key().and_then(|k| k.csr(&mut csr_buf).map(|c| c.to_vec())) {
            Ok(c) => c,
            Err(e) => return Case::inconclusive(format!("cannot build a CSR: {}", err_dbg(&e))),
        };
        let mut b3 = vec![0u8; 1200];
        let noc = match NocGenerator::create(sign_key.reference(), &rcac, &icac, &mut b3).and_then(|mut g| g.generate(&crypto, &csr, c.node_id, &c.cats, validity).map(|b| b.to_vec())) {
            Ok(b) => b,
            Err(e) => return Case::fail("cert:noc-generation-failed", format!("{} for {c:?}", err_dbg(&e))),
        };

        let mut specs = Vec::new();
        let mut negative_serial = false;
        for (what, bytes) in [("rcac", &rcac), ("icac", &icac), ("noc", &noc)] {
            if bytes.is_empty() {
                specs.push(None);
                continue;
            }
            let Some(spec) = from_tlv(bytes) else {
                return Case::fail(format!("cert:generated-{what}-not-readable"), format!("TLV {}", vh::util::hex(bytes)));
            };
            let cert = CertRef::new(TLVElement::new(bytes));
            let mut der = vec![0u8; 1024];
            let n = match cert.as_asn1(&mut der) {
                Ok(n) => n,
                Err(e) => return Case::fail(format!("cert:generated-{what}-not-converted"), err_dbg(&e)),
            };
            // the serial number octets are the content of the DER INTEGER: they must be minimal
            if spec.serial.len() > 1 && ((spec.serial[0] == 0xFF && spec.serial[1] >= 0x80) || (spec.serial[0] == 0 && spec.serial[1] < 0x80)) {
                return Case::fail(
                    "cert:generated-serial-not-a-der-integer",
                    format!("{what}: serial number {:02x?} is not a minimally encoded INTEGER, the X.509 form {} is not DER", spec.serial, vh::util::hex(&der[..n])),
                );
            }
            if spec.serial[0] >= 0x80 {
                negative_serial = true;
            }
            if let Some((sig, detail)) = compare_with_x509(&spec, &der[..n]) {
                return Case::fail(format!("{sig}@generated-{what}"), detail);
            }
            if spec.not_before != c.not_before || spec.not_after != c.not_after {
                return Case::fail("cert:generated-validity-differs", format!("{what}: asked {c:?}, certificate has {}..{}", spec.not_before, spec.not_after));
            }
            if bytes.len() > 400 || n > 600 {
                return Case::fail("cert:generated-size", format!("{what}: TLV {} bytes, DER TBS {n} bytes", bytes.len()));
            }
            specs.push(Some(spec));
        }
        let rc = specs[0].clone().unwrap();
        let nc = specs[2].clone().unwrap();
        let uints = |attrs: &[DnAttr], tag: u8| -> Vec<u64> { attrs.iter().filter(|a| a.tag == tag).filter_map(|a| if let DnVal::Uint(v) = a.val { Some(v) } else { None }).collect() };
        if uints(&rc.subject, 21) != [c.fabric_id] || uints(&rc.subject, 20).len() != 1 || rc.issuer != rc.subject {
            return Case::fail("cert:generated-rcac-names", format!("fabric {:#x}: subject {:?} issuer {:?}", c.fabric_id, rc.subject, rc.issuer));
        }
        if uints(&nc.subject, 17) != [c.node_id] || uints(&nc.subject, 21) != [c.fabric_id] || uints(&nc.subject, 22) != c.cats.iter().map(|x| *x as u64).collect::<Vec<_>>() {
            return Case::fail("cert:generated-noc-subject", format!("asked {c:?}, subject {:?}", nc.subject));
        }
        let parent = if let Some(ic) = &specs[1] {
            if ic.issuer != rc.subject || uints(&ic.subject, 19).len() != 1 || uints(&ic.subject, 21) != [c.fabric_id] {
                return Case::fail("cert:generated-icac-names", format!("issuer {:?} subject {:?}; RCAC subject {:?}", ic.issuer, ic.subject, rc.subject));
            }
            ic.clone()
        } else {
            rc.clone()
        };
        if nc.issuer != parent.subject {
            return Case::fail("cert:generated-noc-issuer", format!("issuer {:?}, parent subject {:?}", nc.issuer, parent.subject));
        }
        let skid = |s: &CertSpec| s.exts.iter().find_map(|e| if let Ext::Skid(b) = e { Some(b.clone()) } else { None });
        let akid = |s: &CertSpec| s.exts.iter().find_map(|e| if let Ext::Akid(b) = e { Some(b.clone()) } else { None });
        if akid(&nc) != skid(&parent) || skid(&parent).is_none() || akid(&rc) != skid(&rc) {
            return Case::fail("cert:generated-key-ids", format!("NOC AKID {:02x?}, parent SKID {:02x?}", akid(&nc), skid(&parent)));
        }
        // extension profile of the Matter specification (6.5.11)
        let shape = |s: &CertSpec| -> (Option<bool>, Option<u16>, Option<Vec<u8>>) {
            (
                s.exts.iter().find_map(|e| if let Ext::Basic { ca, .. } = e { Some(*ca) } else { None }),
                s.exts.iter().find_map(|e| if let Ext::KeyUsage(k) = e { Some(*k) } else { None }),
                s.exts.iter().find_map(|e| if let Ext::Eku(l) = e { Some(l.clone()) } else { None }),
            )
        };
        if shape(&rc) != (Some(true), Some(0x60), None) || shape(&nc) != (Some(false), Some(0x01), Some(vec![1, 2])) {
            return Case::fail("cert:generated-extension-profile", format!("RCAC {:?}, NOC {:?}", shape(&rc), shape(&nc)));
        }
        Case::pass(c.not_after == 0 || !c.cats.is_empty() || c.not_before >= 1_577_923_200)
            .label(if c.with_icac { "rcac-icac-noc" } else { "rcac-noc" })
            .label(if negative_serial { "negative-serial-number" } else { "positive-serial-numbers" })
            .label(format!("cats={}", c.cats.len()))
    }

    // ---- hostile TLV certificates into the converter --------------------------------------

    #[derive(Debug, Clone, Serialize, Deserialize)]
    pub struct CertFuzz {
        spec: CertSpec,
        edits: Vec<(u16, u8)>,
        cut: u16,
        out_len: u16,
    }

    fn dn_attr_wild() -> impl Strategy<Value = DnAttr> {
        prop_oneof![
            4 => dn_attr_legal(),
            1 => (any::<u8>(), any::<bool>(), prop_oneof![u64_ext().prop_map(DnVal::Uint), text(8).prop_map(DnVal::Str)], 0u8..4)
                .prop_map(|(tag, printable, val, wide)| DnAttr { tag: tag & 0x7F, printable, val, wide }),
            1 => (1u8..=22, any::<bool>(), prop_oneof![u64_ext().prop_map(DnVal::Uint), text(8).prop_map(DnVal::Str)])
                .prop_map(|(tag, printable, val)| DnAttr { tag, printable, val, wide: 0 }),
        ]
    }

    fn exts_wild() -> impl Strategy<Value = Vec<Ext>> {
        let one = prop_oneof![
            (any::<bool>(), prop_oneof![Just(None), any::<u8>().prop_map(Some)]).prop_map(|(ca, path)| Ext::Basic { ca, path }),
            prop_oneof![Just(0u16), Just(0x8000u16), Just(0x0200u16), Just(0xFF00u16), any::<u16>()].prop_map(Ext::KeyUsage),
            prop::collection::vec(prop_oneof![0u8..=8, any::<u8>()], 0..5).prop_map(Ext::Eku),
            prop::collection::vec(any::<u8>(), 0..24).prop_map(Ext::Skid),
            prop::collection::vec(any::<u8>(), 0..24).prop_map(Ext::Akid),
            (any::<u32>(), any::<bool>(), prop::collection::vec(any::<u8>(), 0..20)).prop_map(|(arc, critical, value)| Ext::Future { arc, critical, value }),
        ];
        prop_oneof![1 => exts_legal(), 2 => prop::collection::vec(one, 0..7)]
    }

    fn spec_wild() -> impl Strategy<Value = CertSpec> {
        (
            prop_oneof![2 => serial_legal(), 1 => prop::collection::vec(any::<u8>(), 0..26)],
            0u8..3,
            prop::collection::vec(dn_attr_wild(), 0..7),
            any::<u32>(),
            any::<u32>(),
            prop::collection::vec(dn_attr_wild(), 0..7),
            (0u8..3, 0u8..3),
            prop_oneof![2 => pubkey_legal(), 1 => prop::collection::vec(any::<u8>(), 0..70)],
            exts_wild(),
        )
            .prop_map(|(serial, sig_algo, issuer, not_before, not_after, subject, (pk_algo, curve), pubkey, exts)| CertSpec {
                serial,
                sig_algo,
                issuer,
                not_before,
                not_after,
                subject,
                pk_algo,
                curve,
                pubkey,
                exts,
                signature: None,
            })
    }

    fn cert_fuzz() -> impl Strategy<Value = CertFuzz> {
        (
            prop_oneof![1 => spec_legal(), 3 => spec_wild()],
            prop_oneof![2 => Just(Vec::new()), 2 => prop::collection::vec((any::<u16>(), prop_oneof![any::<u8>(), Just(0x18u8), Just(0x15u8), Just(0x37u8), Just(0xFFu8), Just(0u8)]), 1..4)],
            prop_oneof![3 => Just(0u16), 1 => any::<u16>()],
            prop_oneof![3 => Just(2048u16), 1 => 0u16..700],
        )
            .prop_map(|(spec, edits, cut, out_len)| CertFuzz { spec, edits, cut, out_len })
    }

    fn check_cert_fuzz(c: &CertFuzz) -> Case {
        let mut tlv = to_tlv(&c.spec);
        for (p, b) in &c.edits {
            let i = pick(*p, tlv.len());
            tlv[i] = *b;
        }
        if c.cut != 0 {
            let keep = pick(c.cut, tlv.len() + 1);
            tlv.truncate(keep);
        }
        let cert = CertRef::new(TLVElement::new(&tlv));
        let mut out = vec![0u8; c.out_len as usize];
        let res = cert.as_asn1(&mut out);
        let _ = cert.pubkey();
        let _ = cert.get_node_id();
        let _ = cert.get_fabric_id();
        let _ = cert.get_ca_id();
        let mut cats = [0u32; 3];
        let _ = cert.get_cat_ids(&mut cats);
        let _ = cert.basic_constraints_path_len();
        let _ = cert.is_self_signed();
        let _ = write!(Sink, "{cert}");
        match res {
            Ok(_) => Case::pass(true).label("converted"),
            Err(_) => Case::pass(!c.edits.is_empty() || c.cut != 0).label("refused"),
        }
    }

    pub fn run_all(run: &mut Run) {
        let n = run.cases(100_000, 2_000_000);
        run.prop("cert-tlv-to-der", n, spec_legal, check_cert_tlv_to_der);
        let n = run.cases(3_000, 100_000);
        run.prop("cert-generated-chain", n, gen_case, check_cert_generated);
        let n = run.cases(300_000, 6_000_000);
        run.prop("cert-convert-fuzz", n, cert_fuzz, check_cert_fuzz);
    }

    /// Engine E3 (libFuzzer) entry: the probes of `check_cert_fuzz` (conversion and every accessor
    /// return, no panic) on certificate TLV given as raw bytes instead of a mutated `CertSpec`.
    pub fn check_cert_raw(tlv: &[u8], out_len: u16) -> Case {
        let cert = CertRef::new(TLVElement::new(tlv));
        let mut out = vec![0u8; out_len as usize];
        let res = cert.as_asn1(&mut out);
        let _ = cert.pubkey();
        let _ = cert.get_node_id();
        let _ = cert.get_fabric_id();
        let _ = cert.get_ca_id();
        let mut cats = [0u32; 3];
        let _ = cert.get_cat_ids(&mut cats);
        let _ = cert.basic_constraints_path_len();
        let _ = cert.is_self_signed();
        let _ = write!(Sink, "{cert}");
        match res {
            Ok(_) => Case::pass(true).label("converted"),
            Err(_) => Case::pass(false).label("refused"),
        }
    }

    /// Seed corpus: reference TLV encodings of generated legal certificates.
    pub fn fuzz_seeds(n: usize, runner: &mut proptest::test_runner::TestRunner) -> Vec<Vec<u8>> {
        let st = spec_legal();
        (0..n).filter_map(|_| fuzz_sample(&st, runner)).map(|spec| to_tlv(&spec)).collect()
    }
}

// ---------------------------------------------------------------------------------------------
// BLE advertising data (spec 5.4.2.5.6)
// ---------------------------------------------------------------------------------------------
mod ble {
    use super::*;

    use rs_matter::dm::clusters::basic_info::BasicInfoConfig;
    use rs_matter::transport::network::btp::{AdvData, RecoveryAdvData};
    use rs_matter::transport::network::mdns::CommissionableFilter;

    /// One AD structure of a generated advertising blob.
    #[derive(Debug, Clone, Serialize, Deserialize)]
    pub enum Ad {
        /// the Matter service-data structure, payload encoded by the reference model
        Matter(MatterPayload),
        /// any other structure: (type, payload)
        Other(u8, Vec<u8>),
        /// a structure whose length byte claims more than what follows
        Overrun(u8, u8),
        /// a zero length byte (end of significant data)
        End,
    }

    #[derive(Debug, Clone, Serialize, Deserialize)]
    pub struct MatterPayload {
        pub opcode: u8,
        pub version: u8,
        pub disc: u16,
        pub vid: u16,
        pub pid: u16,
        pub recovery_id: [u8; 8],
        pub flags: u8,
        pub extra: Vec<u8>,
        /// drop this many trailing bytes
        pub cut: u8,
    }

    #[derive(Debug, Clone, Serialize, Deserialize)]
    pub struct AdvCase {
        pub p: MatterPayload,
        pub before: Vec<Ad>,
        pub after: Vec<Ad>,
    }

    /// Reference encoding of the service-data payload (the bytes after the UUID16).
    fn ref_payload(p: &MatterPayload) -> Vec<u8> {
        let mut v = vec![p.opcode];
        if p.opcode == 1 {
            v.push(p.version << 4);
            v.extend(p.recovery_id);
        } else {
            v.extend((((p.version as u16) << 12) | (p.disc & 0xFFF)).to_le_bytes());
            v.extend(p.vid.to_le_bytes());
            v.extend(p.pid.to_le_bytes());
        }
        v.push(p.flags);
        v.extend(&p.extra);
        let keep = v.len().saturating_sub(p.cut as usize);
        v.truncate(keep);
        v
    }

    fn ref_ad(out: &mut Vec<u8>, ad: &Ad) {
        match ad {
            Ad::Matter(p) => {
                let pl = ref_payload(p);
                out.push((pl.len() + 3) as u8);
                out.extend([0x16, 0xF6, 0xFF]);
                out.extend(pl);
            }
            Ad::Other(t, pl) => {
                out.push((pl.len() + 1) as u8);
                out.push(*t);
                out.extend(pl);
            }
            Ad::Overrun(t, n) => {
                out.push(n.saturating_add(2));
                out.push(*t);
                out.extend(std::iter::repeat(0xAA).take(*n as usize));
            }
            Ad::End => out.push(0),
        }
    }

    fn payload(valid: bool) -> impl Strategy<Value = MatterPayload> {
        (
            if valid { prop_oneof![Just(0u8), Just(1u8)].boxed() } else { prop_oneof![4 => Just(0u8), 4 => Just(1u8), 1 => any::<u8>()].boxed() },
            if valid { Just(0u8).boxed() } else { prop_oneof![3 => Just(0u8), 1 => 0u8..16].boxed() },
            disc12(),
            u16_extremes(),
            u16_extremes(),
            any::<[u8; 8]>(),
            if valid { prop_oneof![Just(0u8), Just(1u8)].boxed() } else { prop_oneof![2 => Just(0u8), 2 => Just(1u8), 1 => any::<u8>()].boxed() },
            if valid { Just(Vec::new()).boxed() } else { prop_oneof![3 => Just(Vec::new()), 1 => prop::collection::vec(any::<u8>(), 1..6)].boxed() },
            if valid { Just(0u8).boxed() } else { prop_oneof![4 => Just(0u8), 1 => 1u8..13].boxed() },
        )
            .prop_map(|(opcode, version, disc, vid, pid, recovery_id, flags, extra, cut)| MatterPayload {
                opcode,
                version,
                disc,
                vid,
                pid,
                recovery_id,
                flags,
                extra,
                cut,
            })
    }

    fn other_ad() -> impl Strategy<Value = Ad> {
        prop_oneof![
            4 => (prop_oneof![Just(0x01u8), Just(0x09u8), Just(0x16u8), Just(0xFFu8), any::<u8>()], prop::collection::vec(any::<u8>(), 0..8))
                .prop_filter("not a Matter service-data record", |(t, pl)| !(*t == 0x16 && pl.len() >= 2 && pl[0] == 0xF6 && pl[1] == 0xFF))
                .prop_map(|(t, pl)| Ad::Other(t, pl)),
            1 => Just(Ad::Other(0x16, vec![0xF6])),
            1 => Just(Ad::Other(0x16, vec![])),
        ]
    }

    fn adv_case() -> impl Strategy<Value = AdvCase> {
        (
            payload(true),
            prop::collection::vec(other_ad(), 0..3),
            prop::collection::vec(prop_oneof![4 => other_ad(), 1 => (any::<u8>(), 0u8..5).prop_map(|(t, n)| Ad::Overrun(t, n)), 1 => Just(Ad::End)], 0..3),
        )
            .prop_map(|(p, before, after)| AdvCase { p, before, after })
    }

    fn check_adv_roundtrip(c: &AdvCase) -> Case {
        let p = &c.p;
        let mut wrapped = Vec::new();
        for ad in &c.before {
            ref_ad(&mut wrapped, ad);
        }
        ref_ad(&mut wrapped, &Ad::Matter(p.clone()));
        for ad in &c.after {
            ref_ad(&mut wrapped, ad);
        }
        let pl = ref_payload(p);

        if p.opcode == 0 {
            // spec: AD1 = Flags 0x06, AD2 = service data
            let mut want = vec![0x02, 0x01, 0x06];
            ref_ad(&mut want, &Ad::Matter(MatterPayload { flags: 0, ..p.clone() }));
            let dev = BasicInfoConfig { vid: p.vid, pid: p.pid, ..BasicInfoConfig::new() };
            let adv = AdvData::new(&dev, p.disc);
            let got: Vec<u8> = adv.iter().collect();
            if got != want {
                return Case::fail("ble:adv-encoding-differs-from-spec", format!("{p:?}: expected {want:02x?}, got {got:02x?}"));
            }
            let pieces: Vec<u8> = adv.flags_iter().chain(adv.service_iter()).collect();
            let pl_sut: Vec<u8> = adv.service_payload_iter().collect();
            if pieces != want || pl_sut != want[7..] || adv.flags_adv_type() != 1 || adv.service_adv_type() != 0x16 || adv.flags_payload_iter().collect::<Vec<_>>() != [0x06] {
                return Case::fail("ble:adv-pieces-differ", format!("{p:?}: pieces {pieces:02x?} payload {pl_sut:02x?}"));
            }
            for (what, parsed) in [("parse_adv(own)", AdvData::parse_adv(&got)), ("parse_service_data(own)", AdvData::parse_service_data(&pl_sut))] {
                match parsed {
                    Some(a) if a == adv && a.vid() == p.vid && a.pid() == p.pid && a.discriminator() == p.disc && !a.additional_data() => {}
                    other => return Case::fail("ble:adv-roundtrip-differs", format!("{what}: encoded {adv:?}, decoded {other:?}")),
                }
            }
            // a peer's advertisement (reference encoded, with the additional-data flag, among other records)
            for (what, parsed) in [("parse_adv(peer)", AdvData::parse_adv(&wrapped)), ("parse_service_data(peer)", AdvData::parse_service_data(&pl))] {
                match parsed {
                    Some(a) if a.vid() == p.vid && a.pid() == p.pid && a.discriminator() == p.disc && a.additional_data() == (p.flags & 1 == 1) => {
                        let f = CommissionableFilter {
                            discriminator: Some(p.disc),
                            short_discriminator: Some((p.disc >> 8) as u8),
                            vendor_id: Some(p.vid),
                            product_id: Some(p.pid),
                            ..Default::default()
                        };
                        let g = CommissionableFilter { discriminator: Some(p.disc ^ 1), ..Default::default() };
                        if !a.matches(&f) || a.matches(&g) {
                            return Case::fail("ble:adv-filter", format!("{what}: {a:?} vs filters {f:?} / {g:?}"));
                        }
                    }
                    other => return Case::fail("ble:adv-peer-decode-differs", format!("{what}: blob {wrapped:02x?} encodes {p:?}, decoded {other:?}")),
                }
            }
            if RecoveryAdvData::parse_adv(&wrapped).is_some() || RecoveryAdvData::parse_service_data(&pl).is_some() {
                return Case::fail("ble:commissionable-decoded-as-recovery", format!("{wrapped:02x?}"));
            }
        } else {
            let mut want = vec![0x02, 0x01, 0x05];
            ref_ad(&mut want, &Ad::Matter(MatterPayload { flags: 0, ..p.clone() }));
            let adv = RecoveryAdvData::new(p.recovery_id);
            let got: Vec<u8> = adv.iter().collect();
            if got != want {
                return Case::fail("ble:recovery-encoding-differs-from-spec", format!("{p:?}: expected {want:02x?}, got {got:02x?}"));
            }
            let pieces: Vec<u8> = adv.flags_iter().chain(adv.service_iter()).collect();
            let pl_sut: Vec<u8> = adv.service_payload_iter().collect();
            if pieces != want || pl_sut != want[7..] {
                return Case::fail("ble:recovery-pieces-differ", format!("{p:?}: pieces {pieces:02x?} payload {pl_sut:02x?}"));
            }
            for (what, parsed) in [("parse_adv(own)", RecoveryAdvData::parse_adv(&got)), ("parse_service_data(own)", RecoveryAdvData::parse_service_data(&pl_sut))] {
                match parsed {
                    Some(a) if a == adv && a.recovery_id() == p.recovery_id && !a.additional_data() && a.matches(&p.recovery_id) => {}
                    other => return Case::fail("ble:recovery-roundtrip-differs", format!("{what}: encoded {adv:?}, decoded {other:?}")),
                }
            }
            for (what, parsed) in [("parse_adv(peer)", RecoveryAdvData::parse_adv(&wrapped)), ("parse_service_data(peer)", RecoveryAdvData::parse_service_data(&pl))] {
                match parsed {
                    Some(a) if a.recovery_id() == p.recovery_id && a.additional_data() == (p.flags & 1 == 1) => {}
                    other => return Case::fail("ble:recovery-peer-decode-differs", format!("{what}: blob {wrapped:02x?} encodes {p:?}, decoded {other:?}")),
                }
            }
            if AdvData::parse_adv(&wrapped).is_some() || AdvData::parse_service_data(&pl).is_some() {
                return Case::fail("ble:recovery-decoded-as-commissionable", format!("{wrapped:02x?}"));
            }
        }
        let extreme = p.disc == 0 || p.disc == 0xFFF || p.vid == 0 || p.vid == 0xFFFF || p.pid == 0 || p.pid == 0xFFFF;
        Case::pass((p.flags == 1 || !c.before.is_empty()) && (extreme || p.opcode == 1))
            .label(if p.opcode == 0 { "commissionable" } else { "recovery" })
            .label(if p.flags & 1 == 1 { "additional-data" } else { "no-additional-data" })
    }

    #[derive(Debug, Clone, Serialize, Deserialize)]
    pub enum AdvFuzz {
        Raw(Vec<u8>),
        Ads(Vec<Ad>),
    }

    fn adv_fuzz() -> impl Strategy<Value = AdvFuzz> {
        prop_oneof![
            1 => prop::collection::vec(any::<u8>(), 0..40).prop_map(AdvFuzz::Raw),
            1 => prop::collection::vec(prop_oneof![Just(0u8), Just(1), Just(2), Just(3), Just(0x16), Just(0xF6), Just(0xFF), Just(0x0B), Just(0x0E), any::<u8>()], 0..40).prop_map(AdvFuzz::Raw),
            4 => prop::collection::vec(
                prop_oneof![
                    4 => payload(false).prop_map(Ad::Matter),
                    4 => other_ad(),
                    1 => (any::<u8>(), 0u8..5).prop_map(|(t, n)| Ad::Overrun(t, n)),
                    1 => Just(Ad::End),
                ],
                0..4,
            )
            .prop_map(AdvFuzz::Ads),
        ]
    }

    /// Reference walk of the AD structures (BLE Core spec vol 3 part C ch. 11): the payloads of
    /// all well-formed Matter service-data structures before the end of significant data.
    fn ref_matter_payloads(blob: &[u8]) -> Vec<Vec<u8>> {
        let mut out = Vec::new();
        let mut i = 0;
        while i < blob.len() {
            let len = blob[i] as usize;
            if len == 0 || i + 1 + len > blob.len() {
                break;
            }
            let s = &blob[i + 1..i + 1 + len];
            if s[0] == 0x16 && s.len() >= 3 && s[1] == 0xF6 && s[2] == 0xFF {
                out.push(s[3..].to_vec());
            }
            i += 1 + len;
        }
        out
    }

    #[derive(Debug, PartialEq, Eq)]
    enum RefAdv {
        Comm { disc: u16, vid: u16, pid: u16, add: bool },
        Rec { id: [u8; 8], add: bool },
        Invalid,
    }

    fn ref_decode_payload(pl: &[u8]) -> RefAdv {
        match pl.first() {
            Some(0) if pl.len() >= 8 => RefAdv::Comm {
                disc: u16::from_le_bytes([pl[1], pl[2]]) & 0xFFF,
                vid: u16::from_le_bytes([pl[3], pl[4]]),
                pid: u16::from_le_bytes([pl[5], pl[6]]),
                add: pl[7] & 1 == 1,
            },
            Some(1) if pl.len() >= 11 => {
                let mut id = [0u8; 8];
                id.copy_from_slice(&pl[2..10]);
                RefAdv::Rec { id, add: pl[10] & 1 == 1 }
            }
            _ => RefAdv::Invalid,
        }
    }

    fn check_adv_fuzz(c: &AdvFuzz) -> Case {
        let blob = match c {
            AdvFuzz::Raw(b) => b.clone(),
            AdvFuzz::Ads(ads) => {
                let mut b = Vec::new();
                for ad in ads {
                    ref_ad(&mut b, ad);
                }
                b
            }
        };
        let comm = AdvData::parse_adv(&blob);
        let rec = RecoveryAdvData::parse_adv(&blob);
        // the payload-level parsers on the same bytes and on every suffix (arbitrary input)
        for i in 0..blob.len().min(6) {
            let _ = AdvData::parse_service_data(&blob[i..]);
            let _ = RecoveryAdvData::parse_service_data(&blob[i..]);
        }
        let cands: Vec<RefAdv> = ref_matter_payloads(&blob).iter().map(|p| ref_decode_payload(p)).collect();

        if let Some(a) = &comm {
            let got = RefAdv::Comm { disc: a.discriminator(), vid: a.vid(), pid: a.pid(), add: a.additional_data() };
            if !cands.contains(&got) {
                return Case::fail("ble:fuzz-commissionable-from-nowhere", format!("{blob:02x?}: decoded {got:?}, Matter records {cands:?}"));
            }
        }
        if let Some(a) = &rec {
            let got = RefAdv::Rec { id: a.recovery_id(), add: a.additional_data() };
            if !cands.contains(&got) {
                return Case::fail("ble:fuzz-recovery-from-nowhere", format!("{blob:02x?}: decoded {got:?}, Matter records {cands:?}"));
            }
        }
        if comm.is_some() && rec.is_some() && cands.len() < 2 {
            return Case::fail("ble:fuzz-both-kinds", format!("{blob:02x?} decoded as both kinds"));
        }
        // exactly one Matter record: the outcome is fully determined
        if cands.len() == 1 {
            let want_comm = matches!(cands[0], RefAdv::Comm { .. });
            let want_rec = matches!(cands[0], RefAdv::Rec { .. });
            if comm.is_some() != want_comm || rec.is_some() != want_rec {
                return Case::fail(
                    "ble:fuzz-single-record-outcome",
                    format!("{blob:02x?}: the only Matter record is {:?}; parse_adv -> {comm:?}, recovery parse_adv -> {rec:?}", cands[0]),
                );
            }
        }
        let label = match cands.len() {
            0 => "no-matter-record",
            1 => "one-matter-record",
            _ => "several-matter-records",
        };
        Case::pass(!cands.is_empty()).label(label).label(if comm.is_some() || rec.is_some() { "decoded" } else { "none" })
    }

    pub fn run_all(run: &mut Run) {
        let n = run.cases(100_000, 2_000_000);
        run.prop("ble-adv-roundtrip", n, adv_case, check_adv_roundtrip);
        let n = run.cases(300_000, 6_000_000);
        run.prop("ble-adv-fuzz", n, adv_fuzz, check_adv_fuzz);
    }

    /// Engine E3 (libFuzzer) entry: raw advertising data through `check_adv_fuzz`.
    pub fn fuzz_adv_raw(blob: &[u8]) -> Case {
        check_adv_fuzz(&AdvFuzz::Raw(blob.to_vec()))
    }

    /// Seed corpus: reference encodings of generated advertising blobs (a valid Matter record
    /// between other AD structures), plus what rs-matter's own `AdvData` emits.
    pub fn fuzz_seeds(n: usize, runner: &mut proptest::test_runner::TestRunner) -> Vec<Vec<u8>> {
        let st = adv_case();
        let mut out = Vec::new();
        for _ in 0..n {
            if let Some(c) = fuzz_sample(&st, runner) {
                let mut blob = Vec::new();
                for ad in &c.before {
                    ref_ad(&mut blob, ad);
                }
                ref_ad(&mut blob, &Ad::Matter(c.p.clone()));
                for ad in &c.after {
                    ref_ad(&mut blob, ad);
                }
                out.push(blob);
                if c.p.opcode == 0 {
                    let dev = BasicInfoConfig { vid: c.p.vid, pid: c.p.pid, ..BasicInfoConfig::new() };
                    out.push(AdvData::new(&dev, c.p.disc).iter().collect());
                }
            }
        }
        out
    }
}

// ---------------------------------------------------------------------------------------------
// mDNS (RFC 1035 wire format, RFC 6762/6763 conventions, Matter spec 4.3 TXT keys)
// ---------------------------------------------------------------------------------------------
mod dns {
    //! Independent DNS message writer and reader used as the reference model.

    pub const T_A: u16 = 1;
    pub const T_PTR: u16 = 12;
    pub const T_TXT: u16 = 16;
    pub const T_AAAA: u16 = 28;
    pub const T_SRV: u16 = 33;
    pub const T_ANY: u16 = 255;

    #[derive(Default)]
    pub struct W {
        pub buf: Vec<u8>,
        /// (labels of a suffix, offset) for name compression
        pub seen: Vec<(Vec<String>, usize)>,
        pub compress: bool,
    }

    impl W {
        pub fn header(&mut self, id: u16, flags: u16, qd: u16, an: u16, ns: u16, ar: u16) {
            for v in [id, flags, qd, an, ns, ar] {
                self.buf.extend(v.to_be_bytes());
            }
        }

        pub fn name(&mut self, labels: &[&str]) {
            for i in 0..labels.len() {
                let suffix: Vec<String> = labels[i..].iter().map(|s| s.to_string()).collect();
                if self.compress {
                    if let Some((_, off)) = self.seen.iter().find(|(s, _)| *s == suffix) {
                        self.buf.extend((0xC000u16 | *off as u16).to_be_bytes());
                        return;
                    }
                }
                if self.buf.len() < 0x3FFF {
                    self.seen.push((suffix, self.buf.len()));
                }
                self.buf.push(labels[i].len() as u8);
                self.buf.extend(labels[i].as_bytes());
            }
            self.buf.push(0);
        }

        pub fn question(&mut self, labels: &[&str], qtype: u16, qclass: u16) {
            self.name(labels);
            self.buf.extend(qtype.to_be_bytes());
            self.buf.extend(qclass.to_be_bytes());
        }

        /// A record whose rdata is produced by `f` (may write compressed names).
        pub fn rr(&mut self, owner: &[&str], rtype: u16, class: u16, ttl: u32, f: impl FnOnce(&mut W)) {
            self.name(owner);
            self.buf.extend(rtype.to_be_bytes());
            self.buf.extend(class.to_be_bytes());
            self.buf.extend(ttl.to_be_bytes());
            let at = self.buf.len();
            self.buf.extend([0, 0]);
            f(self);
            let len = (self.buf.len() - at - 2) as u16;
            self.buf[at..at + 2].copy_from_slice(&len.to_be_bytes());
        }
    }

    #[derive(Debug, Clone)]
    pub struct Rr {
        /// 1 = answer, 2 = authority, 3 = additional
        pub section: u8,
        pub owner: Vec<Vec<u8>>,
        pub rtype: u16,
        pub rdata: (usize, usize),
    }

    #[derive(Debug, Clone)]
    pub struct Msg {
        pub id: u16,
        pub qr: bool,
        pub rrs: Vec<Rr>,
    }

    /// Name at `pos` (following compression pointers); returns labels and the offset after the
    /// name in the original stream.
    pub fn read_name(pkt: &[u8], mut pos: usize) -> Option<(Vec<Vec<u8>>, usize)> {
        let mut labels = Vec::new();
        let mut after = None;
        let mut hops = 0;
        loop {
            let l = *pkt.get(pos)? as usize;
            if l & 0xC0 == 0xC0 {
                let lo = *pkt.get(pos + 1)? as usize;
                if after.is_none() {
                    after = Some(pos + 2);
                }
                pos = ((l & 0x3F) << 8) | lo;
                hops += 1;
                if hops > 64 {
                    return None;
                }
            } else if l & 0xC0 != 0 {
                return None;
            } else if l == 0 {
                return Some((labels, after.unwrap_or(pos + 1)));
            } else {
                labels.push(pkt.get(pos + 1..pos + 1 + l)?.to_vec());
                pos += 1 + l;
            }
        }
    }

    pub fn parse(pkt: &[u8]) -> Option<Msg> {
        if pkt.len() < 12 {
            return None;
        }
        let u = |i: usize| u16::from_be_bytes([pkt[i], pkt[i + 1]]);
        let (id, flags, qd, an, ns, ar) = (u(0), u(2), u(4), u(6), u(8), u(10));
        let mut pos = 12;
        for _ in 0..qd {
            let (_, p) = read_name(pkt, pos)?;
            pos = p + 4;
        }
        let mut rrs = Vec::new();
        for (section, n) in [(1u8, an), (2, ns), (3, ar)] {
            for _ in 0..n {
                let (owner, p) = read_name(pkt, pos)?;
                let fixed = pkt.get(p..p + 10)?;
                let rtype = u16::from_be_bytes([fixed[0], fixed[1]]);
                let rdlen = u16::from_be_bytes([fixed[8], fixed[9]]) as usize;
                let start = p + 10;
                pkt.get(start..start + rdlen)?;
                rrs.push(Rr { section, owner, rtype, rdata: (start, rdlen) });
                pos = start + rdlen;
            }
        }
        Some(Msg { id, qr: flags & 0x8000 != 0, rrs })
    }

    pub fn name_eq(a: &[Vec<u8>], b: &[Vec<u8>]) -> bool {
        a.len() == b.len() && a.iter().zip(b).all(|(x, y)| x.eq_ignore_ascii_case(y))
    }

    pub fn name_str(n: &[Vec<u8>]) -> String {
        n.iter().map(|l| String::from_utf8_lossy(l).to_string()).collect::<Vec<_>>().join(".")
    }

    /// What a resolver learns from one response packet (answer + additional sections).
    #[derive(Debug, Clone, PartialEq, Eq)]
    pub struct Learned {
        pub instance: String,
        pub port: Option<u16>,
        pub addrs: Vec<std::net::IpAddr>,
        pub txt: Vec<(String, String)>,
        pub srv_count: usize,
        pub has_txt: bool,
    }

    pub fn txt_pairs(rdata: &[u8]) -> Vec<(String, String)> {
        let mut out = Vec::new();
        let mut i = 0;
        while i < rdata.len() {
            let l = rdata[i] as usize;
            let end = (i + 1 + l).min(rdata.len());
            if let Ok(s) = std::str::from_utf8(&rdata[i + 1..end]) {
                if let Some((k, v)) = s.split_once('=') {
                    out.push((k.to_string(), v.to_string()));
                }
            }
            i = end;
        }
        out
    }

    pub fn learn(pkt: &[u8]) -> Option<Learned> {
        let msg = parse(pkt)?;
        if !msg.qr {
            return None;
        }
        let rrs: Vec<&Rr> = msg.rrs.iter().filter(|r| r.section != 2).collect();
        let srvs: Vec<&&Rr> = rrs.iter().filter(|r| r.rtype == T_SRV && r.rdata.1 > 6).collect();
        let (instance, port, target) = if let Some(srv) = srvs.last() {
            let (t, _) = read_name(pkt, srv.rdata.0 + 6)?;
            let port = u16::from_be_bytes([pkt[srv.rdata.0 + 4], pkt[srv.rdata.0 + 5]]);
            (srv.owner.clone(), Some(port), Some(t))
        } else {
            let ptr = rrs.iter().find(|r| r.rtype == T_PTR)?;
            let (t, _) = read_name(pkt, ptr.rdata.0)?;
            (t, None, None)
        };
        let mut addrs = Vec::new();
        if let Some(t) = &target {
            for r in &rrs {
                if !name_eq(&r.owner, t) {
                    continue;
                }
                let d = &pkt[r.rdata.0..r.rdata.0 + r.rdata.1];
                if r.rtype == T_A && d.len() == 4 {
                    addrs.push(std::net::IpAddr::from([d[0], d[1], d[2], d[3]]));
                } else if r.rtype == T_AAAA && d.len() == 16 {
                    let mut a = [0u8; 16];
                    a.copy_from_slice(d);
                    addrs.push(std::net::IpAddr::from(a));
                }
            }
        }
        let txt_rr = rrs.iter().find(|r| r.rtype == T_TXT && name_eq(&r.owner, &instance));
        let txt = txt_rr.map(|r| txt_pairs(&pkt[r.rdata.0..r.rdata.0 + r.rdata.1])).unwrap_or_default();
        Some(Learned {
            instance: name_str(&instance),
            port,
            addrs,
            txt,
            srv_count: srvs.len(),
            has_txt: txt_rr.is_some(),
        })
    }
}

mod mdns_chk {
    use super::*;

    use std::net::{IpAddr, Ipv4Addr, Ipv6Addr};

    use rs_matter::dm::clusters::basic_info::{BasicInfoConfig, PairingHintFlags};
    use rs_matter::dm::clusters::icd_mgmt::OperatingModeEnum;
    use rs_matter::transport::network::mdns::builtin::{parse_into_answer, Host, RespondMode};
    use rs_matter::transport::network::mdns::CommissionableFilter;
    use rs_matter::transport::network::{MatterLocalService, MatterRemoteService};

    use super::dns::{self, Learned};

    /// What the code under test learned from a packet, in comparable form.
    fn sut_learn(pkt: &[u8], scope: Option<u32>) -> Result<Option<(Learned, u32)>, String> {
        match parse_into_answer(pkt, scope) {
            Ok(Some(a)) => {
                let mut name = String::new();
                let _ = write!(name, "{}", a.instance_name);
                while name.ends_with('.') {
                    name.pop();
                }
                let addrs: Vec<IpAddr> = a.addrs.take(64).collect();
                let txt: Vec<(String, String)> = a.txt.take(300).map(|(k, v)| (k.to_string(), v.to_string())).collect();
                Ok(Some((
                    Learned { instance: name, port: a.port, addrs, txt, srv_count: 0, has_txt: false },
                    a.scope_id,
                )))
            }
            Ok(None) => Ok(None),
            Err(e) => Err(err_dbg(&e)),
        }
    }

    #[derive(Debug, Clone, Serialize, Deserialize)]
    pub struct MdnsCase {
        commissioned: bool,
        id: u64,
        node: u64,
        disc: u16,
        enhanced: bool,
        vid: u16,
        pid: u16,
        device_type: Option<u16>,
        dn: String,
        pi: String,
        ph: u32,
        sai: Option<u32>,
        sii: Option<u32>,
        tcp: bool,
        icd: u8,
        port: u16,
        host: String,
        v4: [u8; 4],
        v6: Vec<[u8; 16]>,
        /// 0 broadcast, 1 PTR browse of the service type, 2 ANY on the instance, 3 SRV on the
        /// instance, 4 PTR browse of a subtype, 5 PTR on _services._dns-sd._udp
        mode: u8,
        legacy: bool,
        scope: Option<u32>,
        qid: u16,
    }

    fn u64_extremes() -> impl Strategy<Value = u64> {
        prop_oneof![2 => prop::sample::select(vec![0u64, 1, 0xF, 0xABCD, u64::MAX, u64::MAX - 1, 1 << 63, 0x0123_4567_89AB_CDEF]), 3 => any::<u64>()]
    }

    fn opt_ms() -> impl Strategy<Value = Option<u32>> {
        prop_oneof![2 => Just(None), 1 => Just(Some(0u32)), 1 => Just(Some(3_600_000u32)), 1 => Just(Some(u32::MAX)), 2 => (0u32..=3_600_000).prop_map(Some)]
    }

    fn host_label() -> impl Strategy<Value = String> {
        let chars: Vec<char> = "abcdefghijklmnopqrstuvwxyzABCDEF0123456789-".chars().collect();
        prop::collection::vec(prop::sample::select(chars), 1..=24).prop_map(|v| v.into_iter().collect())
    }

    fn mdns_case() -> impl Strategy<Value = MdnsCase> {
        (
            (any::<bool>(), u64_extremes(), u64_extremes(), disc12(), any::<bool>(), u16_extremes(), u16_extremes()),
            (
                prop_oneof![1 => Just(None), 2 => u16_extremes().prop_map(Some)],
                text(32),
                prop_oneof![3 => text(120), 1 => text(40)],
                prop_oneof![Just(0u32), Just(1), Just(0x21), any::<u32>()],
                opt_ms(),
                opt_ms(),
                any::<bool>(),
                0u8..3,
            ),
            (
                prop_oneof![Just(5540u16), Just(0), Just(u16::MAX), any::<u16>()],
                host_label(),
                prop_oneof![1 => Just([0u8; 4]), 4 => any::<[u8; 4]>()],
                prop::collection::vec(prop_oneof![1 => Just([0u8; 16]), 5 => any::<[u8; 16]>()], 0..4),
                0u8..6,
                any::<bool>(),
                prop_oneof![Just(None), Just(Some(0u32)), any::<u32>().prop_map(Some)],
                any::<u16>(),
            ),
        )
            .prop_map(
                |((commissioned, id, node, disc, enhanced, vid, pid), (device_type, dn, pi, ph, sai, sii, tcp, icd), (port, host, v4, v6, mode, legacy, scope, qid))| {
                    // a TXT string holds at most 255 bytes ("PI=" + value)
                    let mut pi = pi;
                    while pi.len() > 250 {
                        pi.pop();
                    }
                    MdnsCase {
                        commissioned,
                        id,
                        node,
                        disc,
                        enhanced,
                        vid,
                        pid,
                        device_type,
                        dn,
                        pi,
                        ph,
                        sai,
                        sii,
                        tcp,
                        icd,
                        port,
                        host,
                        v4,
                        v6,
                        mode,
                        legacy,
                        scope,
                        qid,
                    }
                },
            )
    }

    fn check_mdns_roundtrip(c: &MdnsCase) -> Case {
        let dev = BasicInfoConfig {
            vid: c.vid,
            pid: c.pid,
            device_name: &c.dn,
            device_type: c.device_type,
            pairing_hint: PairingHintFlags::from_bits_truncate(c.ph),
            pairing_instruction: &c.pi,
            sai: c.sai,
            sii: c.sii,
            tcp_supported: c.tcp,
            ..BasicInfoConfig::new()
        };
        let local = if c.commissioned {
            MatterLocalService::Commissioned { compressed_fabric_id: c.id, node_id: c.node }
        } else {
            MatterLocalService::Commissionable { id: c.id, discriminator: c.disc, enhanced: c.enhanced }
        };
        let icd = match c.icd {
            0 => None,
            1 => Some(OperatingModeEnum::SIT),
            _ => Some(OperatingModeEnum::LIT),
        };
        let mut sbuf = vec![0u8; 2048];
        let (service, _) = match local.verif_service(&dev, c.port, icd, &mut sbuf) {
            Ok(s) => s,
            Err(e) => return Case::fail("mdns:service-description-failed", err_dbg(&e)),
        };
        let name = service.name.to_string();
        let (svc, proto) = (service.service.to_string(), service.protocol.to_string());
        let want_name = if c.commissioned { format!("{:016X}-{:016X}", c.id, c.node) } else { format!("{:016X}", c.id) };
        let (want_svc, want_proto) = if c.commissioned { ("_matter", "_tcp") } else { ("_matterc", "_udp") };
        if name != want_name || svc != want_svc || proto != want_proto || service.port != c.port {
            return Case::fail("mdns:service-name-differs-from-spec", format!("{name}.{svc}.{proto} port {} vs {want_name}.{want_svc}.{want_proto} port {}", service.port, c.port));
        }
        let subtypes: Vec<String> = service.service_subtypes.clone().map(|s| s.to_string()).collect();
        let kvs: Vec<(String, String)> = service.txt_kvs.clone().map(|(k, v)| (k.to_string(), v.to_string())).collect();

        let v6: Vec<Ipv6Addr> = c.v6.iter().map(|a| Ipv6Addr::from(*a)).collect();
        let host = Host { hostname: &c.host, ip: Ipv4Addr::from(c.v4), ipv6: &v6 };
        let mut pkt = vec![0u8; 8192];

        let len = if c.mode == 0 {
            match host.broadcast(&service, &mut pkt, 120, 4500) {
                Ok(l) => l,
                Err(e) => return Case::fail("mdns:broadcast-failed", err_dbg(&e)),
            }
        } else {
            let mut q = dns::W::default();
            q.header(c.qid, 0, 1, 0, 0, 0);
            let sub = subtypes.first().cloned().unwrap_or_default();
            match c.mode {
                1 => q.question(&[want_svc, want_proto, "local"], dns::T_PTR, 1),
                2 => q.question(&[&want_name, want_svc, want_proto, "local"], dns::T_ANY, 1),
                3 => q.question(&[&want_name, want_svc, want_proto, "local"], dns::T_SRV, 1),
                4 => q.question(&[&sub, "_sub", want_svc, want_proto, "local"], dns::T_PTR, 1),
                _ => q.question(&["_services", "_dns-sd", "_udp", "local"], dns::T_PTR, 1),
            }
            match host.respond(&service, &q.buf, &mut pkt, 120, c.legacy) {
                Ok((_, RespondMode::Skip)) => {
                    return Case::fail("mdns:own-service-query-not-answered", format!("mode {} query {:02x?}", c.mode, q.buf))
                }
                Ok((l, _)) => l,
                Err(e) => return Case::fail("mdns:respond-failed", err_dbg(&e)),
            }
        };
        let pkt = &pkt[..len];

        // --- independent reading of the emitted packet
        let Some(msg) = dns::parse(pkt) else {
            return Case::fail("mdns:emitted-packet-malformed", format!("{pkt:02x?}"));
        };
        if !msg.qr || msg.id != if c.mode != 0 && c.legacy { c.qid } else { 0 } {
            return Case::fail("mdns:emitted-header", format!("qr={} id={}", msg.qr, msg.id));
        }
        let fqdn = format!("{want_name}.{want_svc}.{want_proto}.local");
        let mut want_addrs: Vec<IpAddr> = Vec::new();
        if c.v4 != [0; 4] {
            want_addrs.push(IpAddr::from(c.v4));
        }
        want_addrs.extend(c.v6.iter().filter(|a| **a != [0u8; 16]).map(|a| IpAddr::from(*a)));

        let reference = dns::learn(pkt);
        // modes in which the packet must carry the complete service (SRV + TXT + addresses)
        let full = matches!(c.mode, 0 | 1 | 2 | 4);
        if c.mode == 5 {
            // the DNS-SD meta query is answered with PTRs to the service type, not the instance
        } else {
            let Some(r) = &reference else {
                return Case::fail("mdns:emitted-packet-carries-no-instance", format!("mode {}: {pkt:02x?}", c.mode));
            };
            if !r.instance.eq_ignore_ascii_case(&fqdn) || r.srv_count != 1 || r.port != Some(c.port) || r.addrs != want_addrs {
                return Case::fail("mdns:emitted-records-differ", format!("mode {}: reference reading {r:?}, expected {fqdn} port {} addrs {want_addrs:?}", c.mode, c.port));
            }
            if full && (!r.has_txt || r.txt != kvs) {
                return Case::fail("mdns:emitted-txt-differs", format!("mode {}: TXT on the wire {:?}, service TXT {kvs:?}", c.mode, r.txt));
            }
        }

        // --- decode with the code under test
        let got = match sut_learn(pkt, c.scope) {
            Ok(g) => g,
            Err(e) => return Case::fail("mdns:own-packet-refused", format!("mode {}: {e}", c.mode)),
        };
        match (&reference, &got) {
            (None, None) => return Case::pass(false).label("mode5-nothing-resolvable"),
            (Some(r), Some((g, scope))) => {
                if !g.instance.eq_ignore_ascii_case(&r.instance) || g.port != r.port || g.addrs != r.addrs || g.txt != r.txt {
                    return Case::fail(
                        "mdns:decoded-differs",
                        format!("mode {}: on the wire {r:?}, decoded {g:?}", c.mode),
                    );
                }
                if *scope != c.scope.unwrap_or(0) {
                    return Case::fail("mdns:scope-id", format!("scope {:?} -> {scope}", c.scope));
                }
            }
            (r, g) => {
                if c.mode == 5 {
                    // PTR to the service type: whether that counts as an instance is not specified
                    return Case::pass(false).label("mode5");
                }
                return Case::fail("mdns:decoded-differs", format!("mode {}: on the wire {r:?}, decoded {g:?}", c.mode));
            }
        }
        if c.mode == 5 {
            return Case::pass(false).label("mode5");
        }

        // --- the typed views on the decoded answer
        let Ok(Some(ans)) = parse_into_answer(pkt, c.scope) else {
            return Case::inconclusive("second parse differs from the first");
        };
        let (remote, other) = if c.commissioned {
            (
                MatterRemoteService::Operational { compressed_fabric_id: c.id, node_id: c.node },
                MatterRemoteService::Operational { compressed_fabric_id: c.id, node_id: c.node ^ 1 },
            )
        } else {
            (MatterRemoteService::Commissionable { id: c.id }, MatterRemoteService::Commissionable { id: c.id ^ (1 << 63) })
        };
        if !remote.matches_instance(&ans.instance_name) || other.matches_instance(&ans.instance_name) {
            return Case::fail("mdns:matches-instance", format!("{fqdn}: {remote:?} -> {}, {other:?} -> {}", remote.matches_instance(&ans.instance_name), other.matches_instance(&ans.instance_name)));
        }
        let mut iname = heapless::String::<128>::new();
        remote.instance_name(&mut iname);
        if iname.as_str() != fqdn {
            return Case::fail("mdns:instance-name", format!("{} vs {fqdn}", iname.as_str()));
        }
        if full {
            let (sii, sai, sat) = ans.session_params();
            if sii != c.sii || sai != c.sai || sat.is_some() {
                return Case::fail("mdns:session-params-differ", format!("advertised SII {:?} SAI {:?}, decoded {sii:?} {sai:?} {sat:?}", c.sii, c.sai));
            }
            if ans.supports_tcp_server() != c.tcp {
                return Case::fail("mdns:tcp-flag-differs", format!("advertised {}, decoded {}", c.tcp, ans.supports_tcp_server()));
            }
            let icd_txt = kvs.iter().find(|(k, _)| k == "ICD").map(|(_, v)| v.as_str());
            let want_icd = match c.icd {
                0 => None,
                1 => Some("0"),
                _ => Some("1"),
            };
            if icd_txt != want_icd {
                return Case::fail("mdns:icd-key", format!("{icd_txt:?} vs {want_icd:?}"));
            }
            if !c.commissioned {
                let f = CommissionableFilter {
                    discriminator: Some(c.disc),
                    short_discriminator: Some((c.disc >> 8) as u8),
                    vendor_id: Some(c.vid),
                    product_id: Some(c.pid),
                    device_type: c.device_type.map(|d| d as u32),
                    commissioning_mode_only: true,
                };
                if !f.matches(&ans) {
                    return Case::fail("mdns:filter-does-not-match-own-advertisement", format!("{f:?} vs TXT {kvs:?}"));
                }
                for g in [
                    CommissionableFilter { discriminator: Some(c.disc ^ 0x800), ..Default::default() },
                    CommissionableFilter { short_discriminator: Some(((c.disc >> 8) as u8) ^ 1), ..Default::default() },
                    CommissionableFilter { vendor_id: Some(c.vid ^ 1), ..Default::default() },
                    CommissionableFilter { product_id: Some(c.pid ^ 0x8000), ..Default::default() },
                    CommissionableFilter { device_type: Some(c.device_type.map(|d| d as u32 + 1).unwrap_or(7)), ..Default::default() },
                ] {
                    if g.matches(&ans) {
                        return Case::fail("mdns:filter-matches-wrong-device", format!("{g:?} vs TXT {kvs:?}"));
                    }
                }
                let get = |k: &str| kvs.iter().find(|(kk, _)| kk == k).map(|(_, v)| v.clone());
                let want_cm = if c.enhanced { "2" } else { "1" };
                if get("D") != Some(c.disc.to_string()) || get("VP") != Some(format!("{}+{}", c.vid, c.pid)) || get("CM").as_deref() != Some(want_cm) {
                    return Case::fail("mdns:txt-keys-differ-from-spec", format!("{kvs:?}"));
                }
                if (!c.dn.is_empty() && get("DN") != Some(c.dn.clone())) || (!c.pi.is_empty() && get("PI") != Some(c.pi.clone())) {
                    return Case::fail("mdns:txt-text-keys-differ", format!("DN {:?} PI {:?} vs {kvs:?}", c.dn, c.pi));
                }
            }
        }
        let optional = c.sai.is_some() || c.sii.is_some() || c.device_type.is_some() || c.tcp || c.icd != 0 || !c.dn.is_empty();
        let extreme = c.id == 0 || c.id == u64::MAX || c.port == 0 || c.port == u16::MAX || c.disc == 0 || c.disc == 0xFFF || c.sai == Some(u32::MAX);
        Case::pass(optional && extreme)
            .label(format!("mode{}{}", c.mode, if c.legacy && c.mode != 0 { "-legacy" } else { "" }))
            .label(if c.commissioned { "operational" } else { "commissionable" })
    }

    // ---- packets of other responders (reference encoder) into the parser -----------------

    #[derive(Debug, Clone, Serialize, Deserialize)]
    pub enum TxtEntry {
        Kv(String, String),
        /// an attribute without '=' (RFC 6763 boolean attribute)
        Bare(String),
        /// not UTF-8
        Binary(Vec<u8>),
        Empty,
    }

    #[derive(Debug, Clone, Serialize, Deserialize)]
    pub struct ForeignCase {
        instance: String,
        operational: bool,
        host: String,
        port: u16,
        txt: Option<Vec<TxtEntry>>,
        v4: Vec<[u8; 4]>,
        v6: Vec<[u8; 16]>,
        compress: bool,
        /// write the owner of the address records in a different letter case than the SRV target
        case_flip: bool,
        /// records in the additional section instead of the answer section
        srv_additional: bool,
        addr_additional: bool,
        /// unrelated records before / between
        noise: u8,
        with_ptr: bool,
        with_srv: bool,
        id: u16,
        response: bool,
        scope: Option<u32>,
    }

    fn label_text(max: usize) -> impl Strategy<Value = String> {
        let chars: Vec<char> = "ABCDEF0123456789abcdefxyz-_".chars().collect();
        prop::collection::vec(prop::sample::select(chars), 1..=max).prop_map(|v| v.into_iter().collect())
    }

    fn txt_entry() -> impl Strategy<Value = TxtEntry> {
        let key = prop::sample::select(vec!["D", "VP", "CM", "DT", "DN", "SII", "SAI", "SAT", "T", "ICD", "PH", "PI", "RI", "d", "vp", "X"]);
        prop_oneof![
            8 => (key, prop_oneof![text(12), (0u32..70000).prop_map(|v| v.to_string()), Just("65521+32769".to_string())]).prop_map(|(k, v)| TxtEntry::Kv(k.to_string(), v)),
            1 => label_text(6).prop_map(TxtEntry::Bare),
            1 => Just(TxtEntry::Binary(vec![0xFF, 0xFE, b'=', 0x80])),
            1 => Just(TxtEntry::Empty),
        ]
    }

    fn foreign_case() -> impl Strategy<Value = ForeignCase> {
        (
            (label_text(33), any::<bool>(), host_label(), any::<u16>(), prop_oneof![1 => Just(None), 5 => prop::collection::vec(txt_entry(), 0..8).prop_map(Some)]),
            (prop::collection::vec(any::<[u8; 4]>(), 0..3), prop::collection::vec(any::<[u8; 16]>(), 0..3)),
            (any::<bool>(), any::<bool>(), any::<bool>(), any::<bool>(), 0u8..8, any::<bool>(), prop_oneof![5 => Just(true), 1 => Just(false)]),
            (any::<u16>(), prop_oneof![9 => Just(true), 1 => Just(false)], prop_oneof![Just(None), any::<u32>().prop_map(Some)]),
        )
            .prop_map(|((instance, operational, host, port, txt), (v4, v6), (compress, case_flip, srv_additional, addr_additional, noise, with_ptr, with_srv), (id, response, scope))| ForeignCase {
                instance,
                operational,
                host,
                port,
                txt,
                v4,
                v6,
                compress,
                case_flip,
                srv_additional,
                addr_additional,
                noise,
                with_ptr,
                with_srv,
                id,
                response,
                scope,
            })
    }

    fn flip_case(s: &str) -> String {
        s.chars().map(|c| if c.is_ascii_lowercase() { c.to_ascii_uppercase() } else { c.to_ascii_lowercase() }).collect()
    }

    fn txt_rdata(entries: &[TxtEntry]) -> Vec<u8> {
        let mut out = Vec::new();
        for e in entries {
            let b: Vec<u8> = match e {
                TxtEntry::Kv(k, v) => format!("{k}={v}").into_bytes(),
                TxtEntry::Bare(k) => k.clone().into_bytes(),
                TxtEntry::Binary(b) => b.clone(),
                TxtEntry::Empty => Vec::new(),
            };
            out.push(b.len() as u8);
            out.extend(b);
        }
        if out.is_empty() {
            out.push(0);
        }
        out
    }

    fn build_foreign(c: &ForeignCase) -> Vec<u8> {
        let (svc, proto) = if c.operational { ("_matter", "_tcp") } else { ("_matterc", "_udp") };
        let inst = [c.instance.as_str(), svc, proto, "local"];
        let host_owner = if c.case_flip { flip_case(&c.host) } else { c.host.clone() };

        // collect (section, writer) in order
        type Rec<'a> = Box<dyn Fn(&mut dns::W) + 'a>;
        let mut answer: Vec<Rec> = Vec::new();
        let mut additional: Vec<Rec> = Vec::new();
        if c.noise & 1 != 0 {
            // an address of some other host
            answer.push(Box::new(|w| w.rr(&["otherhost", "local"], dns::T_A, 0x8001, 120, |w| w.buf.extend([10, 0, 0, 1]))));
        }
        if c.with_ptr {
            answer.push(Box::new(move |w| w.rr(&[svc, proto, "local"], dns::T_PTR, 1, 4500, |w| w.name(&inst))));
        }
        if c.noise & 2 != 0 {
            // a TXT record of another instance, before ours
            answer.push(Box::new(move |w| w.rr(&["FFFFFFFFFFFFFFFF", svc, proto, "local"], dns::T_TXT, 0x8001, 4500, |w| w.buf.extend(b"\x06D=4095"))));
        }
        if c.with_srv {
            let srv: Rec = Box::new(move |w| {
                w.rr(&inst, dns::T_SRV, 0x8001, 120, |w| {
                    w.buf.extend([0, 0, 0, 0]);
                    w.buf.extend(c.port.to_be_bytes());
                    w.name(&[c.host.as_str(), "local"]);
                })
            });
            if c.srv_additional {
                additional.push(srv);
            } else {
                answer.push(srv);
            }
        }
        if let Some(txt) = &c.txt {
            let rd = txt_rdata(txt);
            let rec: Rec = Box::new(move |w| w.rr(&inst, dns::T_TXT, 0x8001, 4500, |w| w.buf.extend(&rd)));
            if c.srv_additional {
                additional.push(rec);
            } else {
                answer.push(rec);
            }
        }
        if c.noise & 4 != 0 {
            // an NSEC-like record of unknown type owned by the host
            let h = host_owner.clone();
            additional.push(Box::new(move |w| w.rr(&[h.as_str(), "local"], 47, 0x8001, 120, |w| w.buf.extend([0xC0, 0x0C, 0x00, 0x01, 0x40]))));
        }
        for a in &c.v4 {
            let h = host_owner.clone();
            let a = *a;
            let rec: Rec = Box::new(move |w| w.rr(&[h.as_str(), "local"], dns::T_A, 0x8001, 120, |w| w.buf.extend(a)));
            if c.addr_additional {
                additional.push(rec);
            } else {
                answer.push(rec);
            }
        }
        for a in &c.v6 {
            let h = host_owner.clone();
            let a = *a;
            let rec: Rec = Box::new(move |w| w.rr(&[h.as_str(), "local"], dns::T_AAAA, 0x8001, 120, |w| w.buf.extend(a)));
            if c.addr_additional {
                additional.push(rec);
            } else {
                answer.push(rec);
            }
        }
        let mut w = dns::W { compress: c.compress, ..Default::default() };
        w.header(c.id, if c.response { 0x8400 } else { 0 }, 0, answer.len() as u16, 0, additional.len() as u16);
        for r in answer.iter().chain(additional.iter()) {
            r(&mut w);
        }
        w.buf
    }

    fn check_mdns_foreign(c: &ForeignCase) -> Case {
        let pkt = build_foreign(c);
        let (svc, proto) = if c.operational { ("_matter", "_tcp") } else { ("_matterc", "_udp") };
        let fqdn = format!("{}.{svc}.{proto}.local", c.instance);
        let got = match sut_learn(&pkt, c.scope) {
            Ok(g) => g,
            Err(e) => return Case::fail("mdns:wellformed-packet-refused", format!("{e}: {pkt:02x?}")),
        };
        if !c.response {
            return if got.is_some() {
                Case::fail("mdns:query-treated-as-response", format!("{pkt:02x?}"))
            } else {
                Case::pass(false).label("query-ignored")
            };
        }
        if !c.with_srv && !c.with_ptr {
            return if let Some((g, _)) = got {
                Case::fail("mdns:instance-from-nowhere", format!("no SRV and no PTR in {pkt:02x?}, decoded {g:?}"))
            } else {
                Case::pass(false).label("nothing-resolvable")
            };
        }
        let Some((g, scope)) = got else {
            return Case::fail("mdns:instance-not-found", format!("{fqdn} in {pkt:02x?}"));
        };
        // expectation from the generated fields
        let mut want_addrs: Vec<IpAddr> = Vec::new();
        if c.with_srv {
            want_addrs.extend(c.v4.iter().map(|a| IpAddr::from(*a)));
            want_addrs.extend(c.v6.iter().map(|a| IpAddr::from(*a)));
        }
        let mut want_txt = Vec::new();
        for e in c.txt.iter().flatten() {
            if let TxtEntry::Kv(k, v) = e {
                want_txt.push((k.clone(), v.clone()));
            }
        }
        let want = Learned {
            instance: fqdn.clone(),
            port: c.with_srv.then_some(c.port),
            addrs: want_addrs,
            txt: want_txt,
            srv_count: 0,
            has_txt: false,
        };
        if !g.instance.eq_ignore_ascii_case(&want.instance) || g.port != want.port || g.addrs != want.addrs || g.txt != want.txt {
            return Case::fail(
                if g.addrs != want.addrs { "mdns:foreign-addresses-differ" } else if g.txt != want.txt { "mdns:foreign-txt-differs" } else { "mdns:foreign-decoded-differs" },
                format!("encoded {want:?}, decoded {g:?}; case {c:?}"),
            );
        }
        if scope != c.scope.unwrap_or(0) {
            return Case::fail("mdns:scope-id", format!("scope {:?} -> {scope}", c.scope));
        }
        // self-consistency of the reference reader (harness sanity)
        if let Some(r) = dns::learn(&pkt) {
            if r.port != want.port || r.addrs != want.addrs || r.txt != want.txt {
                return Case::inconclusive(format!("reference reader disagrees with the generator: {r:?} vs {want:?}"));
            }
        }
        Case::pass(c.with_srv && c.txt.is_some() && (c.compress || c.case_flip || c.noise != 0))
            .label(if c.compress { "compressed" } else { "uncompressed" })
            .label(if c.case_flip { "case-flipped-owner" } else { "same-case-owner" })
            .label(if c.with_srv { "srv" } else { "ptr-only" })
    }

    // ---- arbitrary packets --------------------------------------------------------------

    #[derive(Debug, Clone, Serialize, Deserialize)]
    pub enum MdnsFuzz {
        Raw(Vec<u8>),
        /// a well-formed foreign packet with byte edits: (position selector, new byte), then truncation
        Mutated { base: ForeignCase, edits: Vec<(u16, u8)>, cut: u16 },
        /// header with large counts followed by arbitrary bytes
        Header { qr: bool, counts: [u8; 4], body: Vec<u8> },
    }

    fn mdns_fuzz() -> impl Strategy<Value = MdnsFuzz> {
        let ptr_byte = prop_oneof![any::<u8>(), Just(0xC0u8), Just(0x0Cu8), Just(0u8), Just(0xFFu8), Just(0x3Fu8), Just(0x40u8)];
        prop_oneof![
            1 => prop::collection::vec(any::<u8>(), 0..80).prop_map(MdnsFuzz::Raw),
            6 => (foreign_case(), prop::collection::vec((any::<u16>(), ptr_byte.clone()), 0..4), prop_oneof![3 => Just(0u16), 1 => any::<u16>()])
                .prop_map(|(base, edits, cut)| MdnsFuzz::Mutated { base, edits, cut }),
            2 => (any::<bool>(), any::<[u8; 4]>(), prop::collection::vec(ptr_byte, 0..60)).prop_map(|(qr, counts, body)| MdnsFuzz::Header { qr, counts, body }),
        ]
    }

    fn check_mdns_fuzz(c: &MdnsFuzz) -> Case {
        let pkt = match c {
            MdnsFuzz::Raw(b) => b.clone(),
            MdnsFuzz::Mutated { base, edits, cut } => {
                let mut p = build_foreign(&ForeignCase { response: true, ..base.clone() });
                for (pos, b) in edits {
                    if !p.is_empty() {
                        let i = pick(*pos, p.len());
                        p[i] = *b;
                    }
                }
                if *cut != 0 {
                    let keep = pick(*cut, p.len() + 1);
                    p.truncate(keep);
                }
                p
            }
            MdnsFuzz::Header { qr, counts, body } => {
                let mut p = vec![0, 0, if *qr { 0x84 } else { 0 }, 0];
                for n in counts {
                    p.extend([0, *n % 6]);
                }
                p.extend(body);
                p
            }
        };
        // the resolver side
        let got = sut_learn(&pkt, Some(3));
        // the responder side parses queries out of the same bytes
        let dev = BasicInfoConfig::new();
        let local = MatterLocalService::Commissionable { id: 0xABCD, discriminator: 0xF00, enhanced: false };
        let mut sbuf = [0u8; 512];
        if let Ok((service, _)) = local.verif_service(&dev, 5540, None, &mut sbuf) {
            let host = Host { hostname: "h", ip: Ipv4Addr::new(10, 0, 0, 2), ipv6: &[] };
            let mut out = [0u8; 1500];
            let _ = host.respond(&service, &pkt, &mut out, 120, false);
            let _ = host.respond(&service, &pkt, &mut out, 120, true);
        }
        let stage1 = dns::parse(&pkt).is_some();
        match got {
            Ok(Some((g, _))) => {
                // whatever was decoded must be backed by the packet: a port only with an SRV record
                if let Some(msg) = dns::parse(&pkt) {
                    let has_srv = msg.rrs.iter().any(|r| r.rtype == dns::T_SRV && r.section != 2);
                    let has_ptr = msg.rrs.iter().any(|r| r.rtype == dns::T_PTR && r.section != 2);
                    if g.port.is_some() && !has_srv {
                        return Case::fail("mdns:fuzz-port-from-nowhere", format!("{pkt:02x?} -> {g:?}"));
                    }
                    if !has_srv && !has_ptr {
                        return Case::fail("mdns:fuzz-instance-from-nowhere", format!("{pkt:02x?} -> {g:?}"));
                    }
                }
                Case::pass(true).label("decoded")
            }
            Ok(None) => Case::pass(stage1).label(if stage1 { "wellformed-nothing-resolvable" } else { "none" }),
            Err(_) => Case::pass(stage1).label("error"),
        }
    }

    pub fn run_all(run: &mut Run) {
        let n = run.cases(60_000, 1_200_000);
        run.prop("mdns-roundtrip", n, mdns_case, check_mdns_roundtrip);
        let n = run.cases(100_000, 2_000_000);
        run.prop("mdns-foreign-packets", n, foreign_case, check_mdns_foreign);
        let n = run.cases(300_000, 6_000_000);
        run.prop("mdns-parse-fuzz", n, mdns_fuzz, check_mdns_fuzz);
    }

    /// Engine E3 (libFuzzer) entries: raw packets / header + body through `check_mdns_fuzz`.
    pub fn fuzz_mdns_raw(pkt: &[u8]) -> Case {
        check_mdns_fuzz(&MdnsFuzz::Raw(pkt.to_vec()))
    }

    pub fn fuzz_mdns_header(qr: bool, counts: [u8; 4], body: &[u8]) -> Case {
        check_mdns_fuzz(&MdnsFuzz::Header { qr, counts, body: body.to_vec() })
    }

    /// Seed corpus: well-formed foreign mDNS packets (responses and queries) from the reference
    /// DNS writer.
    pub fn fuzz_seeds(n: usize, runner: &mut proptest::test_runner::TestRunner) -> Vec<Vec<u8>> {
        let st = foreign_case();
        (0..n).filter_map(|_| fuzz_sample(&st, runner)).map(|c| build_foreign(&c)).collect()
    }
}

// ---------------------------------------------------------------------------------------------
// Engine E3 (libFuzzer): entry used by `fuzz/fuzz_targets/codecs_b.rs` — same checks, other driver
// ---------------------------------------------------------------------------------------------

/// Number of input layouts `fuzz_entry` knows (selector = first byte modulo this).
pub const FUZZ_SELECTORS: u8 = 15;

/// Characters outside the base-38 / digit alphabets (the list of `bad_char()`).
const FUZZ_BAD: [char; 25] = [
    'a', 'z', '/', ':', ';', '@', '[', ' ', '$', '%', '*', '+', ',', '!', '_', '~', '\u{0}', '\u{7f}', '\u{e9}', '\u{4e2d}',
    'A', '0', '.', '-', 'Z',
];

fn fuzz_verdict(c: Case) -> Result<(), String> {
    match c.verdict {
        vh::Verdict::Fail { signature, detail } => Err(format!("{signature}: {detail}")),
        vh::Verdict::Pass | vh::Verdict::Inconclusive(_) => Ok(()),
    }
}

fn fuzz_lossy(b: &[u8], max: usize) -> String {
    String::from_utf8_lossy(&b[..b.len().min(max)]).into_owned()
}

/// Bytes onto the base-38 alphabet (228 of 256 values) and the bad characters (the rest).
fn fuzz_b38ish(b: &[u8], max: usize) -> String {
    b.iter()
        .take(max)
        .map(|x| if *x < 228 { B38[(*x % 38) as usize] as char } else { FUZZ_BAD[(*x - 228) as usize % FUZZ_BAD.len()] })
        .collect()
}

/// Bytes onto digits and the two separators (240 of 256 values) and the bad characters.
fn fuzz_digitish(b: &[u8], max: usize) -> String {
    const D: &[u8; 12] = b"0123456789- ";
    b.iter()
        .take(max)
        .map(|x| if *x < 240 { D[(*x % 12) as usize] as char } else { FUZZ_BAD[(*x - 240) as usize % FUZZ_BAD.len()] })
        .collect()
}

fn fuzz_edit(h: &[u8]) -> Edit {
    let pos = u16::from_le_bytes([h[1], h[2]]);
    let ch = FUZZ_BAD[h[3] as usize % FUZZ_BAD.len()];
    match h[0] % 4 {
        0 => Edit::None,
        1 => Edit::Replace(pos, ch),
        2 => Edit::Insert(pos, ch),
        _ => Edit::Truncate(1 + h[3] % 5),
    }
}

/// Coverage-guided entry: `data[0] % FUZZ_SELECTORS` selects the decoder and how the rest of the
/// input becomes its text/bytes, always through the raw variants of the fuzz cases and the
/// unchanged check functions. Sizes are capped to what the checks were written for (e.g. the
/// base-38 check decodes into a 256-byte vector).
///
/// | sel | input after the selector byte                                  | check               |
/// |-----|----------------------------------------------------------------|---------------------|
/// | 0   | QR text, lossy UTF-8 (<= 512 bytes)                            | `check_qr_fuzz`     |
/// | 1   | "MT:" + bytes mapped onto base-38 alphabet / bad characters    | `check_qr_fuzz`     |
/// | 2   | edit(4) + payload bytes, reference base-38 encoded, edited     | `check_qr_fuzz`     |
/// | 3   | manual code text, lossy UTF-8 (<= 64 bytes)                    | `check_manual_fuzz` |
/// | 4   | bytes mapped onto digits / separators / bad characters         | `check_manual_fuzz` |
/// | 5   | as 4, check digit corrected when 11 or 21 digits               | `check_manual_fuzz` |
/// | 6   | base-38 text, lossy UTF-8 (<= 400 bytes)                       | `check_b38_decode`  |
/// | 7   | bytes mapped onto base-38 alphabet / bad characters            | `check_b38_decode`  |
/// | 8   | edit(4) + bytes (<= 150), reference encoded, edited            | `check_b38_decode`  |
/// | 9   | BLE advertising data (<= 255 bytes)                            | `check_adv_fuzz`    |
/// | 10  | mDNS packet (<= 1500 bytes)                                    | `check_mdns_fuzz`   |
/// | 11  | qr-bit(1) counts(4) body: DNS header with these counts + body  | `check_mdns_fuzz`   |
/// | 12  | out-len(2) + certificate TLV                                   | `check_cert_raw`    |
/// | 13  | certification declaration: CMS or certification-elements TLV   | `check_cd_fuzz`     |
/// | 14  | the same bytes into 9, 10, 12 and 13                           | all four            |
///
/// Inputs too short for their layout are skipped (`Ok`). `Err` is `"<signature>: <detail>"`;
/// a panic of rs-matter propagates.
pub fn fuzz_entry(data: &[u8]) -> Result<(), String> {
    let Some((&sel, rest)) = data.split_first() else {
        return Ok(());
    };
    let case = match sel % FUZZ_SELECTORS {
        0 => check_qr_fuzz(&QrFuzz::Raw(fuzz_lossy(rest, 512))),
        1 => check_qr_fuzz(&QrFuzz::Body(fuzz_b38ish(rest, 512))),
        2 => {
            if rest.len() < 4 {
                return Ok(());
            }
            let bytes = &rest[4..];
            check_qr_fuzz(&QrFuzz::Bytes { bytes: bytes[..bytes.len().min(300)].to_vec(), edit: fuzz_edit(&rest[..4]) })
        }
        3 => check_manual_fuzz(&ManualFuzz::Raw(fuzz_lossy(rest, 64))),
        4 => check_manual_fuzz(&ManualFuzz::Digits(fuzz_digitish(rest, 64))),
        5 => {
            let mut chars: Vec<char> = fuzz_digitish(rest, 64).chars().collect();
            let digits: Vec<usize> = chars.iter().enumerate().filter(|(_, c)| c.is_ascii_digit()).map(|(i, _)| i).collect();
            if chars.iter().all(|c| c.is_ascii_digit() || *c == '-' || *c == ' ') && (digits.len() == 11 || digits.len() == 21) {
                let vals: Vec<u8> = digits[..digits.len() - 1].iter().map(|i| chars[*i] as u8 - b'0').collect();
                chars[digits[digits.len() - 1]] = (b'0' + verhoeff_digit(&vals)) as char;
            }
            check_manual_fuzz(&ManualFuzz::Digits(chars.into_iter().collect()))
        }
        6 => check_b38_decode(&B38Fuzz::Text(fuzz_lossy(rest, 400))),
        7 => check_b38_decode(&B38Fuzz::Text(fuzz_b38ish(rest, 400))),
        8 => {
            if rest.len() < 4 {
                return Ok(());
            }
            let bytes = &rest[4..];
            check_b38_decode(&B38Fuzz::Edited { bytes: bytes[..bytes.len().min(150)].to_vec(), edit: fuzz_edit(&rest[..4]) })
        }
        9 => ble::fuzz_adv_raw(&rest[..rest.len().min(255)]),
        10 => mdns_chk::fuzz_mdns_raw(&rest[..rest.len().min(1500)]),
        11 => {
            if rest.len() < 5 {
                return Ok(());
            }
            let body = &rest[5..];
            mdns_chk::fuzz_mdns_header(rest[0] & 1 == 1, [rest[1], rest[2], rest[3], rest[4]], &body[..body.len().min(1400)])
        }
        12 => {
            if rest.len() < 2 {
                return Ok(());
            }
            let n = u16::from_le_bytes([rest[0], rest[1]]);
            let out_len = if n & 1 == 1 { 2048 } else { (n >> 1) % 700 };
            cert_chk::check_cert_raw(&rest[2..], out_len)
        }
        13 => cd_chk::fuzz_cd_raw(rest),
        _ => {
            fuzz_verdict(ble::fuzz_adv_raw(&rest[..rest.len().min(255)]))?;
            fuzz_verdict(mdns_chk::fuzz_mdns_raw(&rest[..rest.len().min(1500)]))?;
            fuzz_verdict(cert_chk::check_cert_raw(rest, 2048))?;
            cd_chk::fuzz_cd_raw(rest)
        }
    };
    fuzz_verdict(case)
}

fn fuzz_sample<S: Strategy>(st: &S, runner: &mut proptest::test_runner::TestRunner) -> Option<S::Value> {
    use proptest::strategy::ValueTree;
    st.new_tree(runner).ok().map(|t| t.current())
}

/// Seed inputs for the `codecs_b` fuzz target (used by `src/bin/mkcorpus.rs`): reference
/// encodings of legal cases from the strategies above plus the vectors of the self-test, in the
/// input layouts of `fuzz_entry`. Returns `(format label, input)`.
pub fn fuzz_seeds(n: usize, seed: u64) -> Vec<(String, Vec<u8>)> {
    use proptest::test_runner::{Config, RngAlgorithm, TestRng, TestRunner};
    let mut s = [0u8; 32];
    s[..8].copy_from_slice(&seed.to_le_bytes());
    let mut runner = TestRunner::new_with_rng(Config::default(), TestRng::from_seed(RngAlgorithm::ChaCha, &s));
    fn with_sel(sel: u8, parts: &[&[u8]]) -> Vec<u8> {
        let mut v = vec![sel];
        for p in parts {
            v.extend_from_slice(p);
        }
        v
    }
    // inverse of `fuzz_b38ish` / `fuzz_digitish` for texts inside the alphabets
    fn un_b38(text: &str) -> Vec<u8> {
        text.bytes().filter_map(|c| b38_idx(c).map(|i| i as u8)).collect()
    }
    fn un_digits(text: &str) -> Vec<u8> {
        text.bytes().filter_map(|c| b"0123456789- ".iter().position(|x| *x == c).map(|i| i as u8)).collect()
    }
    let mut out: Vec<(String, Vec<u8>)> = Vec::new();

    // QR: reference packing of generated fields (+ optional TLV tail)
    let (qr, man, b38) = (qr_case(), manual_case(), b38_case());
    for text in ["MT:YNJV7VSC00CMVH7SR00", "MT:-MOA57ZU02IT2L2BJ00"] {
        out.push(("qr-vector".into(), with_sel(0, &[text.as_bytes()])));
        out.push(("qr-vector-body".into(), with_sel(1, &[&un_b38(&text[3..])])));
    }
    for code in ["34970112332", "00876800071", "26318621095", "3497-0112-332"] {
        out.push(("manual-vector".into(), with_sel(3, &[code.as_bytes()])));
        out.push(("manual-vector-digits".into(), with_sel(4, &[&un_digits(code)])));
        out.push(("manual-vector-fixed".into(), with_sel(5, &[&un_digits(code)])));
    }
    for _ in 0..n {
        if let Some(c) = fuzz_sample(&qr, &mut runner) {
            let fixed = QrFixed { version: 0, vid: c.vid, pid: c.pid, flow: c.flow, caps: c.caps, disc: c.disc, passcode: c.passcode, padding: 0 };
            let mut all = ref_qr_pack(&fixed);
            if !c.serial.is_empty() || !c.opt.is_empty() {
                all.push(0x15);
                if !c.serial.is_empty() {
                    ref_tlv_elem(&mut all, 0x00, &OptVal::Str(c.serial.clone()));
                }
                for e in &c.opt {
                    ref_tlv_elem(&mut all, e.tag, &e.val);
                }
                all.push(0x18);
            }
            let body = ref_b38_encode(&all);
            out.push(("qr-text".into(), with_sel(0, &[b"MT:", body.as_bytes()])));
            out.push(("qr-body".into(), with_sel(1, &[&un_b38(&body)])));
            out.push(("qr-bytes".into(), with_sel(2, &[&[0, 0, 0, 0], &all])));
        }
        if let Some(c) = fuzz_sample(&man, &mut runner) {
            let code = digits_str(&ref_manual_digits(&ref_manual_groups(c.disc, c.passcode, c.long, c.vid, c.pid)));
            out.push(("manual-text".into(), with_sel(3, &[code.as_bytes()])));
            out.push(("manual-digits".into(), with_sel(4, &[&un_digits(&code)])));
            out.push(("manual-fixed".into(), with_sel(5, &[&un_digits(&code)])));
        }
        if let Some(c) = fuzz_sample(&b38, &mut runner) {
            let bytes = &c.bytes[..c.bytes.len().min(150)];
            let text = ref_b38_encode(bytes);
            out.push(("b38-text".into(), with_sel(6, &[text.as_bytes()])));
            out.push(("b38-mapped".into(), with_sel(7, &[&un_b38(&text)])));
            out.push(("b38-bytes".into(), with_sel(8, &[&[0, 0, 0, 0], bytes])));
        }
    }
    for b in ble::fuzz_seeds(n, &mut runner) {
        out.push(("ble-adv".into(), with_sel(9, &[&b])));
    }
    for (i, b) in mdns_chk::fuzz_seeds(n, &mut runner).into_iter().enumerate() {
        out.push(("mdns".into(), with_sel(10, &[&b])));
        if b.len() >= 12 && i % 4 == 0 {
            // header layout: qr bit, the low bytes of the four counts, then the body
            out.push(("mdns-header".into(), with_sel(11, &[&[(b[2] >> 7) & 1, b[5], b[7], b[9], b[11]], &b[12..]])));
        }
    }
    for (i, b) in cert_chk::fuzz_seeds(n, &mut runner).into_iter().enumerate() {
        out.push(("cert".into(), with_sel(12, &[&[1, 0], &b])));
        if i % 4 == 0 {
            out.push(("all-cert".into(), with_sel(14, &[&b])));
        }
    }
    for b in cd_chk::fuzz_seeds(n, &mut runner) {
        out.push(("cd".into(), with_sel(13, &[&b])));
    }
    out
}
