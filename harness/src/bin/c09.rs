//! C09 — Reliable messaging delivers each message at most once and reports the truth.
//!
//! Two real `Matter` stacks with a planted session exchange a generated script of reliable
//! messages over an adversarial network under a virtual clock. The oracle is a set of
//! invariants (R1–R6) over the wire tap and the two application logs.

use std::cell::RefCell;

use proptest::prelude::*;
use serde::{Deserialize, Serialize};

use embassy_time::{Duration, Timer};

use rs_matter::error::ErrorCode;
use rs_matter::transport::exchange::{Exchange, MessageMeta};
use rs_matter::transport::network::NoNetwork;

use vh::sim::adv::{self, Plan};
use vh::sim::net::{node_addr, Net};
use vh::sim::node::{decode_wire, mk_crypto, new_matter, plant_pair, SessKind, Wire};
use vh::sim::{clock, Exec, Sched, Stop, SEC};
use vh::{Case, Run};

const PROTO: u16 = 0x00F7; // a protocol id nobody else handles

#[derive(Debug, Clone, Serialize, Deserialize)]
pub struct Msg {
    from_a: bool,
    len: u16,
    /// the receiver waits that long before calling recv (ms)
    recv_delay_ms: u32,
}

#[derive(Debug, Clone, Serialize, Deserialize)]
pub struct C09Case {
    pub kind: SessKind,
    pub script: Vec<Msg>,
    pub plan: Plan,
    pub sched: Option<u64>,
    pub seed: u32,
    /// how long (ms) A and B keep the exchange after their last script step before dropping
    /// it: a duplicate may arrive while the exchange is still open, closing, or long gone
    #[serde(default = "default_linger")]
    pub linger_ms: (u32, u32),
    /// another exchange of node A sends one datagram over a slow link at `.0` ms; the send takes
    /// `.1` ms and keeps A's transmit slot busy meanwhile (acks may arrive during that time)
    #[serde(default)]
    pub busy_tx: Option<(u16, u16)>,
    /// after a send failed with a transmit timeout the application opens another exchange on the
    /// same session (if the session still takes one) and sends one more message
    #[serde(default)]
    pub after_timeout: bool,
    /// the applications acknowledge every received message right away with a stand-alone
    /// acknowledgement (`Exchange::acknowledge`) before they go on with the script
    #[serde(default)]
    pub standalone_acks: bool,
    /// node A has a second, unrelated secure session whose peer closes it (CloseSession) that
    /// many ms into the run - while A may be waiting for an acknowledgement on the first one
    #[serde(default)]
    pub other_session_closed_ms: Option<u16>,
}

fn default_linger() -> (u32, u32) {
    (12_000, 12_000)
}

fn linger() -> impl Strategy<Value = u32> {
    prop_oneof![2 => Just(12_000u32), 2 => Just(0u32), 1 => 1u32..3000]
}

pub fn case_strategy() -> impl Strategy<Value = C09Case> {
    (
        prop_oneof![
            Just(SessKind::Case),
            Just(SessKind::Pase),
            Just(SessKind::Plain)
        ],
        prop::collection::vec(
            (
                any::<bool>(),
                prop_oneof![3 => 1u16..64, 1 => 64u16..900],
                prop_oneof![5 => Just(0u32), 2 => 1u32..400, 1 => 400u32..4000],
            ),
            1..7,
        ),
        adv::plan(14),
        prop_oneof![1 => Just(None), 3 => any::<u64>().prop_map(Some)],
        any::<u32>(),
        (linger(), linger()),
        prop_oneof![2 => Just(None), 1 => (0u16..2500, 50u16..1500).prop_map(Some)],
        any::<bool>(),
        prop::bool::weighted(0.3),
        prop_oneof![2 => Just(None), 1 => (0u16..6000).prop_map(Some)],
    )
        .prop_map(|(kind, script, plan, sched, seed, linger_ms, busy_tx, after_timeout, standalone_acks, other_session_closed_ms)| {
            let mut script: Vec<Msg> = script
                .into_iter()
                .map(|(from_a, len, recv_delay_ms)| Msg {
                    from_a,
                    len,
                    recv_delay_ms,
                })
                .collect();
            script[0].from_a = true; // the initiator speaks first
            C09Case {
                kind,
                script,
                plan,
                sched,
                seed,
                linger_ms,
                busy_tx,
                after_timeout,
                standalone_acks,
                other_session_closed_ms,
            }
        })
}

#[derive(Debug, Clone)]
pub struct SendRec {
    step: usize,
    t_start: u64,
    /// None = still pending when the simulation ended
    done: Option<(u64, Result<(), ErrorCode>)>,
}

#[derive(Debug, Clone)]
pub struct RecvRec {
    /// step id carried in the payload, opcode
    step: usize,
    t: u64,
    payload_ok: bool,
}

#[derive(Default, Debug)]
pub struct AppLog {
    sends: Vec<SendRec>,
    recvs: Vec<RecvRec>,
    errors: Vec<String>,
    finished: bool,
}

fn payload(step: usize, len: u16) -> Vec<u8> {
    let mut v = Vec::with_capacity(len as usize + 2);
    v.push(step as u8);
    v.push(0xA5);
    for i in 0..len {
        v.push((i as u8).wrapping_mul(31).wrapping_add(step as u8));
    }
    v
}

async fn app(
    mut ex: Exchange<'_>,
    me_is_a: bool,
    script: &[Msg],
    log: &RefCell<AppLog>,
    linger_ms: u32,
    standalone_acks: bool,
) -> bool {
    let mut timed_out = false;
    for (i, m) in script.iter().enumerate() {
        if m.from_a == me_is_a {
            log.borrow_mut().sends.push(SendRec {
                step: i,
                t_start: clock::now(),
                done: None,
            });
            let r = ex
                .send(MessageMeta::new(PROTO, i as u8, true), &payload(i, m.len))
                .await;
            let r = r.map_err(|e| e.code());
            let failed = r.is_err();
            timed_out = matches!(r, Err(ErrorCode::TxTimeout));
            log.borrow_mut().sends.last_mut().unwrap().done = Some((clock::now(), r));
            if failed {
                break;
            }
        } else {
            if m.recv_delay_ms > 0 {
                Timer::after(Duration::from_millis(m.recv_delay_ms as u64)).await;
            }
            // Some((proto, opcode, payload)) or the error
            let got = match ex.recv().await {
                Ok(rx) => Ok((rx.meta().proto_id, rx.meta().proto_opcode, rx.payload().to_vec())),
                Err(e) => Err(e.code()),
            };
            match got {
                Ok((proto_id, opcode, p)) => {
                    if proto_id == PROTO && opcode == 0x70 {
                        // the peer's follow-up after a transmit timeout opened this exchange (its
                        // earlier messages never arrived): not part of the script
                        break;
                    }
                    let step = opcode as usize;
                    let ok = proto_id == PROTO && step < script.len() && p == payload(step, script[step].len);
                    log.borrow_mut().recvs.push(RecvRec {
                        step,
                        t: clock::now(),
                        payload_ok: ok,
                    });
                    if standalone_acks {
                        let _ = ex.acknowledge().await;
                    }
                }
                Err(code) => {
                    log.borrow_mut().errors.push(format!("recv step {i}: {code:?}"));
                    break;
                }
            }
        }
    }
    log.borrow_mut().finished = true;
    // Keep the exchange for the generated time (pending acknowledgements are flushed by the
    // stack either way), then drop it.
    if linger_ms > 0 {
        Timer::after(Duration::from_millis(linger_ms as u64)).await;
    }
    drop(ex);
    timed_out
}

/// Lower bound (µs) of the back-off before retransmission number `k` (k = 1 is the first
/// retransmission), from the specification: i * 1.1 * 1.6^max(0, k-2), minus 2 ms for integer
/// truncation in millisecond arithmetic.
fn min_backoff_us(base_ms: u64, k: usize) -> u64 {
    let mut d = base_ms as f64 * 1.1;
    for _ in 0..k.saturating_sub(2) {
        d *= 1.6;
    }
    ((d - 2.0).max(0.0) * 1000.0) as u64
}

pub struct SimOut {
    pub net: Net,
    pub planted: vh::sim::node::Planted,
    pub la: AppLog,
    pub lb: AppLog,
    pub adv: adv::AdvLog,
    pub end: u64,
}

/// Run the scenario; the oracle looks at the result afterwards.
pub fn simulate(case: &C09Case) -> Result<SimOut, Case> {
    vh::sim::reset_universe();
    let net = Net::new(2);
    let ca = mk_crypto(case.seed);
    let cb = mk_crypto(case.seed.wrapping_mul(2654435761).wrapping_add(7));
    let a = new_matter(5540);
    let b = new_matter(5541);

    let planted = match plant_pair(
        &a,
        &ca,
        node_addr(0),
        &b,
        &cb,
        node_addr(1),
        case.kind,
        0x0101,
        0x0202,
        (case.seed % 251) as u8,
    ) {
        Ok(p) => p,
        Err(e) => return Err(Case::inconclusive(format!("planting sessions failed: {e:?}"))),
    };

    let adv_log = adv::install(&net, &case.plan);
    let log_a = RefCell::new(AppLog::default());
    let log_b = RefCell::new(AppLog::default());
    let script = case.script.clone();

    let stop;
    let polls;
    {
        let mut ex = Exec::new(match case.sched {
            None => Sched::Fifo,
            Some(s) => Sched::Seeded(s),
        });
        ex.add_time_source(&net);
        ex.spawn("a.run", async {
            let _ = a.run(&ca, net.end(0), net.end(0), NoNetwork).await;
        });
        ex.spawn("b.run", async {
            let _ = b.run(&cb, net.end(1), net.end(1), NoNetwork).await;
        });
        ex.spawn("a.app", async {
            match Exchange::initiate_for_session(&a, &ca, planted.a_internal) {
                Ok(exch) => {
                    if app(exch, true, &script, &log_a, case.linger_ms.0, case.standalone_acks).await && case.after_timeout {
                        // the session may still take an exchange (PASE) or not (CASE, expired)
                        if let Ok(mut e2) = Exchange::initiate_for_session(&a, &ca, planted.a_internal) {
                            let _ = e2.send(MessageMeta::new(PROTO, 0x70, true), &payload(0x70, 5)).await;
                        }
                    }
                }
                Err(e) => log_a
                    .borrow_mut()
                    .errors
                    .push(format!("initiate: {:?}", e.code())),
            }
        });
        ex.spawn("b.app", async {
            match Exchange::accept(&b).await {
                Ok(exch) => {
                    if app(exch, false, &script, &log_b, case.linger_ms.1, case.standalone_acks).await && case.after_timeout {
                        if let Ok(mut e2) = Exchange::initiate_for_session(&b, &cb, planted.b_internal) {
                            let _ = e2.send(MessageMeta::new(PROTO, 0x70, true), &payload(0x70, 5)).await;
                        }
                    }
                }
                Err(e) => log_b
                    .borrow_mut()
                    .errors
                    .push(format!("accept: {:?}", e.code())),
            }
        });

        if let Some((at_ms, slow_ms)) = case.busy_tx {
            net.set_slow_send(0, slow_ms as u64 * 1000);
            let (a, ca) = (&a, &ca);
            ex.spawn("a.bg", async move {
                Timer::after(Duration::from_millis(at_ms as u64)).await;
                if let Ok(mut e) = Exchange::initiate_plaintext(a, ca, vh::sim::net::alien_addr(0)).await {
                    let _ = e.send(MessageMeta::new(PROTO, 0x7f, false), &[0x42]).await;
                }
            });
        }

        if let Some(at_ms) = case.other_session_closed_ms {
            // an unrelated (unsecured) session of A with a peer outside this net; that peer
            // closes it `at_ms` into the run
            let (a, ca, net) = (&a, &ca, &net);
            let other = vh::sim::net::alien_addr(1);
            ex.spawn("a.other", async move {
                if let Ok(mut e) = Exchange::initiate_plaintext(a, ca, other).await {
                    let _ = e.send(MessageMeta::new(PROTO, 0x7e, false), &[0x43]).await;
                    Timer::after(Duration::from_millis(at_ms.max(1) as u64)).await;
                    let req = net.with_tap(|t| {
                        t.sent
                            .iter()
                            .rev()
                            .filter(|s| s.src == 0)
                            .filter_map(|s| decode_wire(&s.bytes, None, 0))
                            .find(|w| !w.encrypted && w.proto_id == PROTO && w.opcode == 0x7e)
                    });
                    if let Some(req) = req {
                        if let Some(bytes) =
                            vh::sim::node::craft_close_session(None, 0, req.src_node, 0, 0x0100_0000, req.exch_id)
                        {
                            net.inject(0, other, bytes);
                        }
                    }
                    // hold the exchange until the stack ends it
                    let _ = e.recv_fetch().await;
                }
            });
        }

        // Horizon: every send resolves within the retransmission ladder (< 10 s with maximal
        // jitter); scripts have at most 6 steps and receivers wait at most 4 s per step.
        let horizon = clock::now() + 150 * SEC;
        stop = ex.run_until(horizon, || false);
        polls = ex.polls;
        if std::env::var("VH_DEBUG").is_ok() {
            eprintln!("stop={stop:?} now={} polls={:?} alarms={}", clock::now(), ex.poll_counts(), clock::alarm_count());
        }
    }
    if stop == Stop::PollLimit {
        return Err(Case::inconclusive(format!("poll watchdog after {polls} polls")));
    }
    let adv = adv_log.borrow().clone();
    Ok(SimOut {
        net,
        planted,
        la: log_a.into_inner(),
        lb: log_b.into_inner(),
        adv,
        end: clock::now(),
    })
}

fn check(case: &C09Case) -> Case {
    let out = match simulate(case) {
        Ok(o) => o,
        Err(c) => return c,
    };
    let SimOut { net, planted, la, lb, adv, end } = out;
    let (la, lb) = (&la, &lb);
    // ---------------------------------------------------------------- oracle

    let (nonce_a, nonce_b) = (planted.a_node_id, planted.b_node_id);
    let decode = |src: usize, bytes: &[u8]| -> Option<Wire> {
        if src == 0 {
            decode_wire(bytes, Some(&planted.key_ab), nonce_a)
        } else {
            decode_wire(bytes, Some(&planted.key_ba), nonce_b)
        }
    };

    struct SentD {
        seq: usize,
        t: u64,
        src: usize,
        w: Wire,
    }
    let sent: Vec<SentD> = net.with_tap(|tap| {
        tap.sent
            .iter()
            .filter_map(|s| {
                decode(s.src, &s.bytes).map(|w| SentD {
                    seq: s.seq,
                    t: s.t_us,
                    src: s.src,
                    w,
                })
            })
            .collect()
    });
    let undecodable = net.with_tap(|t| t.sent.len()) - sent.len();
    if undecodable > 0 {
        return Case::fail(
            "tap:undecodable-datagram",
            format!("{undecodable} datagrams sent by the stacks do not decode with the session keys"),
        );
    }
    // consumption events: (t, dst, origin seq)
    let consumed: Vec<(u64, usize, usize)> = net.with_tap(|tap| {
        tap.consumed
            .iter()
            .filter_map(|c| c.origin.map(|o| (c.t_us, c.dst, o)))
            .collect()
    });

    let mut retransmissions = 0usize;
    let mut labels: Vec<String> = Vec::new();
    if std::env::var("VH_DEBUG").is_ok() {
        eprintln!("---- case {:?}", case);
        for d in &sent {
            eprintln!(
                "  t={:>10} {}->  sess={:#x} ctr={:#x} exch={} proto={:#x} op={} I={} R={} ack={:?} len={}",
                d.t - 1_000_000_000, d.src, d.w.sess_id, d.w.ctr, d.w.exch_id, d.w.proto_id, d.w.opcode, d.w.initiator, d.w.reliable, d.w.ack, d.w.payload.len()
            );
        }
        eprintln!("  A: {:?}", *la);
        eprintln!("  B: {:?}", *lb);
    }

    // R1: each side's receive log is a duplicate-free, in-order subsequence of what the other
    // side sent, with intact payloads.
    for (name, log, other_is_a) in [("A", la, false), ("B", lb, true)] {
        let mut last: Option<usize> = None;
        for r in &log.recvs {
            if !r.payload_ok {
                return Case::fail(
                    "R1:corrupted-or-foreign-message",
                    format!("{name} received step {} with unexpected protocol/payload", r.step),
                );
            }
            if case.script.get(r.step).map(|m| m.from_a) != Some(other_is_a) {
                return Case::fail(
                    "R1:own-message-received",
                    format!("{name} received step {} which the peer never sends", r.step),
                );
            }
            if let Some(l) = last {
                if r.step == l {
                    return Case::fail(
                        "R1:duplicate-delivered",
                        format!("{name}'s application received step {} twice", r.step),
                    );
                }
                if r.step < l {
                    return Case::fail(
                        "R1:out-of-order",
                        format!("{name}'s application received step {} after step {l}", r.step),
                    );
                }
            }
            last = Some(r.step);
        }
    }

    for (name, log, me) in [("A", la, 0usize), ("B", lb, 1usize)] {
        let peer = 1 - me;
        for s in &log.sends {
            // transmissions of this step on the wire
            let tx: Vec<&SentD> = sent
                .iter()
                .filter(|d| d.src == me && d.w.proto_id == PROTO && d.w.opcode as usize == s.step)
                .collect();
            if tx.is_empty() {
                if let Some((_, Ok(()))) = s.done {
                    return Case::fail(
                        "R2:ok-without-transmission",
                        format!("{name} step {}: send returned Ok but nothing was transmitted", s.step),
                    );
                }
                continue;
            }
            let ctr = tx[0].w.ctr;
            if tx.len() > 1 {
                retransmissions += tx.len() - 1;
            }
            // R5: back-off between consecutive transmissions
            for k in 1..tx.len() {
                let gap = tx[k].t - tx[k - 1].t;
                let min = min_backoff_us(300, k);
                if gap < min {
                    return Case::fail(
                        "R5:retransmission-too-early",
                        format!(
                            "{name} step {}: retransmission {k} sent {gap} µs after the previous transmission, protocol minimum is {min} µs",
                            s.step
                        ),
                    );
                }
            }
            // when did the peer's stack consume a copy?
            let first_consumed: Option<u64> = consumed
                .iter()
                .filter(|(_, dst, o)| *dst == peer && tx.iter().any(|d| d.seq == *o))
                .map(|(t, _, _)| *t)
                .min();
            // acknowledgements of this counter handed to my stack; only those that are
            // certainly accepted by the receive window (counter above everything consumed
            // from the peer before)
            let mut max_seen: Option<u32> = None;
            let mut ack_t: Option<u64> = None;
            let mut evs: Vec<(u64, usize, usize)> =
                consumed.iter().filter(|(_, dst, _)| *dst == me).cloned().collect();
            evs.sort_by_key(|e| e.0);
            for (t, _, o) in evs {
                if let Some(d) = sent.iter().find(|d| d.seq == o) {
                    let fresh = max_seen.map(|m| d.w.ctr > m).unwrap_or(true);
                    if fresh {
                        max_seen = Some(d.w.ctr);
                        if d.w.ack == Some(ctr) && ack_t.is_none() && t >= s.t_start {
                            ack_t = Some(t);
                        }
                    }
                }
            }

            match &s.done {
                None => {
                    // still pending at the end of the simulation
                    if end - s.t_start > 30 * SEC {
                        return Case::fail(
                            "R3:send-hangs",
                            format!(
                                "{name} step {}: send started at {} still pending at {} ({} transmissions)",
                                s.step, s.t_start, end, tx.len()
                            ),
                        );
                    }
                }
                Some((t_ret, Ok(()))) => {
                    // R2
                    match first_consumed {
                        Some(t) if t <= *t_ret => {}
                        _ => {
                            return Case::fail(
                                "R2:ok-but-never-received",
                                format!(
                                    "{name} step {}: send returned Ok at {t_ret} but no copy of counter {ctr:#x} had been handed to the peer's stack (first consumed: {first_consumed:?})",
                                    s.step
                                ),
                            )
                        }
                    }
                }
                Some((t_ret, Err(code))) => {
                    if first_consumed.is_none() || ack_t.is_none() {
                        // R3: must be a transmit timeout, within the ladder
                        if *code != ErrorCode::TxTimeout {
                            return Case::fail(
                                "R3:wrong-error",
                                format!("{name} step {}: undeliverable message failed with {code:?} instead of TxTimeout", s.step),
                            );
                        }
                    }
                    // R4: delivered and acknowledged strictly before the give-up => must be Ok
                    if let (Some(tc), Some(ta)) = (first_consumed, ack_t) {
                        if tc < *t_ret && ta < *t_ret {
                            return Case::fail(
                                "R4:error-despite-ack",
                                format!(
                                    "{name} step {}: message consumed by the peer at {tc} and its acknowledgement handed to the sender's stack at {ta}, yet send failed at {t_ret} with {code:?}",
                                    s.step
                                ),
                            );
                        }
                    }
                    if *t_ret - s.t_start > 20 * SEC {
                        return Case::fail(
                            "R3:give-up-too-late",
                            format!("{name} step {}: gave up after {} µs", s.step, t_ret - s.t_start),
                        );
                    }
                }
            }
        }
    }

    // R6: every duplicate of a reliable message consumed by a stack is followed by an
    // acknowledgement of its counter.
    let mut dup_events = 0;
    for node in 0..2usize {
        let mut seen: Vec<usize> = Vec::new();
        let mut evs: Vec<(u64, usize, usize)> =
            consumed.iter().filter(|(_, dst, _)| *dst == node).cloned().collect();
        evs.sort_by_key(|e| e.0);
        // duplicates by (session, counter): the same counter consumed before
        let mut seen_ctr: Vec<u32> = Vec::new();
        for (t, _, o) in evs {
            let Some(d) = sent.iter().find(|d| d.seq == o) else { continue };
            let is_dup = seen_ctr.contains(&d.w.ctr);
            seen.push(o);
            if !is_dup {
                seen_ctr.push(d.w.ctr);
                continue;
            }
            if !d.w.reliable {
                continue;
            }
            // Unsecured sessions: a counter that fell behind the reception window is, by the
            // specification's rule for unencrypted messages, indistinguishable from a new
            // message of a restarted peer - the stack cannot know it is a duplicate.
            if case.kind == SessKind::Plain {
                let newest = seen_ctr.iter().copied().max().unwrap_or(d.w.ctr);
                if newest.saturating_sub(d.w.ctr) > 16 {
                    continue;
                }
            }
            dup_events += 1;
            // too close to the end of the simulation to judge
            if end - t < 2 * SEC {
                continue;
            }
            let acked = sent
                .iter()
                .any(|x| x.src == node && x.t >= t && x.w.ack == Some(d.w.ctr));
            if !acked {
                return Case::fail(
                    "R6:duplicate-not-acknowledged",
                    format!(
                        "node {node} consumed a duplicate of counter {:#x} (proto {:#x} opcode {}) at {t} and never acknowledged it again",
                        d.w.ctr, d.w.proto_id, d.w.opcode
                    ),
                );
            }
        }
    }

    let disturbed = adv.dropped + adv.delayed + adv.duplicated > 0;
    if retransmissions > 0 {
        labels.push("retransmission".into());
    }
    if dup_events > 0 {
        labels.push("duplicate-consumed".into());
    }
    if adv.dropped > 0 {
        labels.push("drop".into());
    }
    if adv.delayed > 0 {
        labels.push("delay".into());
    }
    if case.busy_tx.is_some() {
        labels.push("busy-tx-slot".into());
    }
    if case.other_session_closed_ms.is_some() {
        labels.push("other-session-closed".into());
    }
    let timeouts = la
        .sends
        .iter()
        .chain(lb.sends.iter())
        .filter(|s| matches!(s.done, Some((_, Err(ErrorCode::TxTimeout)))))
        .count();
    if timeouts > 0 {
        labels.push("tx-timeout".into());
    }
    if la.finished && lb.finished {
        labels.push("script-completed".into());
    }
    labels.push(format!("{:?}", case.kind));
    Case::pass(retransmissions > 0 && disturbed).labels(labels)
}

fn main() {
    vh::util::init_stderr_log();
    let mut run = Run::new(
        "C09",
        "exploration",
        "two real Matter stacks with a planted CASE/PASE/plaintext session exchange a generated script of 1-6 reliable messages (either direction, generated sizes and receiver delays) on one exchange under a generated per-datagram adversary (deliver/drop/duplicate/delay/blackhole, both directions, acks included), a generated poll order and a virtual clock; oracle = invariants R1-R6 over wire tap + application logs. Non-trivial: at least one retransmission occurred and at least one datagram was dropped, delayed or duplicated; distinct = distinct serialized case",
    );
    run.assume("session keys are planted by the harness (ReservedSession API); AES-CCM tags do not collide");
    run.assume("R4 counts only acknowledgements whose datagram counter exceeds every counter consumed before from that peer (certainly inside the receive window)");
    run.assume("R5 allows 2 ms below the real-valued specification back-off (integer millisecond arithmetic)");
    let n = run.cases(40_000, 2_000_000);
    run.prop("mrp-script", n, case_strategy, check);
    run.finish();
}
