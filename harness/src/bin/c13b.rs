//! C13 (level L2, end-to-end) — A subscriber eventually learns every change it subscribed to.
//!
//! A real `InteractionModel` over the synthetic node of `sim/imdev.rs` (3 endpoints x 2 clusters x
//! 4 attributes + 2 events per cluster; attribute 3 of every cluster may be "big" so that a
//! wildcard priming report spans several ReportData chunks = several round trips) serves 1-3
//! subscribers (planted CASE sessions of one or two fabrics, min interval 0-5 s, max interval
//! 10(->40)-600 s, concrete and wildcard attribute paths, optional event paths). The controller side
//! is the long-lived subscriber of `imdev.rs` (`SubscriberHub`): it accepts the exchanges the device
//! opens, decodes every ReportData independently of rs-matter's TLV code, records it and answers
//! (success / InvalidSubscription from a generated instant on).
//!
//! Generated per case: the application timeline (`set(attr, v)` with unique values + change
//! notification, bursts of up to 22 distinct attributes = overflow of the 16-entry change table,
//! `emit(event)`, periodic changes of one attribute, `notify_all_changed`) at generated virtual
//! times, *including* instants bound to the arrival of priming chunk k at a subscriber (i.e.
//! between two priming ReportData / before the SubscribeResponse); the network (per-datagram
//! deliver / drop / duplicate / delay up to 5 s by sending index, plus *typed* losses decided on the
//! decrypted datagram: every transmission of the ReportData of the k-th report attempt to a
//! subscriber, or every StatusResponse answering it); loss of the device-side session; re-connects
//! of a subscriber (a new planted session pair). After the last disturbance every disturbed
//! subscriber re-connects and the clock runs for `max(max interval) + 120 s` (T_quiet).
//!
//! Everything is decided from (a) what the subscriber received (hub log + priming answer) and (b)
//! the wire tap decrypted with the planted keys (what the device sent / consumed, with virtual
//! timestamps). A *report attempt* is one device-initiated exchange carrying ReportData of a
//! subscription; it is *confirmed* when the device consumed a success StatusResponse for each of
//! its chunks. Oracles (from the property statement):
//!
//! * `eventual:*` — for every established subscription that is still in the device's table at
//!   T_quiet: the last value the subscriber saw of every subscribed attribute equals the device's
//!   current value, and every emitted event matching its event paths was received.
//! * `event-duplicated` — an event number is sent again to a subscription after an attempt /
//!   priming that carried it was confirmed (at-least-once is allowed only across failures).
//! * `retry:content-lost` — the attempt following an unconfirmed attempt of the same subscription
//!   carries every attribute path and event number of the unconfirmed one.
//! * `timing:min-interval` — two consecutive attempts of a subscription, the first confirmed, start
//!   (first transmission of the first chunk, device clock) at least `min interval` apart; same for
//!   the first attempt after the priming report (first priming chunk).
//! * `timing:liveness-*` — for a subscription all of whose attempts were confirmed (nothing was
//!   lost for it) consecutive attempts start at most `max interval` apart (first one: from the
//!   SubscribeResponse); at T_quiet the last confirmed attempt of every live subscription started
//!   at most `max interval` ago.
//! * `ended-without-cause` — an established subscription that is gone at T_quiet was refused by
//!   the subscriber, or had an unconfirmed attempt, or lost its session.
//! * `timing:report-after-expiry` — no attempt starts later than `max interval` + 60 s (the
//!   sequential reporter may be busy with other subscribers) after the last confirmed one.
//!
//! * sub-check `restart`: one subscriber; the Interaction-Model layer is re-created over the same
//!   key-value store (`InteractionModel::startup()` re-hydrates the persisted subscriptions), the
//!   device's sessions are gone, the subscriber is reachable again (fresh planted pair) or not at
//!   all. Reachable: a report within one max interval after the restart, then `restart:stale-
//!   attribute` / `restart:missing-event` as above. Unreachable: the resumed subscription must be
//!   gone `max interval + 260 s` after the restart (`restart:resumed-subscription-never-expires`).
//!
//! A violation that is explained by the *sequential* reporter task waiting for another subscriber
//! whose report is never confirmed gets the suffix `:behind-failing-subscriber` (listed as open).
//!
//! Findings on the unchanged tree (hooks only), each decided as genuine:
//!
//! * `timing:liveness-missed` (hypothesis (a)) — a report that turns out empty and is not due yet is
//!   skipped by `ReportDataResponder::respond` (returns `Ok(true)` without sending) and the reporter
//!   then commits it with `set_keep()`: `reported_at` = now although the subscriber heard nothing.
//!   Every change of an attribute the subscription does NOT select (and every event it does not
//!   select) restarts its liveness clock. Minimal: subscribe to events only at 0 s (max 40 s); an
//!   attribute changes at 0.9 s and at 20.7 s: the first liveness report goes out at 40.7 s.
//!   Fix: `fixes/03-empty-report-resets-liveness-clock.patch`.
//! * `timing:min-interval` (hypothesis (e), generalised) — `reported_at` is the `now` sampled once at
//!   the start of the reporter iteration (for a priming report: the arrival of the request), not
//!   the time the report went out; a report that had to wait behind the reports of other
//!   subscribers is followed by the next one after less than the minimum interval on the wire
//!   (seen: 0 ms with min 1 s, 1.4 s with min 3 s). Fix: `fixes/04-report-stamped-with-iteration-
//!   start-time.patch`.
//! * `timing:alive-but-silent` — the reporter sleeps until `next_report_at()`, which for a
//!   subscription whose reports keep failing is the retry back-off (capped at max interval) and
//!   ignores the expiry instant: the subscription stays in the table for up to two maximum
//!   intervals after its last success. Fix: `fixes/05-expiry-not-part-of-reporter-deadline.patch`.
//! * open (`known_findings.json`): `*:behind-failing-subscriber` (head-of-line blocking: ~38 s wait
//!   for a lost StatusResponse starves and finally *expires* a healthy subscription with max 40 s),
//!   `restart:resumed-subscription-never-expires` (hypothesis (b): `reported_at == Instant::MAX`).
//!
//! `C13B_TRACE=1 c13b --replay FILE` prints the decoded timeline (`=2`: plus every datagram, `=3`:
//! plus the change table / subscription watermarks at every action); `C13B_LOG=warn|info|debug`
//! prints rs-matter's log with virtual timestamps.

use std::cell::{Cell, RefCell};
use std::collections::{BTreeMap, BTreeSet};
use std::future::{poll_fn, Future};
use std::num::NonZeroU8;
use std::pin::Pin;
use std::rc::Rc;
use std::task::Poll;

use embassy_time::{Instant, Timer};
use proptest::prelude::*;
use serde::{Deserialize, Serialize};

use rs_matter::acl::{AclEntry, AuthMode};
use rs_matter::dm::{Access, Privilege};
use rs_matter::persist::DummyKvBlobStore;

use vh::sim::imdev::tlv::{Enc, Tag, Val};
use vh::sim::imdev::*;
use vh::sim::net::{Actions, Sent};
use vh::sim::node::{decode_wire, Wire};
use vh::sim::{clock, Sched, Stop, MS, SEC};
use vh::util::pick;
use vh::{Case, Run};

// ---------------------------------------------------------------------------------------------
// Universe
// ---------------------------------------------------------------------------------------------

const EPS: [u16; 3] = [0, 1, 2];
const CLS: [u32; 2] = [0x30, 0x31];
const N_ATTR: u32 = 4;
const BIG_ATTR: u32 = 3;
const EVS: [u32; 2] = [0, 1];

const OP_STATUS: u8 = 1;
const OP_SUBSCRIBE_RESP: u8 = 4;
const OP_REPORT_DATA: u8 = 5;

const INVALID_SUBSCRIPTION: u16 = 0x7d;

type APath = (u16, u32, u32);

fn all_attrs() -> Vec<APath> {
    let mut v = Vec::new();
    for e in EPS {
        for c in CLS {
            for a in 0..N_ATTR {
                v.push((e, c, a));
            }
        }
    }
    v
}

fn all_events() -> Vec<APath> {
    let mut v = Vec::new();
    for e in EPS {
        for c in CLS {
            for x in EVS {
                v.push((e, c, x));
            }
        }
    }
    v
}

fn big_size(big: u8) -> u16 {
    match big {
        0 => 4,
        1 => 300,
        _ => 500,
    }
}

fn node_spec(big: u8) -> NodeSpec {
    let rv = Access::RV.bits();
    NodeSpec {
        endpoints: EPS
            .iter()
            .map(|e| EndpointSpec {
                id: *e,
                device_types: vec![0x0100],
                clusters: CLS
                    .iter()
                    .map(|c| ClusterSpec {
                        id: *c,
                        dataver: 7,
                        attributes: (0..N_ATTR)
                            .map(|a| AttrSpec { id: a, access: rv, is_list: false, size: if a == BIG_ATTR { big_size(big) } else { 4 }, items: 0 })
                            .collect(),
                        commands: vec![],
                        events: EVS.iter().map(|x| EventSpec { id: *x, access: rv }).collect(),
                    })
                    .collect(),
            })
            .collect(),
    }
}

// ---------------------------------------------------------------------------------------------
// Scenario
// ---------------------------------------------------------------------------------------------

#[derive(Debug, Clone, PartialEq, Eq, Serialize, Deserialize)]
enum Op {
    /// `set(attr, fresh value)` + `notify_attr_changed`
    Set { attr: u16 },
    /// `count` distinct attributes starting at `start` (stride 1 over the 24 attributes)
    Burst { start: u16, count: u8 },
    Emit { ev: u16 },
    /// every attribute gets a fresh value, then `notify_all_changed`
    AllChanged,
}

#[derive(Debug, Clone, PartialEq, Eq, Serialize, Deserialize)]
enum NetAct {
    Deliver,
    Drop,
    Dup,
    Delay(u32),
    DupDelay(u32),
}

#[derive(Debug, Clone, PartialEq, Eq, Serialize, Deserialize)]
struct SubSpec {
    fab: u8,
    min_s: u16,
    max_s: u16,
    attrs: Vec<Path>,
    events: Option<Vec<Path>>,
    start_ms: u32,
    /// executed when priming chunk `.0` arrives at the subscriber (before it is confirmed)
    priming_ops: Vec<(u8, Op)>,
    /// from then on the subscriber refuses the reports of this subscription
    reject_at_ms: Option<u32>,
    /// report attempts (0-based, per subscriber) all of whose ReportData transmissions are lost
    lose_reports: Vec<u8>,
    /// report attempts whose StatusResponses are all lost
    lose_status: Vec<u8>,
    /// the subscriber re-connects (new session pair) at these instants
    reconnect_ms: Vec<u32>,
    /// the device loses its session(s) to the subscriber
    session_loss_ms: Option<u32>,
}

#[derive(Debug, Clone, PartialEq, Eq, Serialize, Deserialize)]
struct Periodic {
    attr: u16,
    start_ms: u32,
    period_ms: u32,
    count: u8,
}

#[derive(Debug, Clone, PartialEq, Eq, Serialize, Deserialize)]
pub struct Scenario {
    seed: u32,
    sched: Option<u64>,
    big: u8,
    horizon_ms: u32,
    subs: Vec<SubSpec>,
    /// (time selector over the horizon, op)
    ops: Vec<(u16, Op)>,
    /// (subscriber selector, offset after its start in ms, op)
    near_ops: Vec<(u16, u16, Op)>,
    periodic: Option<Periodic>,
    net: [Vec<NetAct>; 2],
}

fn op_w(bursty: bool) -> BoxedStrategy<Op> {
    if bursty {
        prop_oneof![
            8 => any::<u16>().prop_map(|attr| Op::Set { attr }),
            2 => (any::<u16>(), 2u8..17).prop_map(|(start, count)| Op::Burst { start, count }),
            5 => (any::<u16>(), 17u8..24).prop_map(|(start, count)| Op::Burst { start, count }),
            2 => any::<u16>().prop_map(|ev| Op::Emit { ev }),
        ]
        .boxed()
    } else {
        prop_oneof![
            12 => any::<u16>().prop_map(|attr| Op::Set { attr }),
            2 => (any::<u16>(), 2u8..23).prop_map(|(start, count)| Op::Burst { start, count }),
            4 => any::<u16>().prop_map(|ev| Op::Emit { ev }),
            1 => Just(Op::AllChanged),
        ]
        .boxed()
    }
}

fn op() -> BoxedStrategy<Op> {
    op_w(false)
}

fn attr_path() -> impl Strategy<Value = Path> {
    let e = || prop::sample::select(EPS.to_vec());
    let c = || prop::sample::select(CLS.to_vec());
    prop_oneof![
        2 => Just(Path::new(None, None, None)),
        2 => e().prop_map(|e| Path::new(Some(e), None, None)),
        3 => (e(), c()).prop_map(|(e, c)| Path::new(Some(e), Some(c), None)),
        5 => (e(), c(), 0u32..N_ATTR).prop_map(|(e, c, a)| Path::new(Some(e), Some(c), Some(a))),
        1 => (c(), 0u32..N_ATTR).prop_map(|(c, a)| Path::new(None, Some(c), Some(a))),
        1 => c().prop_map(|c| Path::new(None, Some(c), None)),
    ]
}

fn event_paths() -> impl Strategy<Value = Option<Vec<Path>>> {
    let e = || prop::sample::select(EPS.to_vec());
    let c = || prop::sample::select(CLS.to_vec());
    prop_oneof![
        4 => Just(None),
        2 => Just(Some(vec![Path::new(None, None, None)])),
        2 => (e(), c()).prop_map(|(e, c)| Some(vec![Path::new(Some(e), Some(c), None)])),
        1 => (e(), c(), 0u32..2).prop_map(|(e, c, x)| Some(vec![Path::new(Some(e), Some(c), Some(x))])),
    ]
}

fn net_act() -> impl Strategy<Value = NetAct> {
    prop_oneof![
        10 => Just(NetAct::Deliver),
        3 => Just(NetAct::Drop),
        1 => Just(NetAct::Dup),
        5 => prop_oneof![2 => 1u32..50, 3 => 50u32..900, 1 => 900u32..5000].prop_map(NetAct::Delay),
        1 => (1u32..3000).prop_map(NetAct::DupDelay),
    ]
}

fn sub_spec(faults: bool) -> impl Strategy<Value = SubSpec> {
    sub_spec_w(faults, false)
}

fn sub_spec_w(faults: bool, bursty: bool) -> impl Strategy<Value = SubSpec> {
    let lose = move || {
        if faults {
            prop_oneof![3 => Just(vec![]), 2 => prop::collection::vec(0u8..6, 1..3)].boxed()
        } else {
            Just(vec![]).boxed()
        }
    };
    let lose_status = move || {
        if faults {
            prop_oneof![5 => Just(vec![]), 1 => prop::collection::vec(0u8..4, 1..2)].boxed()
        } else {
            Just(vec![]).boxed()
        }
    };
    (
        (
            1u8..=2,
            prop_oneof![3 => Just(0u16), 3 => 1u16..=5],
            prop::sample::select(vec![10u16, 40, 40, 45, 60, 60, 120, 300, 600]),
            prop::collection::vec(attr_path(), 0..3),
            event_paths(),
            0u32..20_000,
        ),
        (
            prop::collection::vec((0u8..4, op_w(bursty)), 0..3),
            if faults { prop_oneof![8 => Just(None), 1 => (1_000u32..150_000).prop_map(Some)].boxed() } else { Just(None).boxed() },
            lose(),
            lose_status(),
            if faults { prop::collection::vec(1_000u32..150_000, 0..3).boxed() } else { Just(vec![]).boxed() },
            if faults { prop_oneof![6 => Just(None), 1 => (1_000u32..150_000).prop_map(Some)].boxed() } else { Just(None).boxed() },
        ),
    )
        .prop_map(|((fab, min_s, max_s, mut attrs, mut events, start_ms), (priming_ops, reject_at_ms, lose_reports, lose_status, reconnect_ms, session_loss_ms))| {
            if attrs.is_empty() && events.is_none() {
                attrs.push(Path::new(None, None, None));
            }
            if attrs.is_empty() && events.as_ref().is_some_and(|e| e.is_empty()) {
                events = Some(vec![Path::new(None, None, None)]);
            }
            SubSpec { fab, min_s, max_s, attrs, events, start_ms, priming_ops, reject_at_ms, lose_reports, lose_status, reconnect_ms, session_loss_ms }
        })
}

pub fn scenario(faults: bool, max_subs: usize) -> impl Strategy<Value = Scenario> {
    scenario_w(faults, max_subs, false)
}

fn scenario_w(faults: bool, max_subs: usize, bursty: bool) -> impl Strategy<Value = Scenario> {
    (
        (any::<u32>(), prop_oneof![1 => Just(None), 3 => any::<u64>().prop_map(Some)], prop_oneof![2 => Just(0u8), 2 => Just(1u8), 1 => Just(2u8)], 20_000u32..160_000),
        prop::collection::vec(sub_spec_w(faults, bursty), if bursty { 2 } else { 1 }..=max_subs),
        prop::collection::vec((any::<u16>(), op_w(bursty)), 0..24),
        prop::collection::vec((any::<u16>(), 0u16..3000, op_w(bursty)), 0..5),
        prop_oneof![
            2 => Just(None),
            1 => (any::<u16>(), 0u32..30_000, 3_000u32..25_000, 3u8..12).prop_map(|(attr, start_ms, period_ms, count)| Some(Periodic { attr, start_ms, period_ms, count })),
        ],
        (prop::collection::vec(net_act(), 0..40), prop::collection::vec(net_act(), 0..40)),
    )
        .prop_map(|((seed, sched, big, horizon_ms), subs, ops, near_ops, periodic, (n0, n1))| Scenario {
            seed,
            sched,
            big,
            horizon_ms,
            subs,
            ops,
            near_ops,
            periodic,
            net: [n0, n1],
        })
}

// ---------------------------------------------------------------------------------------------
// Execution
// ---------------------------------------------------------------------------------------------

#[derive(Debug, Clone)]
struct SetRec {
    t_us: u64,
    path: APath,
    value: Vec<u8>,
}

#[derive(Debug, Clone, Default)]
struct SubObs {
    started_us: Option<u64>,
    finished_us: Option<u64>,
    chunk_times: Vec<u64>,
    outcome: Option<ReadOutcome>,
    open_error: Option<String>,
}

/// One decoded datagram of the tap.
#[derive(Debug, Clone)]
pub struct Dg {
    pub t_us: u64,
    pub pair: u16,
    pub from_dev: bool,
    pub w: Wire,
}

struct Shared {
    /// pair index -> subscriber index
    pairs: RefCell<Vec<usize>>,
    /// subscriber index -> current controller-side session id
    sids: RefCell<Vec<u32>>,
    node_ids: Vec<u64>,
}

fn node_id_of(i: usize) -> u64 {
    0x0000_0000_0000_1000 + i as u64
}

fn decode_dg(bytes: &[u8], sh: &Shared) -> Option<(u16, bool, Wire)> {
    if bytes.len() < 8 {
        return None;
    }
    let sess = u16::from_le_bytes([bytes[1], bytes[2]]);
    let (from_dev, n) = match sess & 0xff00 {
        0x0100 => (true, sess - 0x0100),
        0x0200 => (false, sess - 0x0200),
        _ => return None,
    };
    let sub = *sh.pairs.borrow().get(n as usize)?;
    let info = plant_info(n);
    let w = if from_dev { decode_wire(bytes, Some(&info.key_dc), DEV_NODE_ID) } else { decode_wire(bytes, Some(&info.key_cd), sh.node_ids[sub]) }?;
    Some((n, from_dev, w))
}

struct AdvState {
    idx: [usize; 2],
    /// (pair, exchange id) of a device-initiated report exchange -> (subscriber, attempt index)
    attempts: BTreeMap<(u16, u16), (usize, u32)>,
    per_sub: Vec<u32>,
    typed_drops: usize,
    plain_drops: usize,
    delays: usize,
}

pub struct Obs {
    t0: u64,
    t_heal: u64,
    t_end: u64,
    subs: Vec<SubObs>,
    sets: Vec<SetRec>,
    /// (virtual time, path) per queued emit, in queue order
    emits: Vec<(u64, APath)>,
    emitted: Vec<Result<u64, String>>,
    hub_log: Vec<ReportRecord>,
    oddities: Vec<String>,
    /// subscription ids in the device table at T_quiet
    alive: BTreeSet<u32>,
    final_values: BTreeMap<APath, Vec<u8>>,
    pub sent: Vec<Dg>,
    consumed_by_dev: Vec<Dg>,
    session_lost: Vec<bool>,
    adv: (usize, usize, usize),
    pairs: Vec<usize>,
}

fn event_payload(k: usize) -> Vec<u8> {
    let mut enc = Enc::new();
    enc.start_struct(Tag::Anon).bytes(Tag::Ctx(0), &(k as u32).to_be_bytes()).end();
    enc.buf
}

struct World<'a, C: rs_matter::crypto::Crypto> {
    rig: &'a ImRig<C>,
    node: &'a SynthNode,
    attrs: Vec<APath>,
    events: Vec<APath>,
    big: u8,
    counter: Cell<u32>,
    sets: RefCell<Vec<SetRec>>,
    emits: RefCell<Vec<(u64, APath)>>,
}

impl<C: rs_matter::crypto::Crypto> World<'_, C> {
    fn fresh(&self, p: APath) -> Vec<u8> {
        let k = self.counter.get() + 1;
        self.counter.set(k);
        let len = if p.2 == BIG_ATTR { big_size(self.big) as usize } else { 4 };
        let mut v = k.to_be_bytes().to_vec();
        v.resize(len.max(4), 0xA5);
        v
    }

    fn set(&self, p: APath, notify: bool) {
        let v = self.fresh(p);
        self.node.set_value(p.0, p.1, p.2, Value::Scalar(v.clone()));
        self.sets.borrow_mut().push(SetRec { t_us: clock::now(), path: p, value: v });
        if notify {
            self.rig.notify_attr_changed(p.0, p.1, p.2);
        }
    }

    /// Apply an application operation (queues the notifications; does not wait).
    fn apply(&self, op: &Op) {
        match op {
            Op::Set { attr } => self.set(self.attrs[pick(*attr, self.attrs.len())], true),
            Op::Burst { start, count } => {
                let s = pick(*start, self.attrs.len());
                for i in 0..(*count as usize).min(self.attrs.len()) {
                    self.set(self.attrs[(s + i) % self.attrs.len()], true);
                }
            }
            Op::Emit { ev } => {
                let p = self.events[pick(*ev, self.events.len())];
                let k = self.emits.borrow().len();
                self.emits.borrow_mut().push((clock::now(), p));
                self.rig.emit_event(p.0, p.1, p.2, 1, event_payload(k));
            }
            Op::AllChanged => {
                for p in &self.attrs {
                    self.set(*p, false);
                }
                self.rig.notify_all_changed();
            }
        }
    }
}

async fn join_all<'a>(futs: Vec<Pin<Box<dyn Future<Output = ()> + 'a>>>) {
    let mut futs: Vec<Option<Pin<Box<dyn Future<Output = ()> + 'a>>>> = futs.into_iter().map(Some).collect();
    poll_fn(move |cx| {
        let mut all = true;
        for f in futs.iter_mut() {
            if let Some(fut) = f {
                if fut.as_mut().poll(cx).is_ready() {
                    *f = None;
                } else {
                    all = false;
                }
            }
        }
        if all {
            Poll::Ready(())
        } else {
            Poll::Pending
        }
    })
    .await
}

#[derive(Debug, Clone)]
enum Act {
    App(Op),
    Reconnect(usize),
    SessionLoss(usize),
}

fn at(t0: u64, ms: u64) -> Instant {
    Instant::from_micros(t0 + ms * MS)
}

pub fn run_scenario(sc: &Scenario) -> Result<Obs, Case> {
    vh::sim::reset_universe();
    let spec = node_spec(sc.big);
    let node = SynthNode::new(&spec);
    let rig = ImRig::new(sc.seed);
    let t0 = clock::now();

    // two fabrics, each with an ACL entry granting every CASE subject of the fabric View
    let inst: Result<(), String> = rig.dev.with_state(|state| {
        state.fabrics.reset();
        for i in 0..2u8 {
            let f = state.fabrics.add_with_post_init(|_| Ok(())).map_err(|_| "cannot add fabric".to_string())?;
            if f.fab_idx().get() != i + 1 {
                return Err("unexpected fabric index".to_string());
            }
        }
        for i in 0..2u8 {
            let idx = NonZeroU8::new(i + 1).ok_or("idx")?;
            let fabric = state.fabrics.fabric_mut(idx).map_err(|_| "fabric vanished".to_string())?;
            fabric.acl_add(AclEntry::new(None, Privilege::ADMIN, AuthMode::Case)).map_err(|_| "acl_add".to_string())?;
        }
        Ok(())
    });
    if let Err(e) = inst {
        return Err(Case::inconclusive(format!("install: {e}")));
    }

    let n = sc.subs.len();
    let sh = Rc::new(Shared { pairs: RefCell::new(Vec::new()), sids: RefCell::new(vec![0; n]), node_ids: (0..n).map(node_id_of).collect() });
    let plant = |i: usize| -> Result<(), String> {
        let who = Requester::Case { fab_idx: sc.subs[i].fab, node_id: node_id_of(i), cats: [0; 3] };
        let sid = rig.plant(&who).map_err(|e| format!("plant: {:?}", e.code()))?;
        sh.pairs.borrow_mut().push(i);
        sh.sids.borrow_mut()[i] = sid;
        Ok(())
    };
    for i in 0..n {
        if let Err(e) = plant(i) {
            return Err(Case::inconclusive(e));
        }
    }

    // network adversary
    let adv = Rc::new(RefCell::new(AdvState { idx: [0, 0], attempts: BTreeMap::new(), per_sub: vec![0; n], typed_drops: 0, plain_drops: 0, delays: 0 }));
    {
        let (adv, sh, sc) = (adv.clone(), sh.clone(), sc.clone());
        rig.net.set_adversary(move |s: &Sent| -> Actions {
            let mut a = adv.borrow_mut();
            let d = if s.src == 0 { 0 } else { 1 };
            let i = a.idx[d];
            a.idx[d] += 1;
            if let Some((pair, from_dev, w)) = decode_dg(&s.bytes, &sh) {
                let sub = sh.pairs.borrow()[pair as usize];
                if from_dev && w.opcode == OP_REPORT_DATA && w.initiator && w.proto_id == rs_matter::im::PROTO_ID_INTERACTION_MODEL {
                    let key = (pair, w.exch_id);
                    if !a.attempts.contains_key(&key) {
                        let k = a.per_sub[sub];
                        a.per_sub[sub] += 1;
                        a.attempts.insert(key, (sub, k));
                    }
                    let (_, k) = a.attempts[&key];
                    if sc.subs[sub].lose_reports.iter().any(|x| *x as u32 == k) {
                        a.typed_drops += 1;
                        return vec![];
                    }
                }
                if !from_dev && w.opcode == OP_STATUS && !w.initiator && w.proto_id == rs_matter::im::PROTO_ID_INTERACTION_MODEL {
                    if let Some((sub, k)) = a.attempts.get(&(pair, w.exch_id)).copied() {
                        if sc.subs[sub].lose_status.iter().any(|x| *x as u32 == k) {
                            a.typed_drops += 1;
                            return vec![];
                        }
                    }
                }
            }
            match sc.net[d].get(i).cloned().unwrap_or(NetAct::Deliver) {
                NetAct::Deliver => vec![(0, s.bytes.clone())],
                NetAct::Drop => {
                    a.plain_drops += 1;
                    vec![]
                }
                NetAct::Dup => vec![(0, s.bytes.clone()), (0, s.bytes.clone())],
                NetAct::Delay(ms) => {
                    a.delays += 1;
                    vec![(ms as u64 * MS, s.bytes.clone())]
                }
                NetAct::DupDelay(ms) => {
                    a.delays += 1;
                    vec![(0, s.bytes.clone()), (ms as u64 * MS, s.bytes.clone())]
                }
            }
        });
    }

    // timeline
    let mut acts: Vec<(u64, Act)> = Vec::new();
    for (sel, op) in &sc.ops {
        acts.push((pick(*sel, sc.horizon_ms as usize) as u64, Act::App(op.clone())));
    }
    for (ssel, off, op) in &sc.near_ops {
        let s = &sc.subs[pick(*ssel, n)];
        acts.push((s.start_ms as u64 + *off as u64, Act::App(op.clone())));
    }
    if let Some(p) = &sc.periodic {
        for k in 0..p.count as u64 {
            acts.push((p.start_ms as u64 + k * p.period_ms as u64, Act::App(Op::Set { attr: p.attr })));
        }
    }
    for (i, s) in sc.subs.iter().enumerate() {
        for t in &s.reconnect_ms {
            acts.push((*t as u64, Act::Reconnect(i)));
        }
        if let Some(t) = s.session_loss_ms {
            acts.push((t as u64, Act::SessionLoss(i)));
        }
    }
    acts.sort_by_key(|a| a.0);
    let last_ms = acts.last().map(|a| a.0).unwrap_or(0).max(sc.subs.iter().map(|s| s.start_ms as u64 + 3000).max().unwrap_or(0));
    let max_max = sc.subs.iter().map(|s| s.max_s.max(40) as u64).max().unwrap_or(40);
    let t_heal_ms = last_ms + 1000;
    // a second re-connect after every attempt that was in flight at the first one has failed (the
    // device drops "the" session of the peer when a report fails - possibly the fresh one)
    let t_heal2_ms = t_heal_ms + 50_000;
    let t_end_ms = t_heal2_ms + (max_max + 120) * 1000;

    let world = World {
        rig: &*rig,
        node: &node,
        attrs: all_attrs(),
        events: all_events(),
        big: sc.big,
        counter: Cell::new(0),
        sets: RefCell::new(Vec::new()),
        emits: RefCell::new(Vec::new()),
    };
    let hub = SubscriberHub::new();
    let sub_obs: RefCell<Vec<SubObs>> = RefCell::new(vec![SubObs::default(); n]);
    let alive: RefCell<BTreeSet<u32>> = RefCell::new(BTreeSet::new());
    let session_lost: RefCell<Vec<bool>> = RefCell::new(vec![false; n]);
    let plant_err: RefCell<Option<String>> = RefCell::new(None);

    let sched = match sc.sched {
        None => Sched::Fifo,
        Some(s) => Sched::Seeded(s),
    };

    let (stop, done, _) = {
        let mut futs: Vec<Pin<Box<dyn Future<Output = ()> + '_>>> = Vec::new();
        for (i, s) in sc.subs.iter().enumerate() {
            let (world, hub, sub_obs, sh, rig) = (&world, &hub, &sub_obs, &sh, &rig);
            futs.push(Box::pin(async move {
                Timer::at(at(t0, s.start_ms as u64)).await;
                sub_obs.borrow_mut()[i].started_us = Some(clock::now());
                let sid = sh.sids.borrow()[i];
                let mut ex = match rig.exchange(sid) {
                    Ok(e) => e,
                    Err(e) => {
                        sub_obs.borrow_mut()[i].open_error = Some(format!("{:?}", e.code()));
                        return;
                    }
                };
                let req = SubscribeReq {
                    read: ReadReq {
                        attrs: if s.attrs.is_empty() { None } else { Some(s.attrs.clone()) },
                        events: s.events.clone(),
                        fabric_filtered: true,
                        dataver_filters: vec![],
                        event_min: None,
                    },
                    keep_subscriptions: true,
                    min_interval_s: s.min_s,
                    max_interval_s: s.max_s,
                };
                let mut on_chunk = |k: usize, _: &ReadOutcome| {
                    sub_obs.borrow_mut()[i].chunk_times.push(clock::now());
                    for (ck, op) in &s.priming_ops {
                        if *ck as usize == k {
                            world.apply(op);
                        }
                    }
                };
                let out = subscribe(&mut ex, &req, &mut on_chunk).await;
                if let (Some((id, _)), Some(t)) = (out.subscribed, s.reject_at_ms) {
                    hub.set_reply(id, t0 + t as u64 * MS, SubReply::Reject(INVALID_SUBSCRIPTION));
                }
                let mut o = sub_obs.borrow_mut();
                o[i].finished_us = Some(clock::now());
                o[i].outcome = Some(out);
            }));
        }
        {
            let (world, sh, rig, acts, alive, session_lost, plant, plant_err) = (&world, &sh, &rig, &acts, &alive, &session_lost, &plant, &plant_err);
            futs.push(Box::pin(async move {
                let lose = |i: usize| {
                    let node = sh.node_ids[i];
                    rig.dev.with_state(|st| {
                        let ids: Vec<u32> = st.verif_sessions().verif_snapshots().filter(|s| s.peer_nodeid == Some(node) && !s.reserved).map(|s| s.id).collect();
                        for id in ids {
                            st.verif_sessions_mut().remove(id);
                        }
                    });
                };
                let dump = |what: &str| {
                    if std::env::var("C13B_TRACE").is_ok_and(|v| v == "3") {
                        let subs = rig.im_state().subscriptions();
                        let mut line = format!("state {} {what}: changes[", secs(clock::now(), t0));
                        subs.verif_for_each_change(|c| line.push_str(&format!("({:?},{:?},{:?})#{} ", c.endpoint, c.cluster, c.attr, c.change_id)));
                        line.push_str("] subs[");
                        subs.verif_for_each_sub(|s, fl| line.push_str(&format!("id{} seen#{} ev#{} fails{} inflight={fl} ", s.id, s.max_seen_attr_change_id, s.max_seen_event_number, s.fail_count)));
                        eprintln!("{line}]");
                    }
                };
                for (t, act) in acts.iter() {
                    Timer::at(at(t0, *t)).await;
                    dump("before action");
                    match act {
                        Act::App(op) => {
                            world.apply(op);
                            rig.flush().await;
                        }
                        Act::Reconnect(i) => {
                            if let Err(e) = plant(*i) {
                                *plant_err.borrow_mut() = Some(e);
                            }
                        }
                        Act::SessionLoss(i) => {
                            session_lost.borrow_mut()[*i] = true;
                            lose(*i);
                        }
                    }
                }
                for t in [t_heal_ms, t_heal2_ms] {
                    Timer::at(at(t0, t)).await;
                    dump("re-connect");
                    for (i, s) in sc.subs.iter().enumerate() {
                        let disturbed = !s.lose_reports.is_empty() || !s.lose_status.is_empty() || s.session_loss_ms.is_some();
                        if disturbed {
                            if let Err(e) = plant(i) {
                                *plant_err.borrow_mut() = Some(e);
                            }
                        }
                    }
                }
                Timer::at(at(t0, t_end_ms)).await;
                rig.im_state().subscriptions().verif_for_each_sub(|s, _| {
                    alive.borrow_mut().insert(s.id);
                });
            }));
        }
        rig.run_sub(&node, sched, 4, t_end_ms / 1000 + 30, DummyKvBlobStore, None, false, &hub, 3, join_all(futs))
    };

    if stop == Stop::PollLimit {
        return Err(Case::inconclusive("poll watchdog"));
    }
    if rig.net.storm() {
        return Err(Case::fail("datagram-storm", "more than 50000 datagrams"));
    }
    if !done {
        return Err(Case::inconclusive(format!("the scenario did not finish (stop={stop:?})")));
    }
    if let Some(e) = plant_err.into_inner() {
        return Err(Case::inconclusive(e));
    }

    let (sent, consumed_by_dev) = rig.net.with_tap(|tap| {
        let mut sent = Vec::new();
        for s in &tap.sent {
            if let Some((pair, from_dev, w)) = decode_dg(&s.bytes, &sh) {
                sent.push(Dg { t_us: s.t_us, pair, from_dev, w });
            }
        }
        let mut cons = Vec::new();
        for c in &tap.consumed {
            if c.dst == 0 && !c.mutated {
                if let Some((pair, from_dev, w)) = decode_dg(&c.bytes, &sh) {
                    if !from_dev {
                        cons.push(Dg { t_us: c.t_us, pair, from_dev, w });
                    }
                }
            }
        }
        (sent, cons)
    });

    let mut final_values = BTreeMap::new();
    for p in all_attrs() {
        if let Some(Value::Scalar(v)) = node.value(p.0, p.1, p.2) {
            final_values.insert(p, v);
        }
    }
    let a = adv.borrow();
    let obs = Obs {
        t0,
        t_heal: t0 + t_heal2_ms * MS,
        t_end: t0 + t_end_ms * MS,
        subs: sub_obs.into_inner(),
        sets: world.sets.into_inner(),
        emits: world.emits.into_inner(),
        emitted: rig.emitted.borrow().clone(),
        hub_log: hub.log.borrow().clone(),
        oddities: hub.oddities.borrow().clone(),
        alive: alive.into_inner(),
        final_values,
        sent,
        consumed_by_dev,
        session_lost: session_lost.into_inner(),
        adv: (a.typed_drops, a.plain_drops, a.delays),
        pairs: sh.pairs.borrow().clone(),
    };
    Ok(obs)
}

// ---------------------------------------------------------------------------------------------
// Analysis
// ---------------------------------------------------------------------------------------------

#[derive(Debug, Clone)]
struct Chunk {
    ctr: u32,
    first_tx: u64,
    attrs: Vec<APath>,
    events: Vec<u64>,
    more: bool,
}

#[derive(Debug, Clone)]
struct Attempt {
    sub_id: Option<u32>,
    pair: u16,
    exch: u16,
    priming: bool,
    chunks: Vec<Chunk>,
    /// device consumed a success StatusResponse for every chunk (report) / sent the
    /// SubscribeResponse (priming)
    confirmed_at: Option<u64>,
    /// device consumed a non-success StatusResponse
    refused: bool,
    last_activity: u64,
    undecodable: bool,
    /// priming only: counter of the SubscribeResponse and whether the device consumed an
    /// acknowledgement for it (otherwise the device gives the subscription up)
    resp_ctr: Option<u32>,
    resp_acked: bool,
    /// the device's socket consumed the last success StatusResponse, but the device never
    /// acknowledged it (e.g. its session vanished at that very instant): not counted as confirmed
    ambiguous: bool,
}

impl Attempt {
    fn start(&self) -> u64 {
        self.chunks.first().map(|c| c.first_tx).unwrap_or(self.last_activity)
    }

    fn attr_set(&self) -> BTreeSet<APath> {
        self.chunks.iter().flat_map(|c| c.attrs.iter().copied()).collect()
    }

    fn event_set(&self) -> BTreeSet<u64> {
        self.chunks.iter().flat_map(|c| c.events.iter().copied()).collect()
    }
}

fn concrete(p: &Path) -> Option<APath> {
    Some((p.endpoint?, p.cluster?, p.leaf?))
}

fn build_attempts(obs: &Obs) -> Vec<Attempt> {
    let mut map: BTreeMap<(u16, u16, bool), Attempt> = BTreeMap::new();
    let mut order: Vec<(u16, u16, bool)> = Vec::new();
    for d in obs.sent.iter().filter(|d| d.from_dev && d.w.proto_id == rs_matter::im::PROTO_ID_INTERACTION_MODEL) {
        let priming = !d.w.initiator;
        let key = (d.pair, d.w.exch_id, priming);
        if d.w.opcode == OP_REPORT_DATA {
            let a = map.entry(key).or_insert_with(|| {
                order.push(key);
                Attempt { sub_id: None, pair: d.pair, exch: d.w.exch_id, priming, chunks: Vec::new(), confirmed_at: None, refused: false, last_activity: d.t_us, undecodable: false, resp_ctr: None, resp_acked: false, ambiguous: false }
            });
            a.last_activity = a.last_activity.max(d.t_us);
            if a.chunks.iter().any(|c| c.ctr == d.w.ctr) {
                continue;
            }
            match decode_report_data(&d.w.payload, a.chunks.len()) {
                Some((sub_id, attrs, events, more, _)) => {
                    if a.chunks.is_empty() {
                        a.sub_id = sub_id;
                    }
                    a.chunks.push(Chunk {
                        ctr: d.w.ctr,
                        first_tx: d.t_us,
                        attrs: attrs.iter().filter_map(|i| concrete(&i.path)).collect(),
                        events: events
                            .iter()
                            .filter_map(|e| match &e.body {
                                EventBody::Data { number, .. } => Some(*number),
                                _ => None,
                            })
                            .collect(),
                        more,
                    });
                }
                None => a.undecodable = true,
            }
        } else if d.w.opcode == OP_SUBSCRIBE_RESP && priming {
            if let Some(a) = map.get_mut(&key) {
                if a.confirmed_at.is_none() {
                    a.confirmed_at = Some(d.t_us);
                    a.resp_ctr = Some(d.w.ctr);
                }
                a.last_activity = a.last_activity.max(d.t_us);
            }
        }
    }
    // StatusResponses consumed by the device on device-initiated exchanges
    let mut seen: BTreeSet<(u16, u16, u32)> = BTreeSet::new();
    let mut ok_count: BTreeMap<(u16, u16), usize> = BTreeMap::new();
    for d in obs.consumed_by_dev.iter().filter(|d| d.w.opcode == OP_STATUS && !d.w.initiator && d.w.proto_id == rs_matter::im::PROTO_ID_INTERACTION_MODEL) {
        if !seen.insert((d.pair, d.w.exch_id, d.w.ctr)) {
            continue;
        }
        let Some(a) = map.get_mut(&(d.pair, d.w.exch_id, false)) else { continue };
        a.last_activity = a.last_activity.max(d.t_us);
        match decode_status_response(&d.w.payload) {
            Some(0) => {
                let c = ok_count.entry((d.pair, d.w.exch_id)).or_default();
                *c += 1;
                if *c == a.chunks.len() && a.chunks.last().is_some_and(|c| !c.more) && a.confirmed_at.is_none() {
                    // ... and the device really took it: it acknowledged that very message
                    let acked = obs.sent.iter().any(|x| x.from_dev && x.pair == d.pair && x.w.ack == Some(d.w.ctr));
                    if acked {
                        a.confirmed_at = Some(d.t_us);
                    } else {
                        a.ambiguous = true;
                    }
                }
            }
            _ => a.refused = true,
        }
    }
    for a in map.values_mut().filter(|a| a.priming) {
        if let Some(ctr) = a.resp_ctr {
            // acknowledged = an acknowledgement reached the device's socket and the device did not
            // retransmit the SubscribeResponse afterwards (a socket-level arrival may still be
            // discarded by the stack, e.g. as a duplicate)
            let acked_at = obs.consumed_by_dev.iter().filter(|d| d.pair == a.pair && d.w.ack == Some(ctr)).map(|d| d.t_us).min();
            let last_tx = obs.sent.iter().filter(|d| d.from_dev && d.pair == a.pair && d.w.ctr == ctr).map(|d| d.t_us).max();
            // (after its last permitted transmission the device may give up at the very instant the
            // acknowledgement arrives: undecidable from outside, count as not acknowledged)
            let n_tx = obs.sent.iter().filter(|d| d.from_dev && d.pair == a.pair && d.w.ctr == ctr).count();
            a.resp_acked = matches!((acked_at, last_tx), (Some(x), Some(y)) if y <= x) && n_tx < 6;
        }
    }
    let mut v: Vec<Attempt> = order.into_iter().filter_map(|k| map.remove(&k)).collect();
    v.sort_by_key(|a| a.start());
    v
}

fn secs(us: u64, t0: u64) -> String {
    format!("{:.3}s", (us.saturating_sub(t0)) as f64 / 1e6)
}

fn analyse(sc: &Scenario, obs: &Obs) -> Case {
    let trace = std::env::var("C13B_TRACE").is_ok();
    let t0 = obs.t0;
    let attempts = build_attempts(obs);
    let mut labels: BTreeSet<String> = BTreeSet::new();
    let mut nontrivial = false;
    let attrs_all = all_attrs();
    // (signature, detail, caused by head-of-line blocking behind another subscriber's failing report)
    let mut failures: Vec<(String, String, bool)> = Vec::new();

    if attempts.iter().any(|a| a.undecodable) {
        return Case::fail("undecodable-report-data", "the device sent a ReportData the independent decoder cannot read");
    }
    for e in &obs.emitted {
        if let Err(e) = e {
            return Case::inconclusive(format!("emit_event failed: {e}"));
        }
    }
    if obs.emitted.len() != obs.emits.len() {
        return Case::inconclusive("emit queue not drained");
    }
    let emitted: Vec<(u64, u64, APath)> = obs.emits.iter().zip(obs.emitted.iter()).map(|((t, p), n)| (*n.as_ref().unwrap_or(&0), *t, *p)).collect();

    if trace {
        eprintln!("--- t_heal={} t_end={} adv(typed,plain,delays)={:?} pairs={:?}", secs(obs.t_heal, t0), secs(obs.t_end, t0), obs.adv, obs.pairs);
        for s in &obs.sets {
            eprintln!("set   {} {:?} = {:02x?}", secs(s.t_us, t0), s.path, &s.value[..4]);
        }
        for (n, t, p) in &emitted {
            eprintln!("emit  {} {:?} #{n}", secs(*t, t0), p);
        }
        for a in &attempts {
            eprintln!(
                "{} sub={:?} pair={} exch={} start={} chunks={} attrs={:?} events={:?} confirmed={:?} refused={}",
                if a.priming { "prime " } else { "report" },
                a.sub_id,
                a.pair,
                a.exch,
                secs(a.start(), t0),
                a.chunks.len(),
                a.attr_set(),
                a.event_set(),
                a.confirmed_at.map(|t| secs(t, t0)),
                a.refused
            );
        }
        for r in &obs.hub_log {
            eprintln!("hub   {} exch#{} chunk={} sub={:?} attrs={} events={} reply={:?} err={:?}", secs(r.t_us, t0), r.exchange, r.chunk, r.sub_id, r.attrs.len(), r.events.len(), r.reply, r.reply_error);
        }
        for o in &obs.oddities {
            eprintln!("odd   {o}");
        }
        if std::env::var("C13B_TRACE").is_ok_and(|v| v == "2") {
            for d in &obs.sent {
                eprintln!("wire  {} {} pair={} exch={} op={} ctr={} ack={:?} len={}", secs(d.t_us, t0), if d.from_dev { "dev->ctl" } else { "ctl->dev" }, d.pair, d.w.exch_id, d.w.opcode, d.w.ctr, d.w.ack, d.w.payload.len());
            }
        }
        eprintln!("alive at T_quiet: {:?}", obs.alive);
    }

    if obs.adv.0 > 0 {
        labels.insert("typed-loss".into());
    }
    let big_burst = |o: &Op| matches!(o, Op::Burst { count, .. } if *count > 16);
    if sc.ops.iter().any(|(_, o)| big_burst(o)) || sc.near_ops.iter().any(|(_, _, o)| big_burst(o)) || sc.subs.iter().any(|s| s.priming_ops.iter().any(|(_, o)| big_burst(o))) {
        labels.insert("table-overflow".into());
    }

    for (i, spec) in sc.subs.iter().enumerate() {
        let o = &obs.subs[i];
        let Some(out) = &o.outcome else {
            labels.insert("subscriber-never-started".into());
            continue;
        };
        let Some((sub_id, max_granted)) = out.subscribed else {
            labels.insert(if out.status.is_some() { "subscribe-refused" } else { "priming-failed" }.into());
            continue;
        };
        if out.error.is_some() {
            labels.insert("priming-failed".into());
            continue;
        }
        let min_us = spec.min_s as u64 * SEC;
        let max_us = max_granted as u64 * SEC;
        if max_granted != spec.max_s.max(40) {
            return Case::fail("subscribe-response:max-interval", format!("subscriber {i}: asked {} got {}", spec.max_s, max_granted));
        }
        let mine: Vec<&Attempt> = attempts.iter().filter(|a| a.sub_id == Some(sub_id)).collect();
        let Some(priming) = mine.iter().find(|a| a.priming) else {
            return Case::inconclusive(format!("no priming attempt on the tap for subscription {sub_id}"));
        };
        if !priming.resp_acked {
            // the subscriber holds a SubscribeResponse, but the device never learnt that it
            // arrived and gave the subscription up: not established
            labels.insert("subscribe-response-unacknowledged".into());
            continue;
        }
        let reports: Vec<&Attempt> = mine.iter().filter(|a| !a.priming).copied().collect();
        let primed_at = priming.confirmed_at.unwrap_or(priming.last_activity);
        let alive = obs.alive.contains(&sub_id);
        let sub_attrs: Vec<APath> = attrs_all.iter().filter(|p| spec.attrs.iter().any(|q| q.matches(p.0, p.1, p.2))).copied().collect();
        let wants_event = |p: &APath| spec.events.as_ref().is_some_and(|ev| ev.iter().any(|q| q.matches(p.0, p.1, p.2)));
        let refused_by_subscriber = obs.hub_log.iter().any(|r| r.sub_id == Some(sub_id) && matches!(r.reply, SubReply::Reject(_))) || reports.iter().any(|a| a.refused);
        // "confirmed" is read off the wire tap (the device's transport consumed the success
        // StatusResponse). A confirmation that arrives seconds after the report was started
        // races with the device's own transmit timeout (the exchange may have given up already,
        // which the tap cannot see): such an attempt counts as possibly unconfirmed.
        let any_unconfirmed = reports
            .iter()
            .any(|a| a.confirmed_at.map(|c| c > a.start() + 4 * SEC).unwrap_or(true));
        let tag = |s: &str| format!("{s} (subscriber {i}, subscription {sub_id}, min {} s, max {} s)", spec.min_s, max_granted);
        // is the sequential reporter provably kept busy by another subscriber's failing attempt?
        let others_failing = attempts.iter().any(|a| a.sub_id != Some(sub_id) && !a.priming && a.confirmed_at.is_none());

        // ---- non-trivial / labels
        let prime_span = (priming.start(), primed_at);
        for s in &obs.sets {
            let relevant = sub_attrs.contains(&s.path);
            if relevant && s.t_us >= prime_span.0 && s.t_us <= prime_span.1 {
                labels.insert("change-during-own-priming".into());
                nontrivial = true;
            }
            for a in &reports {
                let end = a.confirmed_at.unwrap_or(a.last_activity);
                if s.t_us >= a.start() && s.t_us <= end && a.start() != end {
                    if relevant {
                        labels.insert("change-during-own-report".into());
                        nontrivial = true;
                    }
                }
            }
            for a in attempts.iter().filter(|a| a.sub_id != Some(sub_id)) {
                let end = a.confirmed_at.unwrap_or(a.last_activity);
                if relevant && s.t_us >= a.start() && s.t_us <= end && a.start() != end && s.t_us > primed_at {
                    labels.insert(if a.priming { "change-during-other-priming" } else { "change-during-other-report" }.into());
                    nontrivial = true;
                }
            }
        }
        if priming.chunks.len() > 1 {
            labels.insert("chunked-priming".into());
        }
        if any_unconfirmed {
            labels.insert("attempt-unconfirmed".into());
        }
        if reports.windows(2).any(|w| w[0].confirmed_at.is_none()) {
            labels.insert("retry".into());
            nontrivial = true;
        }
        if refused_by_subscriber {
            labels.insert("refused-by-subscriber".into());
        }
        labels.insert(if alive { "alive-at-end" } else { "ended" }.into());

        // ---- retry with the same content
        for w in reports.windows(2) {
            let (a, b) = (w[0], w[1]);
            // (an attempt that was cut short before its last chunk shows only part of its content)
            let b_complete = b.chunks.last().is_some_and(|c| !c.more);
            if a.confirmed_at.is_none() && !a.refused && !a.ambiguous && b_complete {
                let lost_a: Vec<APath> = a.attr_set().difference(&b.attr_set()).copied().collect();
                let lost_e: Vec<u64> = a.event_set().difference(&b.event_set()).copied().collect();
                if !lost_a.is_empty() || !lost_e.is_empty() {
                    failures.push((
                        "retry:content-lost".into(),
                        tag(&format!(
                            "the attempt at {} was not confirmed, the next one at {} lacks attributes {:?} / events {:?}",
                            secs(a.start(), t0),
                            secs(b.start(), t0),
                            lost_a,
                            lost_e
                        )),
                        false,
                    ));
                    break;
                }
            }
        }

        // ---- no event twice after a confirmed delivery
        {
            let mut delivered: BTreeMap<u64, u64> = BTreeMap::new(); // number -> start of the confirmed attempt
            'dup: for a in mine.iter() {
                for e in a.event_set() {
                    if let Some(t) = delivered.get(&e) {
                        failures.push((
                            "event-duplicated".into(),
                            tag(&format!("event #{e} was delivered by the confirmed attempt at {} and sent again at {}", secs(*t, t0), secs(a.start(), t0))),
                            false,
                        ));
                        break 'dup;
                    }
                }
                if a.confirmed_at.is_some() {
                    for e in a.event_set() {
                        delivered.insert(e, a.start());
                    }
                }
            }
        }

        // ---- min interval
        {
            let mut prev: Option<(&Attempt, u64)> = Some((priming, priming.start()));
            for a in &reports {
                if let Some((p, p_start)) = prev {
                    if p.confirmed_at.is_some() && a.start() < p_start + min_us {
                        failures.push((
                            if p.priming { "timing:min-interval-after-priming" } else { "timing:min-interval" }.into(),
                            tag(&format!(
                                "{} started at {} (confirmed {}), the next report started at {}: {} ms apart",
                                if p.priming { "the priming report" } else { "a report" },
                                secs(p_start, t0),
                                secs(p.confirmed_at.unwrap_or(0), t0),
                                secs(a.start(), t0),
                                (a.start() - p_start) / 1000
                            )),
                            false,
                        ));
                        break;
                    }
                }
                prev = Some((a, a.start()));
            }
            // end-to-start reading of the minimum interval: observation only (hypothesis (e))
            if let Some(first) = reports.first() {
                if first.start() < primed_at + min_us {
                    labels.insert("obs:first-report-less-than-min-after-subscribe-response".into());
                }
            }
        }

        // ---- liveness
        let undisturbed = !any_unconfirmed && !refused_by_subscriber && !obs.session_lost[i];
        if undisturbed {
            let mut prev = primed_at;
            let mut ends: Vec<u64> = reports.iter().map(|a| a.start()).collect();
            if alive {
                ends.push(obs.t_end);
            } else {
                // it ended without a visible cause: reported below
            }
            for t in ends {
                if t > prev + max_us {
                    failures.push((
                        "timing:liveness-missed".into(),
                        tag(&format!(
                            "nothing was lost for this subscription, yet after the report / SubscribeResponse at {} the next report started only at {} ({} s later)",
                            secs(prev, t0),
                            if t == obs.t_end { format!("never (T_quiet {})", secs(t, t0)) } else { secs(t, t0) },
                            (t - prev) / SEC
                        )),
                        others_failing,
                    ));
                    break;
                }
                prev = t;
            }
            labels.insert("liveness-checked".into());
        }

        // ---- end of the subscription
        if !alive {
            if !(refused_by_subscriber || any_unconfirmed || obs.session_lost[i]) {
                failures.push((
                    "ended-without-cause".into(),
                    tag("the subscription is gone at T_quiet although every report was confirmed, nothing was refused and no session was lost"),
                    others_failing,
                ));
            }
        }
        {
            let mut last_ok = primed_at;
            for a in &reports {
                if a.start() > last_ok + max_us + 60 * SEC {
                    failures.push((
                        "timing:report-after-expiry".into(),
                        tag(&format!("last confirmed report / priming at {}, yet a report was started at {}", secs(last_ok, t0), secs(a.start(), t0))),
                        others_failing,
                    ));
                    break;
                }
                if a.confirmed_at.is_some() {
                    last_ok = a.start();
                }
            }
            if alive && obs.t_end > last_ok + max_us {
                // A report of this very subscription that was started in time and is still
                // waiting for its confirmation at T_quiet keeps the subscription out of the table
                // (the wait for a StatusResponse takes up to ~38 s): the overshoot is then caused
                // by that wait, not by the reporter's deadline - a separate (open) finding.
                let awaiting = reports
                    .last()
                    .map(|a| a.confirmed_at.is_none() && a.start() <= last_ok + max_us && obs.t_end <= a.start() + 45 * SEC)
                    .unwrap_or(false);
                failures.push((
                    if awaiting { "timing:alive-but-silent:own-report-awaiting-confirmation".into() } else { "timing:alive-but-silent".into() },
                    tag(&format!("the subscription is alive at T_quiet {} but its last confirmed report started at {}", secs(obs.t_end, t0), secs(last_ok, t0))),
                    others_failing,
                ));
            }
        }

        // ---- eventual delivery
        if alive {
            let mut view: BTreeMap<APath, Option<Vec<u8>>> = BTreeMap::new();
            let mut seen_events: BTreeSet<u64> = BTreeSet::new();
            let mut feed = |attrs: &[ReportItem], events: &[EventItem]| {
                for it in attrs {
                    if let Some(p) = concrete(&it.path) {
                        match &it.body {
                            ReportBody::Data { value: Val::Bytes(b), .. } => {
                                view.insert(p, Some(b.clone()));
                            }
                            _ => {
                                view.insert(p, None);
                            }
                        }
                    }
                }
                for e in events {
                    if let EventBody::Data { number, .. } = &e.body {
                        seen_events.insert(*number);
                    }
                }
            };
            feed(&out.attrs, &out.events);
            for r in obs.hub_log.iter().filter(|r| r.sub_id == Some(sub_id)) {
                feed(&r.attrs, &r.events);
            }
            for p in &sub_attrs {
                let cur = obs.final_values.get(p);
                let got = view.get(p).cloned().flatten();
                if cur != got.as_ref() {
                    let last_set = obs.sets.iter().rev().find(|s| s.path == *p);
                    failures.push((
                        "eventual:stale-attribute".into(),
                        tag(&format!(
                            "attribute {:?}: device value {:02x?} (set at {}), the subscriber last saw {:02x?}",
                            p,
                            cur.map(|v| &v[..4.min(v.len())]),
                            last_set.map(|s| secs(s.t_us, t0)).unwrap_or_else(|| "never".into()),
                            got.as_ref().map(|v| &v[..4.min(v.len())])
                        )),
                        false,
                    ));
                    break;
                }
            }
            for (n, t, p) in &emitted {
                if wants_event(p) && !seen_events.contains(n) {
                    failures.push(("eventual:missing-event".into(), tag(&format!("event #{n} {:?} emitted at {} never reached the subscriber", p, secs(*t, t0))), false));
                    break;
                }
            }
            labels.insert("eventual-checked".into());
        }
    }

    // A violation that is explained by the sequential reporter waiting for another subscriber's
    // failing report (head-of-line blocking) gets its own signature; anything else goes first.
    if let Some((sig, detail, _)) = failures.iter().find(|f| !f.2) {
        return Case::fail(sig.clone(), detail.clone());
    }
    if let Some((sig, detail, _)) = failures.first() {
        return Case::fail(format!("{sig}:behind-failing-subscriber"), format!("{detail}; meanwhile the reporter was waiting for the answer of another subscriber whose report was never confirmed"));
    }
    Case::pass(nontrivial).labels(labels)
}

// ---------------------------------------------------------------------------------------------
// Restart of the Interaction-Model layer with persisted subscriptions
// ---------------------------------------------------------------------------------------------

#[derive(Debug, Clone, PartialEq, Eq, Serialize, Deserialize)]
struct RestartCase {
    seed: u32,
    sched: Option<u64>,
    big: u8,
    sub: SubSpec,
    /// subscribe twice (the second request replaces the first subscription): the surviving
    /// subscription then has id 2
    resubscribe: bool,
    ops1: Vec<(u16, Op)>,
    restart_ms: u32,
    /// after the restart the subscriber can be reached / every datagram of the device is lost
    reachable: bool,
    ops2: Vec<(u16, Op)>,
    net: [Vec<NetAct>; 2],
}

fn restart_case() -> impl Strategy<Value = RestartCase> {
    (
        (any::<u32>(), prop_oneof![1 => Just(None), 3 => any::<u64>().prop_map(Some)], 0u8..3),
        sub_spec(false),
        any::<bool>(),
        prop::collection::vec((any::<u16>(), op()), 0..10),
        6_000u32..60_000,
        any::<bool>(),
        prop::collection::vec((any::<u16>(), op()), 0..10),
        (prop::collection::vec(net_act(), 0..12), prop::collection::vec(net_act(), 0..12)),
    )
        .prop_map(|((seed, sched, big), mut sub, resubscribe, ops1, restart_ms, reachable, ops2, (n0, n1))| {
            sub.start_ms %= 3_000;
            RestartCase { seed, sched, big, sub, resubscribe, ops1, restart_ms, reachable, ops2, net: [n0, n1] }
        })
}

fn check_restart(rc: &RestartCase) -> Case {
    vh::sim::reset_universe();
    let trace = std::env::var("C13B_TRACE").is_ok();
    let spec = node_spec(rc.big);
    let node = SynthNode::new(&spec);
    let rig = ImRig::new(rc.seed);
    let t0 = clock::now();
    let inst: Result<(), String> = rig.dev.with_state(|state| {
        state.fabrics.reset();
        for _ in 0..2u8 {
            state.fabrics.add_with_post_init(|_| Ok(())).map_err(|_| "cannot add fabric".to_string())?;
        }
        for i in 0..2u8 {
            let idx = NonZeroU8::new(i + 1).ok_or("idx")?;
            let fabric = state.fabrics.fabric_mut(idx).map_err(|_| "fabric vanished".to_string())?;
            fabric.acl_add(AclEntry::new(None, Privilege::ADMIN, AuthMode::Case)).map_err(|_| "acl_add".to_string())?;
        }
        Ok(())
    });
    if let Err(e) = inst {
        return Case::inconclusive(format!("install: {e}"));
    }
    let sh = Rc::new(Shared { pairs: RefCell::new(vec![0]), sids: RefCell::new(vec![0]), node_ids: vec![node_id_of(0)] });
    let who = Requester::Case { fab_idx: rc.sub.fab, node_id: node_id_of(0), cats: [0; 3] };
    let sid = match rig.plant(&who) {
        Ok(s) => s,
        Err(e) => return Case::inconclusive(format!("plant: {:?}", e.code())),
    };
    let restarted = Rc::new(Cell::new(false));
    {
        let (restarted, rc2) = (restarted.clone(), rc.clone());
        let mut idx = [0usize; 2];
        rig.net.set_adversary(move |s: &Sent| -> Actions {
            let d = if s.src == 0 { 0 } else { 1 };
            let i = idx[d];
            idx[d] += 1;
            if restarted.get() && !rc2.reachable && s.src == 0 {
                return vec![];
            }
            match rc2.net[d].get(i).cloned().unwrap_or(NetAct::Deliver) {
                NetAct::Deliver => vec![(0, s.bytes.clone())],
                NetAct::Drop => vec![],
                NetAct::Dup => vec![(0, s.bytes.clone()), (0, s.bytes.clone())],
                NetAct::Delay(ms) => vec![(ms as u64 * MS, s.bytes.clone())],
                NetAct::DupDelay(ms) => vec![(0, s.bytes.clone()), (ms as u64 * MS, s.bytes.clone())],
            }
        });
    }
    let world = World {
        rig: &*rig,
        node: &node,
        attrs: all_attrs(),
        events: all_events(),
        big: rc.big,
        counter: Cell::new(0),
        sets: RefCell::new(Vec::new()),
        emits: RefCell::new(Vec::new()),
    };
    let hub = SubscriberHub::new();
    let kv = vh::sim::MemKv::new();
    let outcome: RefCell<Option<ReadOutcome>> = RefCell::new(None);
    let first_outcome: RefCell<Option<ReadOutcome>> = RefCell::new(None);
    let sched = |salt: u64| match rc.sched {
        None => Sched::Fifo,
        Some(s) => Sched::Seeded(s ^ salt),
    };
    let max_s = rc.sub.max_s.max(40) as u64;
    let horizon2_ms = 60_000u64;
    let t_restart = rc.restart_ms as u64;
    let t_end_ms = t_restart + horizon2_ms + (max_s + 200) * 1000;
    let req = SubscribeReq {
        read: ReadReq {
            attrs: if rc.sub.attrs.is_empty() { None } else { Some(rc.sub.attrs.clone()) },
            events: rc.sub.events.clone(),
            fabric_filtered: true,
            dataver_filters: vec![],
            event_min: None,
        },
        keep_subscriptions: false,
        min_interval_s: rc.sub.min_s,
        max_interval_s: rc.sub.max_s,
    };

    // ---- phase 1
    let (stop1, done1, _) = {
        let mut futs: Vec<Pin<Box<dyn Future<Output = ()> + '_>>> = Vec::new();
        {
            let (rig, req, outcome, first_outcome, world) = (&rig, &req, &outcome, &first_outcome, &world);
            futs.push(Box::pin(async move {
                Timer::at(at(t0, rc.sub.start_ms as u64)).await;
                for round in 0..(if rc.resubscribe { 2 } else { 1 }) {
                    let Ok(mut ex) = rig.exchange(sid) else { return };
                    let mut on_chunk = |k: usize, _: &ReadOutcome| {
                        for (ck, op) in &rc.sub.priming_ops {
                            if *ck as usize == k {
                                world.apply(op);
                            }
                        }
                    };
                    let out = subscribe(&mut ex, req, &mut on_chunk).await;
                    if round == 0 && rc.resubscribe {
                        *first_outcome.borrow_mut() = Some(out);
                    } else {
                        *outcome.borrow_mut() = Some(out);
                    }
                }
            }));
        }
        {
            let (rig, world) = (&rig, &world);
            futs.push(Box::pin(async move {
                let mut acts: Vec<(u64, &Op)> = rc.ops1.iter().map(|(sel, op)| (pick(*sel, rc.restart_ms as usize) as u64, op)).collect();
                acts.sort_by_key(|a| a.0);
                for (t, op) in acts {
                    Timer::at(at(t0, t)).await;
                    world.apply(op);
                    rig.flush().await;
                }
                Timer::at(at(t0, t_restart)).await;
            }));
        }
        rig.run_sub(&node, sched(1), 4, t_restart / 1000 + 60, kv.clone(), None, false, &hub, 3, join_all(futs))
    };
    if stop1 == Stop::PollLimit {
        return Case::inconclusive("poll watchdog (phase 1)");
    }
    if !done1 {
        // the subscriber was still priming at the restart instant: cut it short there
    }
    // power cycle of the Interaction-Model layer at max(t_restart, end of phase 1)
    let t_restart_us = clock::now();
    restarted.set(true);
    // a reboot loses the sessions; a reachable subscriber is connected again right away (the rig
    // cannot run CASE: a fresh planted pair stands for it)
    rig.dev.with_state(|st| {
        let ids: Vec<u32> = st.verif_sessions().verif_snapshots().filter(|s| !s.reserved).map(|s| s.id).collect();
        for id in ids {
            st.verif_sessions_mut().remove(id);
        }
    });
    if rc.reachable {
        if let Err(e) = rig.plant(&who) {
            return Case::inconclusive(format!("plant: {:?}", e.code()));
        }
        sh.pairs.borrow_mut().push(0);
    }
    let state2 = new_im_state();
    let alive2: RefCell<BTreeSet<u32>> = RefCell::new(BTreeSet::new());
    let phase2_first_set = world.sets.borrow().len();
    let phase2_first_emit = world.emits.borrow().len();
    let (stop2, done2, startup_err) = {
        let (rig, world, alive2, state2) = (&rig, &world, &alive2, &state2);
        let driver = async move {
            let base = t_restart_us - t0;
            let mut acts: Vec<(u64, &Op)> = rc.ops2.iter().map(|(sel, op)| (base / MS + 1 + pick(*sel, horizon2_ms as usize) as u64, op)).collect();
            acts.sort_by_key(|a| a.0);
            for (t, op) in acts {
                Timer::at(at(t0, t)).await;
                world.apply(op);
                rig.flush().await;
            }
            Timer::at(at(t0, t_end_ms.max(base / MS + 1))).await;
            state2.subscriptions().verif_for_each_sub(|s, _| {
                alive2.borrow_mut().insert(s.id);
            });
        };
        rig.run_sub(&node, sched(2), 4, t_end_ms / 1000 + 120, kv.clone(), Some(&**state2), true, &hub, 3, driver)
    };
    if stop2 == Stop::PollLimit {
        return Case::inconclusive("poll watchdog (phase 2)");
    }
    if !done2 {
        return Case::inconclusive(format!("phase 2 did not finish (stop={stop2:?})"));
    }
    if let Some(e) = startup_err {
        return Case::fail("restart:startup-failed", format!("InteractionModel::startup() returned {e}"));
    }
    if rig.net.storm() {
        return Case::fail("datagram-storm", "more than 50000 datagrams");
    }

    // ---- analysis
    let (sent, consumed_by_dev) = rig.net.with_tap(|tap| {
        let mut sent = Vec::new();
        for s in &tap.sent {
            if let Some((pair, from_dev, w)) = decode_dg(&s.bytes, &sh) {
                sent.push(Dg { t_us: s.t_us, pair, from_dev, w });
            }
        }
        let mut cons = Vec::new();
        for c in &tap.consumed {
            if c.dst == 0 && !c.mutated {
                if let Some((pair, from_dev, w)) = decode_dg(&c.bytes, &sh) {
                    if !from_dev {
                        cons.push(Dg { t_us: c.t_us, pair, from_dev, w });
                    }
                }
            }
        }
        (sent, cons)
    });
    let obs = Obs {
        t0,
        t_heal: t_restart_us,
        t_end: t0 + t_end_ms * MS,
        subs: vec![],
        sets: world.sets.borrow().clone(),
        emits: world.emits.borrow().clone(),
        emitted: rig.emitted.borrow().clone(),
        hub_log: hub.log.borrow().clone(),
        oddities: hub.oddities.borrow().clone(),
        alive: alive2.borrow().clone(),
        final_values: BTreeMap::new(),
        sent,
        consumed_by_dev,
        session_lost: vec![false],
        adv: (0, 0, 0),
        pairs: vec![0],
    };
    let attempts = build_attempts(&obs);
    if trace {
        eprintln!("--- restart at {} (asked {}), reachable={}, T_end={}", secs(t_restart_us, t0), rc.restart_ms, rc.reachable, secs(obs.t_end, t0));
        for a in &attempts {
            eprintln!(
                "{} sub={:?} exch={} start={} chunks={} attrs={} events={:?} confirmed={:?}",
                if a.priming { "prime " } else { "report" },
                a.sub_id,
                a.exch,
                secs(a.start(), t0),
                a.chunks.len(),
                a.attr_set().len(),
                a.event_set(),
                a.confirmed_at.map(|t| secs(t, t0))
            );
        }
        eprintln!("table after restart at T_end: {:?}; kv keys {:?}", obs.alive, kv.snapshot().keys().collect::<Vec<_>>());
    }
    let mut labels: Vec<String> = vec![if rc.reachable { "reachable" } else { "unreachable" }.into()];
    let Some(out) = outcome.borrow().clone() else {
        return Case::pass(false).label("restart-during-priming");
    };
    let Some((old_id, max_granted)) = out.subscribed else {
        return Case::pass(false).label("priming-failed");
    };
    let primings: Vec<&Attempt> = attempts.iter().filter(|a| a.priming && a.sub_id == Some(old_id)).collect();
    if !primings.last().is_some_and(|p| p.resp_acked) {
        return Case::pass(false).label("subscribe-response-unacknowledged");
    }
    if attempts.iter().any(|a| !a.priming && a.start() < t_restart_us && a.confirmed_at.is_none()) {
        // something failed before the restart already: the subscription may legitimately be gone
        labels.push("failure-before-restart".into());
        return Case::pass(false).labels(labels);
    }
    let max_us = max_granted as u64 * SEC;
    let after: Vec<&Attempt> = attempts.iter().filter(|a| !a.priming && a.start() >= t_restart_us).collect();
    let tag = |s: &str| format!("{s} (subscription {old_id} before the restart at {}, min {} s, max {} s, {} report attempts after the restart)", secs(t_restart_us, t0), rc.sub.min_s, max_granted, after.len());
    if obs.alive.is_empty() {
        labels.push(if after.is_empty() { "not-resumed" } else { "resumed-then-ended" }.into());
        if rc.reachable && !after.is_empty() && after.iter().all(|a| a.confirmed_at.is_some()) {
            return Case::fail("restart:ended-without-cause", tag("the resumed subscription is gone at the end although every report was confirmed"));
        }
        return Case::pass(!after.is_empty()).labels(labels);
    }
    labels.push("resumed".into());
    if let Some(new_id) = after.first().and_then(|a| a.sub_id) {
        if new_id != old_id {
            labels.push("obs:resumed-subscription-id-differs".into());
        }
    }
    if !rc.reachable {
        return Case::fail(
            "restart:resumed-subscription-never-expires",
            tag(&format!("no datagram of the device got through after the restart, yet the resumed subscription is still in the table {} s after the restart", (obs.t_end - t_restart_us) / SEC)),
        );
    }
    // reachable: a report soon after the restart, then everything is delivered
    match after.first() {
        Some(a) if a.start() <= t_restart_us + max_us => {}
        other => {
            return Case::fail(
                "restart:no-report-after-restart",
                tag(&format!("first report after the restart: {:?}", other.map(|a| secs(a.start(), t0)))),
            )
        }
    }
    let mut prev: Option<&Attempt> = None;
    for a in &after {
        if let Some(p) = prev {
            if p.confirmed_at.is_some() && a.start() > p.start() + max_us && after.iter().all(|x| x.confirmed_at.is_some()) {
                return Case::fail("restart:liveness-missed", tag(&format!("reports at {} and {}", secs(p.start(), t0), secs(a.start(), t0))));
            }
        }
        prev = Some(a);
    }
    let sub_attrs: Vec<APath> = all_attrs().into_iter().filter(|p| rc.sub.attrs.iter().any(|q| q.matches(p.0, p.1, p.2))).collect();
    let mut view: BTreeMap<APath, Option<Vec<u8>>> = BTreeMap::new();
    let mut seen_events: BTreeSet<u64> = BTreeSet::new();
    {
        let mut feed = |attrs: &[ReportItem], events: &[EventItem]| {
            for it in attrs {
                if let Some(p) = concrete(&it.path) {
                    match &it.body {
                        ReportBody::Data { value: Val::Bytes(b), .. } => {
                            view.insert(p, Some(b.clone()));
                        }
                        _ => {
                            view.insert(p, None);
                        }
                    }
                }
            }
            for e in events {
                if let EventBody::Data { number, .. } = &e.body {
                    seen_events.insert(*number);
                }
            }
        };
        feed(&out.attrs, &out.events);
        for r in obs.hub_log.iter() {
            feed(&r.attrs, &r.events);
        }
    }
    for p in &sub_attrs {
        let cur = match node.value(p.0, p.1, p.2) {
            Some(Value::Scalar(v)) => Some(v),
            _ => None,
        };
        let got = view.get(p).cloned().flatten();
        if cur != got {
            let last_set = obs.sets.iter().rev().find(|s| s.path == *p);
            return Case::fail(
                "restart:stale-attribute",
                tag(&format!(
                    "attribute {:?}: device value {:02x?} (set at {}), the subscriber last saw {:02x?}",
                    p,
                    cur.as_ref().map(|v| &v[..4.min(v.len())]),
                    last_set.map(|s| secs(s.t_us, t0)).unwrap_or_else(|| "never".into()),
                    got.as_ref().map(|v| &v[..4.min(v.len())])
                )),
            );
        }
    }
    for (k, ((t, p), n)) in obs.emits.iter().zip(obs.emitted.iter()).enumerate() {
        let Ok(n) = n else { return Case::inconclusive("emit failed") };
        let wanted = rc.sub.events.as_ref().is_some_and(|ev| ev.iter().any(|q| q.matches(p.0, p.1, p.2)));
        if k >= phase2_first_emit && wanted && !seen_events.contains(n) {
            return Case::fail("restart:missing-event", tag(&format!("event #{n} {:?} emitted at {} after the restart never reached the subscriber", p, secs(*t, t0))));
        }
    }
    let nontrivial = obs.sets.len() > phase2_first_set || obs.sets.iter().any(|s| s.t_us < t_restart_us);
    let _ = first_outcome;
    Case::pass(nontrivial).labels(labels)
}

fn check(sc: &Scenario) -> Case {
    match run_scenario(sc) {
        Ok(obs) => analyse(sc, &obs),
        Err(c) => c,
    }
}

struct StderrLog;

impl log::Log for StderrLog {
    fn enabled(&self, _: &log::Metadata) -> bool {
        true
    }

    fn log(&self, r: &log::Record) {
        eprintln!("log   {:.3}s {} {}: {}", clock::now().saturating_sub(1_000_000_000) as f64 / 1e6, r.level(), r.target(), r.args());
    }

    fn flush(&self) {}
}

fn main() {
    if let Ok(l) = std::env::var("C13B_LOG") {
        static LOGGER: StderrLog = StderrLog;
        let _ = log::set_logger(&LOGGER);
        log::set_max_level(match l.as_str() {
            "debug" => log::LevelFilter::Debug,
            "trace" => log::LevelFilter::Trace,
            "warn" => log::LevelFilter::Warn,
            _ => log::LevelFilter::Info,
        });
    }
    let mut run = Run::new(
        "C13",
        "exploration",
        "L2 (end-to-end, simulator): a real InteractionModel over a synthetic 24-attribute / 12-event node, 1-3 long-lived subscribers (planted CASE sessions of 2 fabrics; min 0-5 s, max 10(->40)-600 s; concrete and wildcard attribute paths, optional event paths), an application timeline of set/burst(>16 distinct paths)/emit/periodic-set/all-changed at generated virtual times including the arrival of priming chunk k at a subscriber, a per-datagram network adversary (drop/duplicate/delay <= 5 s) plus typed total loss of the ReportData or of the StatusResponses of chosen report attempts, device-side session loss, subscriber re-connects, subscriber refusing a subscription; then all disturbed subscribers re-connect and the clock runs max(max interval)+120 s. Non-trivial: a subscribed attribute changes while that subscription's priming (first chunk .. SubscribeResponse) or report (first transmission .. confirmation) is in flight, or while another subscription's report / priming is in flight, or an unconfirmed report is retried; distinct = distinct serialized scenario",
    );
    run.assume("sessions are planted (no CASE handshake); a subscriber 're-connects' by a new planted session pair; the device cannot establish sessions on its own in the rig (no mDNS)");
    run.assume("fabrics are bare fabric-table entries with one ACL entry (CASE, Administer, any subject, any target)");
    run.assume("the tap is decrypted with the planted keys through rs-matter's own packet decoder (vh::sim::node::decode_wire); ReportData / StatusResponse / SubscribeResponse payloads are decoded by the harness' own TLV decoder");
    run.assume("a report attempt = one device-initiated exchange carrying ReportData; it is confirmed when the device's socket consumed a success StatusResponse for each chunk; 'start' = first transmission of its first chunk");
    run.assume("minimum interval is read start-to-start (device clock) between a confirmed attempt and the next one; the end-to-start reading is only a label");
    run.assume("'eventually' = by T_quiet = last disturbance + 1 s (re-connect) + max(max interval) + 120 s");
    run.assume("restart sub-check: the Interaction-Model layer (InteractionModelState: subscription table, event rings) is re-created and re-hydrated from the key-value store by InteractionModel::startup(); the device's sessions are removed and - if the subscriber is reachable - a fresh planted pair stands for the CASE session the device would establish; attribute values are kept by the application");
    run.assume("event rings (2048 octets per priority) never overflow with the <= 35 small events of a scenario");

    let n = run.cases(1500, 60_000);
    run.prop("calm", n, || scenario(false, 3), check);
    let n = run.cases(2500, 100_000);
    run.prop("faults", n, || scenario(true, 3), check);
    let n = run.cases(2000, 80_000);
    run.prop("overflow", n, || scenario_w(true, 3, true), check);
    let n = run.cases(800, 30_000);
    run.prop("restart", n, restart_case, check_restart);

    run.finish();
}
