//! C15 — A nonce is never used for two different messages.
//!
//! Re-uses the scenarios of C09 (reliable messaging on planted PASE/CASE sessions under loss,
//! duplication and delay, so that every message kind is retransmitted and acknowledgements arrive
//! between an original and its retransmission) and of C01 (CASE handshakes under loss, randomised
//! signing). Oracle on the wire tap: all datagrams with the same (sender, session, counter) are
//! byte-identical; first transmissions carry strictly increasing counters per secure session.
//! Plus id-allocator histories across the 16-bit wrap-around (hooks position the allocators).

#![allow(dead_code)]

#[path = "c01.rs"]
mod c01;
#[path = "c09.rs"]
mod c09;
#[path = "c13b.rs"]
mod c13b;

use std::cell::RefCell;

use proptest::prelude::*;
use serde::{Deserialize, Serialize};

use rs_matter::respond::Responder;
use rs_matter::sc::pase::PaseInitiator;
use rs_matter::sc::SecureChannel;
use rs_matter::transport::exchange::Exchange;
use rs_matter::transport::network::NoNetwork;
use rs_matter::transport::session::SessionMode;

use vh::sim::net::{node_addr, Net};
use vh::sim::node::{mk_crypto, new_matter, plant_pair, sessions, SessKind};
use vh::sim::nonce::check_tap;
use vh::sim::{clock, Exec, Sched, Stop, MS, SEC};
use vh::{Case, Run};

fn check_mrp(case: &c09::C09Case) -> Case {
    let out = match c09::simulate(case) {
        Ok(o) => o,
        Err(c) => return c,
    };
    // Every transmission of one application message (same protocol opcode = script step) is the
    // same datagram: a retransmission must not take a fresh counter either.
    let (ka, kb) = (out.planted.key_ab, out.planted.key_ba);
    let (na, nb) = (out.planted.a_node_id, out.planted.b_node_id);
    let mut per_step: std::collections::BTreeMap<(usize, u8), Vec<u8>> = Default::default();
    let mut differing: Option<(usize, u8)> = None;
    out.net.with_tap(|tap| {
        for s in &tap.sent {
            let w = if s.src == 0 {
                vh::sim::node::decode_wire(&s.bytes, Some(&ka), na)
            } else {
                vh::sim::node::decode_wire(&s.bytes, Some(&kb), nb)
            };
            if let Some(w) = w {
                if w.proto_id == 0x00F7 {
                    let e = per_step.entry((s.src, w.opcode)).or_insert_with(|| s.bytes.clone());
                    if *e != s.bytes {
                        differing.get_or_insert((s.src, w.opcode));
                    }
                }
            }
        }
    });
    if let Some((src, step)) = differing {
        return Case::fail(
            "nonce:retransmission-not-identical",
            format!("node {src} transmitted script step {step} as two different datagrams"),
        );
    }
    match check_tap(&out.net) {
        Err((sig, detail)) => Case::fail(sig, detail),
        Ok(rep) => {
            let mut labels = vec![format!("{:?}", case.kind)];
            if rep.retransmitted_groups > 0 {
                labels.push("retransmission".into());
            }
            // an acknowledgement consumed by the sender between two transmissions of one message
            Case::pass(rep.retransmitted_groups > 0 && case.kind != SessKind::Plain).labels(labels)
        }
    }
}

fn check_case(case: &c01::C01Case) -> Case {
    let post = |net: &Net, dev: &rs_matter::Matter<'static>, ctrl: &rs_matter::Matter<'static>| -> Case {
        // live session ids must be unique on each node
        for (name, m) in [("device", dev), ("controller", ctrl)] {
            let ss = sessions(m);
            let ids: Vec<u16> = ss
                .iter()
                .filter(|s| !matches!(s.mode, SessionMode::PlainText))
                .map(|s| s.local_sess_id)
                .collect();
            for i in 0..ids.len() {
                for j in 0..i {
                    if ids[i] == ids[j] {
                        return Case::fail(
                            "ids:duplicate-session-id",
                            format!("{name} holds two secure sessions with local session id {}", ids[i]),
                        );
                    }
                }
            }
        }
        match check_tap(net) {
            Err((sig, detail)) => Case::fail(sig, detail),
            Ok(rep) => Case::pass(rep.retransmitted_groups > 0)
                .label(if rep.retransmitted_groups > 0 { "retransmission" } else { "no-retransmission" }),
        }
    };
    c01::check_with(case, Some(&post))
}

// ------------------------------------------------------------------ Interaction Model traffic

/// The subscription scenarios of C13 (a device with up to three subscribers, reports, chunked
/// priming reads, status responses, subscribe responses; confirmations and reports lost, delayed
/// and duplicated): every datagram of one (sender, session, counter) decrypts to the same header
/// and plaintext, and new messages of a session carry increasing counters.
fn check_im(sc: &c13b::Scenario) -> Case {
    let obs = match c13b::run_scenario(sc) {
        Ok(o) => o,
        Err(_) => return Case::inconclusive("the subscription scenario did not run to its end"),
    };
    use std::collections::BTreeMap;
    let mut groups: BTreeMap<(u16, bool, u16, u32), (&vh::sim::node::Wire, usize)> = BTreeMap::new();
    let mut streams: BTreeMap<(u16, bool, u16), u32> = BTreeMap::new();
    let mut dev_retrans = 0usize;
    for d in &obs.sent {
        let key = (d.pair, d.from_dev, d.w.sess_id, d.w.ctr);
        match groups.get_mut(&key) {
            Some((first, n)) => {
                *n += 1;
                if d.from_dev && d.w.proto_id == 1 {
                    dev_retrans += 1;
                }
                if **first != d.w {
                    return Case::fail(
                        "nonce:im-retransmission-differs",
                        format!(
                            "{} of pair {} sent two different messages under session {:#x} counter {:#x}: [exch {:#x} proto {:#x} op {:#x} I={} R={} ack={:?} {} octets] and [exch {:#x} proto {:#x} op {:#x} I={} R={} ack={:?} {} octets]",
                            if d.from_dev { "the device" } else { "the subscriber" },
                            d.pair, d.w.sess_id, d.w.ctr,
                            first.exch_id, first.proto_id, first.opcode, first.initiator, first.reliable, first.ack, first.payload.len(),
                            d.w.exch_id, d.w.proto_id, d.w.opcode, d.w.initiator, d.w.reliable, d.w.ack, d.w.payload.len(),
                        ),
                    );
                }
            }
            None => {
                groups.insert(key, (&d.w, 1));
                let sk = (d.pair, d.from_dev, d.w.sess_id);
                let last = streams.get(&sk).copied();
                if let Some(last) = last {
                    if d.w.ctr.saturating_add(256) <= last {
                        return Case::fail(
                            "nonce:im-counter-went-backwards",
                            format!(
                                "{} of pair {}, session {:#x}: a new message carries counter {:#x} although {:#x} was already used",
                                if d.from_dev { "the device" } else { "the subscriber" },
                                d.pair, d.w.sess_id, d.w.ctr, last
                            ),
                        );
                    }
                }
                streams.insert(sk, last.map(|l| l.max(d.w.ctr)).unwrap_or(d.w.ctr));
            }
        }
    }
    Case::pass(dev_retrans > 0).label(if dev_retrans > 0 { "im-message-retransmitted" } else { "no-retransmission" })
}

// ------------------------------------------------------------------ exchange id allocator

#[derive(Debug, Clone, Serialize, Deserialize)]
struct ExchIdCase {
    /// the allocator is positioned `back` ids before the id of a live exchange
    back: u16,
    /// how many exchanges are then opened; `keep[i]` = keep it open (at most 3 are kept)
    keep: Vec<bool>,
    /// second session on the same node
    two_sessions: bool,
    seed: u32,
    /// the long-lived exchange has been dropped by its owner while its reliable message is still
    /// unacknowledged: it lingers in the table (retransmitting, receiving under its id)
    #[serde(default)]
    lingering: bool,
}

fn exch_id_strategy() -> impl Strategy<Value = ExchIdCase> {
    (
        prop_oneof![3 => 0u16..6, 1 => 6u16..40],
        prop::collection::vec(prop::bool::weighted(0.3), 1..24),
        any::<bool>(),
        any::<u32>(),
        prop::bool::weighted(0.4),
    )
        .prop_map(|(back, keep, two_sessions, seed, lingering)| ExchIdCase {
            back,
            keep,
            two_sessions,
            seed,
            lingering,
        })
}

fn live_initiator_ids(m: &rs_matter::Matter<'_>) -> Vec<(u32, u16)> {
    let mut out = Vec::new();
    for s in sessions(m) {
        for e in s.exchanges.iter().flatten() {
            if e.initiator {
                out.push((s.id, e.exch_id));
            }
        }
    }
    out
}

fn check_exch_ids(case: &ExchIdCase) -> Case {
    vh::sim::reset_universe();
    let net = Net::new(2);
    let ca = mk_crypto(case.seed);
    let cb = mk_crypto(case.seed ^ 0xabcd);
    let a = new_matter(5540);
    let b = new_matter(5541);
    let p1 = match plant_pair(&a, &ca, node_addr(0), &b, &cb, node_addr(1), SessKind::Case, 0x11, 0x22, 3) {
        Ok(p) => p,
        Err(e) => return Case::inconclusive(format!("plant: {e:?}")),
    };
    let p2 = if case.two_sessions {
        match plant_pair(&a, &ca, node_addr(0), &b, &cb, node_addr(1), SessKind::Pase, 0x33, 0x44, 9) {
            Ok(p) => Some(p),
            Err(e) => return Case::inconclusive(format!("plant: {e:?}")),
        }
    } else {
        None
    };

    let mut verdict: Option<Case> = None;
    let mut wrapped = false;
    {
        let mut ex = Exec::new(Sched::Fifo);
        ex.add_time_source(&net);
        ex.spawn("a.run", async {
            let _ = a.run(&ca, net.end(0), net.end(0), NoNetwork).await;
        });
        ex.spawn("b.run", async {
            let _ = b.run(&cb, net.end(1), net.end(1), NoNetwork).await;
        });
        // the long-lived exchange
        let e0 = match Exchange::initiate_for_session(&a, &ca, p1.a_internal) {
            Ok(e) => e,
            Err(e) => return Case::inconclusive(format!("initiate: {e:?}")),
        };
        let ids0 = live_initiator_ids(&a);
        let Some((_, x0)) = ids0.first().copied() else {
            return Case::inconclusive("no exchange id visible");
        };
        let mut e0 = Some(e0);
        if case.lingering {
            // the peer's reliable answer arrives, the owner consumes it and drops the exchange
            // before anything went out: an acknowledgement is owed, the exchange lingers
            let Some(bytes) = vh::sim::node::craft_secured(&p1.key_ba, p1.b_node_id, p1.a_sess_id, 0x0000_2000, x0, false, true, 0x00F7, 2, &[9, 9, 9])
            else {
                return Case::inconclusive("cannot craft the peer's message");
            };
            if let Some(mut e) = e0.take() {
                let owner = ex.spawn("a.e0", async move {
                    let _ = e.recv().await;
                    core::future::pending::<()>().await;
                });
                net.inject(0, node_addr(1), bytes);
                ex.run_for(5 * MS);
                ex.kill(owner);
            }
            let lingering = sessions(&a).iter().any(|s| s.exchanges.iter().flatten().any(|e| e.initiator && e.exch_id == x0 && e.state == 2));
            if !lingering {
                return Case::inconclusive("the dropped exchange did not linger");
            }
        }
        a.with_state(|s| s.verif_sessions_mut().verif_set_next_exch_id(x0.wrapping_sub(case.back)));
        let mut kept: Vec<Exchange<'_>> = Vec::new();
        for (i, keep) in case.keep.iter().enumerate() {
            let sid = match (&p2, i % 2) {
                (Some(p2), 1) => p2.a_internal,
                _ => p1.a_internal,
            };
            match Exchange::initiate_for_session(&a, &ca, sid) {
                Ok(e) => {
                    let ids = live_initiator_ids(&a);
                    for x in 0..ids.len() {
                        for y in 0..x {
                            if ids[x].1 == ids[y].1 {
                                let same_session = ids[x].0 == ids[y].0;
                                verdict.get_or_insert_with(|| {
                                    Case::fail(
                                        if same_session { "ids:duplicate-exchange-id" } else { "ids:duplicate-exchange-id-across-sessions" },
                                        format!(
                                            "after opening exchange #{i} (allocator positioned {} before live id {x0:#x}): two live initiator exchanges carry id {:#x} (sessions {} and {})",
                                            case.back, ids[x].1, ids[x].0, ids[y].0
                                        ),
                                    )
                                });
                            }
                        }
                    }
                    if i as u16 >= case.back && (!case.lingering || ids.iter().any(|(_, x)| *x == x0)) {
                        wrapped = true;
                    }
                    if *keep && kept.len() < 3 {
                        kept.push(e);
                    } else {
                        drop(e);
                    }
                }
                Err(_) => {
                    // table full for that session: legitimate
                }
            }
            if verdict.is_some() {
                break;
            }
            // (the transport does not get to run while a dropped exchange lingers: everything
            // below happens before its next turn)
            if !case.lingering && ex.run_for(300 * MS) == Stop::PollLimit {
                return Case::inconclusive("poll watchdog");
            }
        }
        drop(kept);
        drop(e0);
        ex.run_for(500 * MS);
    }
    verdict.unwrap_or_else(|| {
        Case::pass(wrapped)
            .label(if wrapped { "allocator-passed-live-id" } else { "not-reached" })
            .label(if case.lingering { "live-exchange-dropped-but-lingering" } else { "live-exchange-owned" })
    })
}

// ------------------------------------------------------------------ session id allocator

#[derive(Debug, Clone, Serialize, Deserialize)]
struct SessIdCase {
    back: u16,
    handshakes: u8,
    seed: u32,
    /// the live session has been marked expired (e.g. it carried a RemoveFabric) but still
    /// serves an open exchange: it stays in the table and keeps receiving under its id
    #[serde(default)]
    expired_but_in_use: bool,
}

fn sess_id_strategy() -> impl Strategy<Value = SessIdCase> {
    (0u16..4, 1u8..4, any::<u32>(), any::<bool>()).prop_map(|(back, handshakes, seed, expired_but_in_use)| SessIdCase {
        back,
        handshakes,
        seed,
        expired_but_in_use,
    })
}

fn check_sess_ids(case: &SessIdCase) -> Case {
    vh::sim::reset_universe();
    let n = case.handshakes as usize;
    let net = Net::new(2 + n);
    let cd = mk_crypto(case.seed);
    let device = new_matter(5540);
    let peer = new_matter(5541);
    let cp = mk_crypto(case.seed ^ 0x77);
    let inits: Vec<_> = (0..n).map(|i| new_matter(5542 + i as u16)).collect();
    let cis: Vec<_> = (0..n).map(|i| mk_crypto(case.seed.wrapping_add(1000 + i as u32))).collect();
    // a live CASE session on the device with a known local id
    const LIVE: u16 = 0x0123;
    let planted = match plant_pair(&device, &cd, node_addr(0), &peer, &cp, node_addr(1), SessKind::Case, LIVE, 0x0456, 5) {
        Ok(p) => p,
        Err(e) => return Case::inconclusive(format!("plant: {e:?}")),
    };
    // an exchange of the device's own keeps the session in use
    let _held = if case.expired_but_in_use {
        let held = match Exchange::initiate_for_session(&device, &cd, planted.a_internal) {
            Ok(e) => e,
            Err(e) => return Case::inconclusive(format!("initiate on the live session: {:?}", e.code())),
        };
        let fab = sessions(&device).iter().find(|s| s.id == planted.a_internal).and_then(|s| match s.mode {
            SessionMode::Case { fab_idx, .. } => Some(fab_idx),
            _ => None,
        });
        let Some(fab) = fab else { return Case::inconclusive("planted session not found") };
        device.with_state(|s| s.verif_sessions_mut().remove_for_fabric(fab, Some(planted.a_internal)));
        if !sessions(&device).iter().any(|s| s.id == planted.a_internal && s.expired) {
            return Case::inconclusive("could not mark the session expired");
        }
        Some(held)
    } else {
        None
    };
    device.with_state(|s| s.verif_sessions_mut().verif_set_next_sess_id(LIVE.wrapping_sub(case.back)));
    let result: RefCell<Option<bool>> = RefCell::new(None);
    let mut verdict = None;
    let mut established = 0;
    {
        let sc = SecureChannel::new(&cd, &());
        let responder = Responder::new("device", sc, &device, 0);
        let mut ex = Exec::new(Sched::Fifo);
        ex.add_time_source(&net);
        ex.spawn("dev.run", async {
            let _ = device.run(&cd, net.end(0), net.end(0), NoNetwork).await;
        });
        ex.spawn("dev.resp", async {
            let _ = responder.run::<2>().await;
        });
        for i in 0..n {
            let (m, c, e) = (&inits[i], &cis[i], net.end(2 + i));
            ex.spawn("init.run", async move {
                let _ = m.run(c, e, e, NoNetwork).await;
            });
        }
        if device.open_basic_comm_window(900, &cd, &()).is_err() {
            return Case::inconclusive("cannot open window");
        }
        for i in 0..n {
            *result.borrow_mut() = None;
            let (m, c, res) = (&inits[i], &cis[i], &result);
            let t = ex.spawn("pase", async move {
                let r = async {
                    let exch = Exchange::initiate_plaintext(m, c, node_addr(0)).await?;
                    PaseInitiator::perform(exch, c, 20202021).await
                }
                .await;
                *res.borrow_mut() = Some(r.is_ok());
            });
            let dl = clock::now() + 30 * SEC;
            if ex.run_until(dl, || result.borrow().is_some()) == Stop::PollLimit {
                return Case::inconclusive("poll watchdog");
            }
            ex.kill(t);
            ex.run_for(200 * MS);
            if *result.borrow() == Some(true) {
                established += 1;
            }
            let ids: Vec<u16> = sessions(&device)
                .iter()
                .filter(|s| !matches!(s.mode, SessionMode::PlainText))
                .map(|s| s.local_sess_id)
                .collect();
            for x in 0..ids.len() {
                for y in 0..x {
                    if ids[x] == ids[y] {
                        verdict.get_or_insert_with(|| {
                            Case::fail(
                                "ids:duplicate-session-id",
                                format!("after handshake {i}: two secure sessions on the device share local session id {:#x} (allocator positioned {} before it)", ids[x], case.back),
                            )
                        });
                    }
                }
            }
        }
    }
    verdict.unwrap_or_else(|| Case::pass(established as u16 > case.back).label(format!("established-{established}")).label(if case.expired_but_in_use { "live-session-expired-but-in-use" } else { "live-session-plain" }))
}

fn main() {
    let mut run = Run::new(
        "C15",
        "exploration",
        "wire-tap invariant over the scenarios of C09 (planted PASE/CASE/plaintext sessions, scripts of reliable messages under drop/duplicate/delay plans) C01 (CASE handshakes, cold and resumed, under loss and message mutation, half of them with randomised signing) and C13 (a device reporting to up to three subscribers: priming reads, chunked reports, status and subscribe responses under loss, delay and duplication): every group of datagrams with the same (sender, destination, session id, counter) is byte-identical and first transmissions carry strictly increasing counters per secure session; plus allocator histories in which the exchange-id / session-id allocator is positioned (hook) just before the id of a live exchange / session and must skip it. Non-trivial: at least one counter was transmitted more than once on a secure session (mrp), at least one retransmitted handshake message (case), at least one retransmitted Interaction Model message of the device (im), the allocator actually passed the live id (ids); distinct = distinct serialized case",
    );
    run.assume("the tap records datagrams as the stacks sent them (before the adversary alters them)");
    run.assume("session ids are not reused within one scenario (16-bit allocator, at most a handful of sessions)");
    run.assume("Interaction Model messages are compared after decryption with the planted session keys (header fields and plaintext), which is what the nonce rule is about");
    let n = run.cases(30_000, 1_500_000);
    run.prop("mrp-nonce", n, c09::case_strategy, check_mrp);
    let n = run.cases(2_000, 100_000);
    run.prop("case-handshake-nonce", n, c01::case_strategy, check_case);
    let n = run.cases(3_000, 60_000);
    run.prop("im-traffic-nonce", n, || c13b::scenario(true, 3), check_im);
    let n = run.cases(3_000, 100_000);
    run.prop("exchange-id-allocator", n, exch_id_strategy, check_exch_ids);
    let n = run.cases(300, 10_000);
    run.prop("session-id-allocator", n, sess_id_strategy, check_sess_ids);
    run.finish();
}
