//! C02 — PASE admits only a peer that knows the passcode, only while a window is open.
//!
//! A real device stack (SecureChannel responder) and up to two real initiator stacks run PASE
//! handshakes over the simulated network. The generated case chooses passcodes, window
//! operations placed between handshake messages, start times around the window expiry, a
//! message-level mutation (bit flips in values, hostile curve points, truncation, replay) and a
//! loss/duplication/delay plan. The oracle is computed from generator ground truth and from what
//! the stacks actually consumed (wire tap), never from what the adversary merely tried.

use std::cell::RefCell;
use std::collections::HashMap;

use proptest::prelude::*;
use serde::{Deserialize, Serialize};

use rs_matter::sc::pase::{Spake2pVerifierPassword, Spake2pVerifierPasswordRef};
use rs_matter::dm::devices::test::{TEST_DEV_ATT, TEST_DEV_DET};
use rs_matter::respond::Responder;
use rs_matter::sc::pase::PaseInitiator;
use rs_matter::sc::{OpCode, SecureChannel, PROTO_ID_SECURE_CHANNEL};
use rs_matter::transport::exchange::Exchange;
use rs_matter::transport::network::NoNetwork;
use rs_matter::transport::session::SessionMode;
use rs_matter::transport::network::MatterLocalService;
use rs_matter::{BasicCommData, Matter};

use vh::sim::adv::{self, Act, Plan};
use vh::sim::mutate::{self, Class, Mutation};
use vh::sim::net::{node_addr, Actions, Net, Sent};
use vh::sim::node::{mk_crypto, sessions};
use vh::sim::{clock, Exec, Sched, Stop, MS, SEC};
use vh::{Case, Run};

const OP_PBKDF_REQ: u8 = OpCode::PBKDFParamRequest as u8;
const OP_PBKDF_RESP: u8 = OpCode::PBKDFParamResponse as u8;
const OP_PAKE1: u8 = OpCode::PASEPake1 as u8;
const OP_PAKE2: u8 = OpCode::PASEPake2 as u8;
const OP_PAKE3: u8 = OpCode::PASEPake3 as u8;
const OP_STATUS: u8 = OpCode::StatusReport as u8;

#[derive(Debug, Clone, Serialize, Deserialize)]
enum Passcode {
    Right,
    Wrong(u32),
    OneBitOff(u8),
    /// the passcode of the enhanced (verifier) windows of this case (`C02Case::passcode2`)
    Second,
}

#[derive(Debug, Clone, Serialize, Deserialize)]
enum Start {
    /// ms after the window was opened
    AfterOpen(u32),
    /// ms relative to the window expiry (negative = before)
    AroundExpiry(i32),
}

#[derive(Debug, Clone, Serialize, Deserialize)]
struct Init {
    passcode: Passcode,
    start: Start,
}

#[derive(Debug, Clone, Serialize, Deserialize)]
enum WinOp {
    Close,
    CloseReopen,
    /// close, then open an *enhanced* window whose verifier belongs to another passcode
    /// (`C02Case::passcode2`)
    CloseReopenOther,
    /// nothing is closed: the datagram that triggers this is held back until 50 ms after the
    /// current window's expiry, and 10 ms after the expiry - before anybody has polled it - the
    /// application opens an enhanced window for another passcode (`C02Case::passcode2`), which
    /// the node may refuse (the expired window is still in place) or accept
    OpenOtherOverExpired,
}

#[derive(Debug, Clone, Serialize, Deserialize)]
struct WindowEvent {
    /// fire when the `nth` datagram carrying secure-channel opcode `opcode` is sent
    opcode: u8,
    nth: u8,
    op: WinOp,
}

#[derive(Debug, Clone, Serialize, Deserialize)]
struct C02Case {
    passcode: u32,
    timeout_s: u16,
    inits: Vec<Init>,
    events: Vec<WindowEvent>,
    mutation: Option<Mutation>,
    /// run one honest handshake first (and record its messages for `ReplayOld`)
    warmup: bool,
    plan: Plan,
    sched: Option<u64>,
    seed: u32,
    /// passcode of the enhanced windows opened by `WinOp::CloseReopenOther`
    #[serde(default)]
    passcode2: u32,
}

fn passcode_strategy() -> impl Strategy<Value = u32> {
    prop_oneof![Just(20202021u32), 1u32..99_999_998]
}

fn case_strategy() -> impl Strategy<Value = C02Case> {
    let init = (
        prop_oneof![
            5 => Just(Passcode::Right),
            2 => (1u32..99_999_998).prop_map(Passcode::Wrong),
            1 => (0u8..27).prop_map(Passcode::OneBitOff),
            1 => Just(Passcode::Second),
        ],
        prop_oneof![
            5 => (0u32..4000).prop_map(Start::AfterOpen),
            2 => (-9000i32..3000).prop_map(Start::AroundExpiry),
        ],
    )
        .prop_map(|(passcode, start)| Init { passcode, start });
    let event = (
        prop::sample::select(vec![OP_PBKDF_REQ, OP_PBKDF_RESP, OP_PAKE1, OP_PAKE2, OP_PAKE3]),
        0u8..3,
        prop_oneof![Just(WinOp::Close), Just(WinOp::CloseReopen), Just(WinOp::CloseReopenOther)],
    )
        .prop_map(|(opcode, nth, op)| WindowEvent { opcode, nth, op });
    let mutation = (
        prop::sample::select(vec![
            OP_PBKDF_REQ,
            OP_PBKDF_RESP,
            OP_PAKE1,
            OP_PAKE2,
            OP_PAKE3,
            OP_STATUS,
        ]),
        mutate::mut_kind(),
        prop::bool::weighted(0.7),
    )
        .prop_map(|(opcode, kind, consistent)| Mutation {
            opcode,
            kind,
            consistent,
        });
    (
        passcode_strategy(),
        prop_oneof![3 => Just(180u16), 1 => 180u16..=900],
        prop::collection::vec(init, 1..3),
        prop_oneof![3 => Just(vec![]), 2 => prop::collection::vec(event, 1..3)],
        prop_oneof![2 => Just(None), 3 => mutation.prop_map(Some)],
        prop::bool::weighted(0.3),
        prop_oneof![2 => Just(Plan::default()), 3 => adv::plan(10)],
        prop_oneof![1 => Just(None), 3 => any::<u64>().prop_map(Some)],
        any::<u32>(),
        1u32..99_999_998,
    )
        .prop_map(
            |(passcode, timeout_s, inits, events, mutation, warmup, plan, sched, seed, passcode2)| C02Case {
                passcode2: if passcode2 == passcode { passcode2 + 1 } else { passcode2 },
                passcode,
                timeout_s,
                inits,
                events,
                mutation,
                warmup,
                plan,
                sched,
                seed,
            },
        )
        .prop_flat_map(|c| {
            // one case in eight becomes the expiry race: an honest handshake started shortly
            // before the window runs out, whose Pake2 (or Pake3) is on the wire across the expiry
            // while the application opens a window for another passcode
            prop_oneof![
                7 => Just(c.clone()),
                1 => (20i32..4000, prop::sample::select(vec![OP_PAKE2, OP_PAKE3, OP_PBKDF_RESP]), any::<bool>()).prop_map(move |(before_ms, opcode, second)| {
                    let mut c = c.clone();
                    c.inits = vec![Init { passcode: if second { Passcode::Second } else { Passcode::Right }, start: Start::AroundExpiry(-before_ms) }];
                    c.events = vec![WindowEvent { opcode, nth: 0, op: WinOp::OpenOtherOverExpired }];
                    c.mutation = None;
                    c.warmup = false;
                    c.plan = Plan::default();
                    c
                }),
            ]
        })
}

fn dev_comm(passcode: u32) -> BasicCommData {
    BasicCommData {
        password: Spake2pVerifierPassword::new_from_ref(Spake2pVerifierPasswordRef::new(
            &passcode.to_le_bytes(),
        )),
        discriminator: 3840,
    }
}

/// SPAKE2+ verifier (w0 || L) of a passcode, computed with the stack's own crypto primitives
/// (PBKDF2, reduction mod the group order, w1 * G) the way the specification defines it.
fn verifier_for<C: rs_matter::crypto::Crypto>(crypto: &C, passcode: u32, salt: &[u8], iter: u32) -> Option<[u8; 97]> {
    use rs_matter::crypto::{CryptoSensitive, EcPoint, EcScalar, PbKdf};
    let pw = CryptoSensitive::<4>::new_from_ref(rs_matter::crypto::CryptoSensitiveRef::new(&passcode.to_le_bytes()));
    let mut w = CryptoSensitive::<80>::new();
    crypto.pbkdf().ok()?.derive(pw.reference(), iter as usize, salt, &mut w).ok()?;
    let (w0s, w1s) = w.reference().split::<40, 40>();
    let w0 = crypto.ec_scalar_mod_p(w0s).ok()?;
    let w1 = crypto.ec_scalar_mod_p(w1s).ok()?;
    let l = crypto.ec_generator_point().ok()?.mul(&w1).ok()?;
    let mut w0c = CryptoSensitive::<32>::new();
    w0.write_canon(&mut w0c).ok()?;
    let mut lc = CryptoSensitive::<65>::new();
    l.write_canon(&mut lc).ok()?;
    let mut out = [0u8; 97];
    out[..32].copy_from_slice(w0c.access());
    out[32..].copy_from_slice(lc.access());
    Some(out)
}

fn resolve_passcode_in(p: &Passcode, case: &C02Case) -> u32 {
    match p {
        Passcode::Second => case.passcode2,
        other => resolve_passcode(other, case.passcode),
    }
}

fn resolve_passcode(p: &Passcode, right: u32) -> u32 {
    match p {
        Passcode::Second => right, // resolved by `resolve_passcode_in`
        Passcode::Right => right,
        Passcode::Wrong(w) => {
            if *w == right {
                w.wrapping_add(1)
            } else {
                *w
            }
        }
        Passcode::OneBitOff(b) => right ^ (1 << (b % 27)),
    }
}

#[derive(Default)]
struct Shared {
    /// number of datagrams seen per SC opcode
    seen: HashMap<u8, u8>,
    /// window operations requested by the adversary hook, executed by the main loop
    pending_ops: Vec<WinOp>,
    /// operations to execute at a given virtual time
    timed_ops: Vec<(u64, WinOp)>,
    /// expiry of the window the harness opened last (0 = none / closed by the harness)
    expiry: u64,
    /// payloads of the warm-up handshake per opcode (for replay)
    recorded: HashMap<u8, Vec<u8>>,
    recording: bool,
    /// whether the one-shot mutation was already applied
    mutated_once: bool,
    /// origin seq -> class of the mutation applied to that datagram
    classes: HashMap<usize, Class>,
}

#[derive(Debug, Clone)]
struct WindowSpan {
    /// the passcode a peer has to know for this window
    passcode: u32,
    open_at: u64,
    /// time it was closed by an operation (None = never closed by the harness)
    closed_at: Option<u64>,
    expiry: u64,
}

fn window_open_at(spans: &[WindowSpan], t: u64, guard: u64) -> Option<bool> {
    // Some(true) = certainly open and unexpired, Some(false) = certainly not, None = too close
    let mut any_open = false;
    for s in spans {
        let end = s.closed_at.unwrap_or(u64::MAX).min(s.expiry);
        if t + guard >= s.open_at && t <= end.saturating_add(guard) {
            // inside or near this span
            if t >= s.open_at + guard && t + guard <= end {
                any_open = true;
            } else {
                return None;
            }
        }
    }
    Some(any_open)
}

fn check(case: &C02Case) -> Case {
    vh::sim::reset_universe();
    let n_init = case.inits.len();
    let net = Net::new(2 + n_init);
    let warm_node = 1 + n_init;
    let cd = mk_crypto(case.seed);
    let dev_comm_data = dev_comm(case.passcode);
    let device = Matter::new(&TEST_DEV_DET, dev_comm_data, &TEST_DEV_ATT, 5540);
    let inits: Vec<Matter<'static>> = (0..n_init).map(|i| vh::sim::node::new_matter(5541 + i as u16)).collect();
    let warm = vh::sim::node::new_matter(5600);
    let cwarm = mk_crypto(case.seed ^ 0x00c0_ffee);
    let cryptos: Vec<_> = (0..n_init)
        .map(|i| mk_crypto(case.seed.wrapping_mul(31).wrapping_add(1000 + i as u32)))
        .collect();

    let shared = std::rc::Rc::new(RefCell::new(Shared::default()));

    // ---------------------------------------------------------------- adversary
    {
        let shared = shared.clone();
        let plan = case.plan.clone();
        let events = case.events.clone();
        let mutation = case.mutation.clone();
        let mut idx = [0usize; 2];
        net.set_adversary(move |s: &Sent| -> Actions {
            let mut sh = shared.borrow_mut();
            let decoded = mutate::payload_offset(&s.bytes);
            let mut bytes = s.bytes.clone();
            let mut hold: Option<u64> = None;
            if let Some((w, _off)) = &decoded {
                if w.proto_id == PROTO_ID_SECURE_CHANNEL {
                    let n = sh.seen.entry(w.opcode).or_insert(0);
                    let nth = *n;
                    *n = n.saturating_add(1);
                    if sh.recording {
                        sh.recorded.entry(w.opcode).or_insert_with(|| w.payload.clone());
                    } else {
                        for e in &events {
                            if e.opcode == w.opcode && e.nth == nth {
                                if matches!(e.op, WinOp::OpenOtherOverExpired) {
                                    let now = clock::now();
                                    if sh.expiry > now && sh.expiry - now < 20 * SEC && hold.is_none() {
                                        let at = sh.expiry;
                                        sh.timed_ops.push((at + 10 * MS, e.op.clone()));
                                        hold = Some(at + 50 * MS - now);
                                    }
                                } else {
                                    sh.pending_ops.push(e.op.clone());
                                }
                            }
                        }
                        if let Some(m) = &mutation {
                            if m.opcode == w.opcode && (m.consistent || !sh.mutated_once) {
                                let bound = matches!(w.opcode, OP_PBKDF_REQ | OP_PBKDF_RESP);
                                let old = sh.recorded.get(&w.opcode).cloned();
                                let (nb, class) = mutate::apply(&s.bytes, &m.kind, old.as_deref(), bound);
                                if class != Class::None {
                                    sh.mutated_once = true;
                                    sh.classes.insert(s.seq, class);
                                    bytes = nb;
                                }
                            }
                        }
                    }
                }
            }
            if sh.recording {
                return vec![(0, bytes)];
            }
            if let Some(us) = hold {
                return vec![(us, bytes)];
            }
            let d = if s.src == 0 { 0 } else { 1 };
            let i = idx[d];
            idx[d] += 1;
            let mut act = plan.dir[d].get(i).cloned().unwrap_or(Act::Deliver);
            if let Some(from) = plan.blackhole_from[d] {
                if i >= from as usize {
                    act = Act::Drop;
                }
            }
            match act {
                Act::Deliver => vec![(0, bytes)],
                Act::Drop => vec![],
                Act::Dup(n) => (0..=n).map(|_| (0, bytes.clone())).collect(),
                Act::Delay(ms) => vec![(ms as u64 * MS, bytes)],
                Act::DupDelay(ms) => vec![(0, bytes.clone()), (ms as u64 * MS, bytes)],
            }
        });
    }

    // ---------------------------------------------------------------- scenario
    let results: Vec<RefCell<Option<(u64, bool)>>> = (0..n_init).map(|_| RefCell::new(None)).collect();
    let warm_result: RefCell<Option<bool>> = RefCell::new(None);
    let mut spans: Vec<WindowSpan> = Vec::new();
    // samples of (time, commissionable advertised?, window state open?)
    let mut adv_samples: Vec<(u64, bool, bool)> = Vec::new();
    // first time a PASE session for initiator i was observed on the device + its snapshot
    let mut dev_pase: Vec<Option<(u64, rs_matter::transport::session::verif::SessionSnapshot)>> = vec![None; n_init];
    let mut dev_reserved_at_end = 0usize;
    let mut failures: Vec<String> = Vec::new();
    let mut opened_over_expired = false;

    let sample = |device: &Matter, adv_samples: &mut Vec<(u64, bool, bool)>,
                  dev_pase: &mut Vec<Option<(u64, rs_matter::transport::session::verif::SessionSnapshot)>>| {
        let mut listed = false;
        let _ = device.mdns_services(|s| {
            if matches!(s, MatterLocalService::Commissionable { .. }) {
                listed = true;
            }
            Ok(())
        });
        adv_samples.push((clock::now(), listed, device.comm_window_state().is_open()));
        for s in sessions(device) {
            if matches!(s.mode, SessionMode::Pase { .. }) && !s.reserved {
                for i in 0..dev_pase.len() {
                    if s.peer_addr == node_addr(1 + i) && dev_pase[i].is_none() {
                        dev_pase[i] = Some((clock::now(), s.clone()));
                    }
                }
            }
        }
    };

    let open_window = |device: &Matter, spans: &mut Vec<WindowSpan>| -> Result<(), String> {
        device
            .open_basic_comm_window(case.timeout_s, &cd, &())
            .map_err(|e| format!("open_basic_comm_window: {:?}", e.code()))?;
        let now = clock::now();
        spans.push(WindowSpan {
            passcode: case.passcode,
            open_at: now,
            closed_at: None,
            expiry: now + case.timeout_s as u64 * SEC,
        });
        Ok(())
    };
    let open_other_window = |device: &Matter, spans: &mut Vec<WindowSpan>| -> Result<(), String> {
        let salt = [0x5au8; 32];
        let iter = 1000u32;
        let v = verifier_for(&cd, case.passcode2, &salt, iter).ok_or("verifier computation failed")?;
        device
            .with_state(|st| {
                st.verif_pase_mut().open_comm_window(
                    0x1122_3344_5566_7788,
                    rs_matter::crypto::CryptoSensitiveRef::new(&v),
                    &salt,
                    iter,
                    3841,
                    case.timeout_s,
                    None,
                    || {},
                    |_, _| {},
                )
            })
            .map_err(|e| format!("open_comm_window: {:?}", e.code()))?;
        let now = clock::now();
        spans.push(WindowSpan {
            passcode: case.passcode2,
            open_at: now,
            closed_at: None,
            expiry: now + case.timeout_s as u64 * SEC,
        });
        Ok(())
    };

    let stop_reason;
    {
        let sc = SecureChannel::new(&cd, &());
        let responder = Responder::new("device", sc, &device, 0);
        let mut ex = Exec::new(match case.sched {
            None => Sched::Fifo,
            Some(s) => Sched::Seeded(s),
        });
        ex.add_time_source(&net);
        ex.spawn("dev.run", async {
            let _ = device.run(&cd, net.end(0), net.end(0), NoNetwork).await;
        });
        ex.spawn("dev.resp", async {
            let _ = responder.run::<3>().await;
        });
        for i in 0..n_init {
            let m = &inits[i];
            let c = &cryptos[i];
            let e = net.end(1 + i);
            ex.spawn(&format!("init{i}.run"), async move {
                let _ = m.run(c, e, e, NoNetwork).await;
            });
        }

        if case.warmup {
            let (m, c, e) = (&warm, &cwarm, net.end(warm_node));
            ex.spawn("warm.run", async move {
                let _ = m.run(c, e, e, NoNetwork).await;
            });
        }

        if let Err(e) = open_window(&device, &mut spans) {
            return Case::inconclusive(e);
        }

        // Warm-up: one honest handshake from a dedicated node, recorded for replay.
        if case.warmup {
            shared.borrow_mut().recording = true;
            let m = &warm;
            let c = &cwarm;
            let pc = case.passcode;
            let wr = &warm_result;
            let t = ex.spawn("warmup", async move {
                let r = async {
                    let exch = Exchange::initiate_plaintext(m, c, node_addr(0)).await?;
                    PaseInitiator::perform(exch, c, pc).await
                }
                .await;
                *wr.borrow_mut() = Some(r.is_ok());
            });
            let dl = clock::now() + 40 * SEC;
            ex.run_until(dl, || warm_result.borrow().is_some());
            ex.kill(t);
            if *warm_result.borrow() != Some(true) {
                return Case::fail(
                    "warmup:honest-handshake-failed",
                    "an undisturbed PASE handshake with the right passcode and an open window failed".to_string(),
                );
            }
            ex.run_for(500 * MS);
            {
                let mut sh = shared.borrow_mut();
                sh.recording = false;
                sh.seen.clear();
            }
            // the PASE success auto-armed the fail-safe and the window may be consumed:
            // make sure a window is open for the attacked run
            if !device.comm_window_state().is_open() {
                if let Some(l) = spans.last_mut() {
                    l.closed_at.get_or_insert(clock::now());
                }
                if let Err(e) = open_window(&device, &mut spans) {
                    return Case::inconclusive(e);
                }
            }
        }

        // Timed starts of the initiators.
        let base_open = spans.last().unwrap().open_at;
        let base_expiry = spans.last().unwrap().expiry;
        let mut starts: Vec<(u64, usize)> = case
            .inits
            .iter()
            .enumerate()
            .map(|(i, ini)| {
                let t = match ini.start {
                    Start::AfterOpen(ms) => base_open + ms as u64 * MS,
                    Start::AroundExpiry(ms) => (base_expiry as i64 + ms as i64 * MS as i64) as u64,
                };
                (t.max(clock::now()), i)
            })
            .collect();
        starts.sort();
        let last_start = starts.last().map(|s| s.0).unwrap_or(clock::now());
        let end_of_run = last_start + 45 * SEC;
        let mut next_sample = clock::now();
        let mut started = 0usize;

        loop {
            // next timed event
            let mut deadline = end_of_run;
            if started < starts.len() {
                deadline = deadline.min(starts[started].0);
            }
            deadline = deadline.min(next_sample);
            if let Some(t) = shared.borrow().timed_ops.iter().map(|(t, _)| *t).min() {
                deadline = deadline.min(t.max(clock::now()));
            }
            shared.borrow_mut().expiry = spans.last().map(|l| if l.closed_at.is_some() { 0 } else { l.expiry }).unwrap_or(0);
            let st = ex.run_until(deadline, || !shared.borrow().pending_ops.is_empty());
            if st == Stop::PollLimit {
                stop_reason = Some("poll watchdog".to_string());
                break;
            }
            // window operations requested by the adversary hook
            let ops: Vec<WinOp> = std::mem::take(&mut shared.borrow_mut().pending_ops);
            for op in ops {
                let was_open = device.comm_window_state().is_open();
                let _ = device.close_comm_window(&());
                if was_open {
                    if let Some(l) = spans.last_mut() {
                        l.closed_at.get_or_insert(clock::now());
                    }
                }
                if matches!(op, WinOp::CloseReopen) {
                    if let Err(e) = open_window(&device, &mut spans) {
                        failures.push(e);
                    }
                }
                if matches!(op, WinOp::CloseReopenOther) {
                    if let Err(e) = open_other_window(&device, &mut spans) {
                        failures.push(e);
                    }
                }
            }
            // timed operations that are due
            let due: Vec<WinOp> = {
                let mut sh = shared.borrow_mut();
                let now = clock::now();
                let (due, later): (Vec<_>, Vec<_>) = std::mem::take(&mut sh.timed_ops).into_iter().partition(|(t, _)| *t <= now);
                sh.timed_ops = later;
                due.into_iter().map(|(_, op)| op).collect()
            };
            for op in due {
                if matches!(op, WinOp::OpenOtherOverExpired) {
                    // (refused with Busy while the expired window is still in place: fine)
                    if open_other_window(&device, &mut spans).is_ok() {
                        opened_over_expired = true;
                    }
                }
            }
            let now = clock::now();
            while started < starts.len() && starts[started].0 <= now {
                let i = starts[started].1;
                started += 1;
                let m = &inits[i];
                let c = &cryptos[i];
                let pc = resolve_passcode_in(&case.inits[i].passcode, case);
                let res = &results[i];
                ex.spawn(&format!("init{i}.pase"), async move {
                    let r = async {
                        let exch = Exchange::initiate_plaintext(m, c, node_addr(0)).await?;
                        PaseInitiator::perform(exch, c, pc).await
                    }
                    .await;
                    *res.borrow_mut() = Some((clock::now(), r.is_ok()));
                });
            }
            if now >= next_sample {
                sample(&device, &mut adv_samples, &mut dev_pase);
                next_sample = now + 500 * MS;
            }
            if now >= end_of_run {
                stop_reason = None;
                break;
            }
        }
        sample(&device, &mut adv_samples, &mut dev_pase);
        for s in sessions(&device) {
            if s.reserved {
                dev_reserved_at_end += 1;
            }
        }
    }
    if let Some(r) = stop_reason {
        return Case::inconclusive(r);
    }
    if let Some(f) = failures.first() {
        return Case::inconclusive(f.clone());
    }

    // ---------------------------------------------------------------- oracle
    let sh = shared.borrow();
    let mut labels: Vec<String> = Vec::new();
    let mut nontrivial = false;
    if case.events.iter().any(|e| matches!(e.op, WinOp::OpenOtherOverExpired)) {
        labels.push(if opened_over_expired { "expiry-race:window-opened-over-the-expired-one" } else { "expiry-race:opening-refused-or-not-reached" }.into());
    }

    // Decode the tap: original datagrams and first consumed copy per (receiver, sender, counter)
    struct Orig {
        src: usize,
        dst: Option<usize>,
        opcode: u8,
        ctr: u32,
        sc: bool,
    }
    let origs: Vec<Option<Orig>> = net.with_tap(|t| {
        t.sent
            .iter()
            .map(|s| {
                mutate::payload_offset(&s.bytes).map(|(w, _)| Orig {
                    src: s.src,
                    dst: s.dst,
                    opcode: w.opcode,
                    ctr: w.ctr,
                    sc: w.proto_id == PROTO_ID_SECURE_CHANNEL,
                })
            })
            .collect()
    });
    // first consumed copy of each (dst, src, ctr): (time, mutated?, origin seq)
    let mut first: HashMap<(usize, usize, u32), (u64, bool, usize)> = HashMap::new();
    net.with_tap(|t| {
        for c in &t.consumed {
            if let Some(o) = c.origin {
                if let Some(Some(orig)) = origs.get(o) {
                    first
                        .entry((c.dst, orig.src, orig.ctr))
                        .or_insert((c.t_us, c.mutated, o));
                }
            }
        }
    });

    let pbkdf_answered = origs
        .iter()
        .flatten()
        .any(|o| o.src == 0 && o.sc && o.opcode == OP_PBKDF_RESP);

    for i in 0..n_init {
        let node = 1 + i;
        let pc_i = resolve_passcode_in(&case.inits[i].passcode, case);
        // "right" = the passcode of some window of this case (which one was open is checked below)
        let right = spans.iter().any(|s| s.passcode == pc_i);
        // effective value-level mutation on any message between device and this initiator
        let mut value_mut = false;
        let mut structural_mut = false;
        let mut pake3_t: Option<u64> = None;
        for ((dst, src, _ctr), (t, mutated, o)) in first.iter() {
            let pair = (*dst == 0 && *src == node) || (*dst == node && *src == 0);
            if !pair {
                continue;
            }
            let Some(Some(orig)) = origs.get(*o) else { continue };
            if orig.dst.is_none() {
                continue;
            }
            if *mutated {
                match sh.classes.get(o) {
                    Some(Class::Value) => value_mut = true,
                    Some(Class::Structural) => structural_mut = true,
                    _ => {}
                }
            }
            if *dst == 0 && orig.sc && orig.opcode == OP_PAKE3 {
                pake3_t = Some(pake3_t.map(|p: u64| p.min(*t)).unwrap_or(*t));
            }
        }
        let session = dev_pase[i].as_ref();
        if value_mut {
            labels.push("value-mutation-consumed".into());
        }
        if structural_mut {
            labels.push("structural-mutation-consumed".into());
        }
        if !right {
            labels.push("wrong-passcode".into());
        }
        if let Some((t_seen, snap)) = session {
            labels.push("device-session".into());
            // O1
            if !right {
                return Case::fail(
                    "O1:session-with-wrong-passcode",
                    format!("initiator {i} used passcode {pc_i} (windows: {spans:?}), yet the device holds PASE session {:?}", snap.local_sess_id),
                );
            }
            if value_mut && case.mutation.as_ref().map(|m| m.opcode != OP_STATUS).unwrap_or(false) {
                return Case::fail(
                    "O1:session-despite-mutation",
                    format!("a mutated handshake message ({:?}) was consumed first, yet the device holds a PASE session for initiator {i}", case.mutation),
                );
            }
            match pake3_t {
                None => {
                    return Case::fail(
                        "O1:session-without-pake3",
                        format!("device holds a PASE session for initiator {i} (seen at {t_seen}) but never consumed a Pake3 from it"),
                    )
                }
                Some(t3) => match window_open_at(&spans, t3, 3 * MS) {
                    Some(false) => {
                        return Case::fail(
                            "O1:session-while-window-closed",
                            format!(
                                "device consumed Pake3 of initiator {i} at {t3} when no commissioning window was open and unexpired (windows: {spans:?}), yet a PASE session exists"
                            ),
                        )
                    }
                    Some(true) => {
                        // the proof must be about the passcode of the window that is open when
                        // the session comes into existence, not of an earlier window
                        let open_now: Vec<&WindowSpan> = spans
                            .iter()
                            .filter(|s| s.open_at <= t3 && t3 <= s.closed_at.unwrap_or(u64::MAX).min(s.expiry))
                            .collect();
                        if !open_now.is_empty() && open_now.iter().all(|s| s.passcode != pc_i) {
                            return Case::fail(
                                "O1:session-for-passcode-of-an-earlier-window",
                                format!(
                                    "initiator {i} knows passcode {pc_i}; when the device consumed its Pake3 at {t3} the open window required passcode {} (windows: {spans:?}), yet a PASE session exists",
                                    open_now[0].passcode
                                ),
                            );
                        }
                        if spans.iter().any(|s| s.passcode != case.passcode) {
                            labels.push("session-with-two-passcode-windows".into());
                        }
                    }
                    None => labels.push("pake3-near-window-edge".into()),
                },
            }
            // O2: keys pair up with the initiator's session, if it has one
            for s in sessions(&inits[i]) {
                if matches!(s.mode, SessionMode::Pase { .. })
                    && !s.reserved
                    && s.local_sess_id == snap.peer_sess_id
                    && s.peer_sess_id == snap.local_sess_id
                {
                    if s.enc_key != snap.dec_key || s.dec_key != snap.enc_key {
                        return Case::fail(
                            "O2:keys-do-not-pair",
                            format!("initiator {i} and device hold sessions {}/{} with different directional keys", s.local_sess_id, snap.local_sess_id),
                        );
                    }
                    labels.push("both-ends-session".into());
                }
            }
        } else {
            // initiator believes in a session the device never had?
            let init_has = sessions(&inits[i])
                .iter()
                .any(|s| matches!(s.mode, SessionMode::Pase { .. }) && !s.reserved);
            if init_has && (!right) {
                return Case::fail(
                    "O1:initiator-session-with-wrong-passcode",
                    format!("initiator {i} with a wrong passcode ended up with a PASE session"),
                );
            }
            if init_has && value_mut && case.mutation.as_ref().map(|m| m.opcode != OP_STATUS).unwrap_or(false) {
                return Case::fail(
                    "O1:initiator-session-despite-mutation",
                    format!("a mutated handshake message ({:?}) was consumed first, yet initiator {i} holds a PASE session", case.mutation),
                );
            }
        }
        if pbkdf_answered && (!right || value_mut || structural_mut || !case.events.is_empty()) {
            nontrivial = true;
        }
    }

    // A failed or abandoned attempt leaves no reserved slot behind.
    if dev_reserved_at_end > 0 {
        return Case::fail(
            "O3:reserved-slot-leaked",
            format!("{dev_reserved_at_end} reserved session slot(s) left on the device 45 s after the last attempt started"),
        );
    }

    // O4: advertised iff a window is open (state as reported by the node), and consistent with
    // the operations the harness performed (expiry is not polled in this set-up: no IM running).
    for (t, listed, open) in &adv_samples {
        if listed != open {
            return Case::fail(
                "O4:advertisement-differs-from-window-state",
                format!("at {t}: commissionable service listed = {listed}, window open = {open}"),
            );
        }
        match window_open_at(&spans, *t, 3 * MS) {
            Some(true) if !*listed => {
                // the window may have been legitimately revoked/consumed by the node itself
                // (20 failures, or a completed commissioning): only harness-known closures count
                labels.push("window-closed-by-node".into());
            }
            Some(false) => {
                // Only closures performed by the harness count: an expired window stays listed
                // until somebody polls the expiry (nobody does in this set-up).
                let all_closed_by_op = spans
                    .iter()
                    .filter(|s| s.open_at <= *t)
                    .all(|s| matches!(s.closed_at, Some(c) if c + 3 * MS <= *t && c <= s.expiry));
                if *listed && all_closed_by_op {
                    return Case::fail(
                        "O4:advertised-after-close",
                        format!("at {t}: commissionable service still listed although the window was closed (windows: {spans:?})"),
                    );
                }
            }
            _ => {}
        }
    }

    if !case.plan.is_noop() {
        labels.push("lossy".into());
    }
    if !case.events.is_empty() {
        labels.push("window-op".into());
    }
    Case::pass(nontrivial).labels(labels)
}

// ------------------------------------------------------------------ failure accounting

#[derive(Debug, Clone, Serialize, Deserialize)]
struct RevokeCase {
    passcode: u32,
    /// per attempt: true = right passcode
    attempts: Vec<bool>,
    /// per attempt: the confirmation cA in Pake3 is cut / extended to that many bytes on the
    /// wire (32 = untouched, 255 = same length but corrupted content); a malformed or wrong proof is a failed proof. Only an initiator with the
    /// right passcode gets as far as sending Pake3, so this matters for those attempts
    #[serde(default)]
    ca_len: Vec<u8>,
    seed: u32,
}

fn revoke_strategy() -> impl Strategy<Value = RevokeCase> {
    (
        passcode_strategy(),
        prop_oneof![
            3 => prop::collection::vec(prop::bool::weighted(0.08), 18..26),
            1 => prop::collection::vec(prop::bool::weighted(0.6), 18..26),
        ],
        prop_oneof![
            2 => Just(vec![]),
            1 => prop::collection::vec(prop_oneof![2 => Just(32u8), 1 => Just(31u8), 1 => 0u8..32, 1 => Just(33u8), 2 => Just(255u8)], 26),
            1 => prop::sample::select(vec![0u8, 1, 16, 31, 33, 255, 255]).prop_map(|l| vec![l; 26]),
        ],
        any::<u32>(),
    )
        .prop_map(|(passcode, attempts, ca_len, seed)| RevokeCase {
            passcode,
            attempts,
            ca_len,
            seed,
        })
}

fn check_revoke(case: &RevokeCase) -> Case {
    vh::sim::reset_universe();
    let net = Net::new(2);
    let cd = mk_crypto(case.seed);
    let ci = mk_crypto(case.seed ^ 0x5555);
    let dev_comm_data = dev_comm(case.passcode);
    let device = Matter::new(&TEST_DEV_DET, dev_comm_data, &TEST_DEV_ATT, 5540);
    let init = vh::sim::node::new_matter(5541);
    let result: RefCell<Option<bool>> = RefCell::new(None);
    let last_err: RefCell<String> = RefCell::new(String::new());
    // length the cA of the current attempt is cut/extended to on the wire (None = untouched)
    let cut_ca: std::rc::Rc<std::cell::Cell<Option<u8>>> = std::rc::Rc::new(std::cell::Cell::new(None));
    {
        let cut_ca = cut_ca.clone();
        net.set_adversary(move |s: &Sent| -> Actions {
            if let (Some(len), Some((w, off))) = (cut_ca.get(), mutate::payload_offset(&s.bytes)) {
                if s.src == 1 && w.proto_id == PROTO_ID_SECURE_CHANNEL && w.opcode == OP_PAKE3 {
                    // Pake3 = 15 30 01 <len> <cA> 18
                    if let Some((vo, vl)) = mutate::tlv_string_values(&w.payload).first().copied() {
                        if vl == 32 && vo >= 1 {
                            // 255 = keep the length, corrupt the content (a wrong confirmation
                            // of the right size)
                            let (len, corrupt) = if len == 255 { (32u8, true) } else { (len, false) };
                            let mut p = w.payload[..vo - 1].to_vec();
                            p.push(len);
                            let mut ca = w.payload[vo..vo + vl].to_vec();
                            if corrupt {
                                ca.iter_mut().for_each(|b| *b ^= 0xa5);
                            }
                            ca.resize(len as usize, 0x5a);
                            p.extend_from_slice(&ca);
                            p.extend_from_slice(&w.payload[vo + vl..]);
                            let mut out = s.bytes[..off].to_vec();
                            out.extend_from_slice(&p);
                            return vec![(0, out)];
                        }
                    }
                }
            }
            vec![(0, s.bytes.clone())]
        });
    }
    let mut failed = 0u32;
    let mut attempts_not_ok = 0u32;
    let mut pake2_seen = 0usize;
    let mut verdict: Option<Case> = None;
    let mut successes = 0;
    {
        let sc = SecureChannel::new(&cd, &());
        let responder = Responder::new("device", sc, &device, 0);
        let mut ex = Exec::new(Sched::Fifo);
        ex.add_time_source(&net);
        ex.spawn("dev.run", async {
            let _ = device.run(&cd, net.end(0), net.end(0), NoNetwork).await;
        });
        ex.spawn("dev.resp", async {
            let _ = responder.run::<2>().await;
        });
        ex.spawn("init.run", async {
            let _ = init.run(&ci, net.end(1), net.end(1), NoNetwork).await;
        });
        if device.open_basic_comm_window(900, &cd, &()).is_err() {
            return Case::inconclusive("cannot open window");
        }
        for (k, right) in case.attempts.iter().enumerate() {
            if !device.comm_window_state().is_open() {
                break;
            }
            *result.borrow_mut() = None;
            let pc = if *right { case.passcode } else { case.passcode ^ (1 << (k % 20)) };
            // A malformed confirmation (cA cut or extended on the wire) is a failed proof whatever
            // the passcode - and only an initiator with the right passcode gets as far as sending
            // Pake3 at all (a wrong one stops at cB), so the rewrite applies to those.
            let mangled = case.ca_len.get(k).copied().filter(|l| *l != 32);
            cut_ca.set(mangled);
            let right = &(*right && mangled.is_none());
            let (m, c, res, le) = (&init, &ci, &result, &last_err);
            let t = ex.spawn("attempt", async move {
                let r = async {
                    let exch = Exchange::initiate_plaintext(m, c, node_addr(0)).await?;
                    PaseInitiator::perform(exch, c, pc).await
                }
                .await;
                if let Err(e) = &r {
                    *le.borrow_mut() = format!("{:?}", e.code());
                }
                *res.borrow_mut() = Some(r.is_ok());
            });
            let dl = clock::now() + 30 * SEC;
            let st = ex.run_until(dl, || result.borrow().is_some());
            ex.kill(t);
            if st == Stop::PollLimit {
                let ss: Vec<String> = sessions(&init).iter().map(|s| format!("[{} {:?} res={} exp={} ex={:?}]", s.local_sess_id, s.mode, s.reserved, s.expired, s.exchanges)).collect();
                return Case::inconclusive(format!("poll watchdog at attempt {k} t={} init sessions={:?}", clock::now(), ss));
            }
            ex.run_for(300 * MS);
            if net.storm() {
                let last: Vec<String> = net.with_tap(|t| {
                    t.sent.iter().rev().take(8).map(|s| format!("t={} {}->{:?} {:?}", s.t_us, s.src, s.dst, vh::sim::node::decode_wire(&s.bytes, None, 0).map(|w| (w.sess_id, w.ctr, w.exch_id, w.proto_id, w.opcode, w.initiator, w.reliable, w.ack, w.payload.len())))).collect()
                });
                return Case::fail("storm:datagram-storm", format!("more than 50000 datagrams; last: {last:#?}"));
            }
            let ok = *result.borrow() == Some(true);
            // Did the device get as far as sending Pake2 in this attempt? Then a wrong passcode
            // is a failed proof for sure.
            let pake2_now = net.with_tap(|t| {
                t.sent
                    .iter()
                    .filter(|s| s.src == 0)
                    .filter_map(|s| mutate::payload_offset(&s.bytes))
                    .filter(|(w, _)| w.proto_id == PROTO_ID_SECURE_CHANNEL && w.opcode == OP_PAKE2)
                    .count()
            });
            let reached_proof = pake2_now > pake2_seen;
            pake2_seen = pake2_now;
            if *right {
                if ok {
                    successes += 1;
                } else {
                    // e.g. answered Busy because the session table was full: not a failed proof,
                    // but the statement does not say it must not be counted either
                    attempts_not_ok += 1;
                }
            } else {
                if ok {
                    verdict = Some(Case::fail(
                        "O1:session-with-wrong-passcode",
                        format!("attempt {k} with a wrong passcode or a malformed confirmation (cA length {mangled:?}) succeeded"),
                    ));
                    break;
                }
                attempts_not_ok += 1;
                if reached_proof {
                    failed += 1;
                }
                let has_pase = sessions(&device)
                    .iter()
                    .any(|s| (matches!(s.mode, SessionMode::Pase { .. }) && successes == 0) || s.reserved);
                if has_pase {
                    verdict = Some(Case::fail(
                        "O3:failed-attempt-left-session",
                        format!("after failed attempt {k} the device still holds a PASE/reserved session"),
                    ));
                    break;
                }
            }
            let open = device.comm_window_state().is_open();
            if attempts_not_ok < 20 && !open && successes == 0 {
                verdict = Some(Case::fail(
                    "O3:window-revoked-too-early",
                    format!("window closed after only {attempts_not_ok} unsuccessful attempts ({failed} certainly failed proofs)"),
                ));
                break;
            }
            if failed >= 20 && open && successes == 0 {
                verdict = Some(Case::fail(
                    "O3:window-not-revoked",
                    format!("window still open after {failed} failed proofs"),
                ));
                break;
            }
        }
    }
    verdict.unwrap_or_else(|| Case::pass(failed >= 20).label(if failed >= 20 { "revoked" } else { "not-reached" }))
}

fn main() {
    let mut run = Run::new(
        "C02",
        "exploration",
        "a real device (SecureChannel responder, basic commissioning window with a generated passcode/timeout) and 1-2 real PASE initiators with right/wrong/one-bit-off passcodes, start times after opening or around the window expiry, window close/reopen operations triggered between handshake messages, one message-level mutation (value bit flip, payload bit flip, truncation, extension, hostile curve point, replay of a recorded message; consistent or one-shot) and a loss/duplication/delay plan. Non-trivial: the device answered PBKDFParamRequest and at least one of wrong passcode, consumed mutation, window operation; distinct = distinct serialized case. Second sub-check: sequences of 18-25 attempts to observe the 20-failure revocation",
    );
    run.assume("enhanced (verifier) windows are not generated: the crate exposes no public verifier computation; basic windows with generated passcodes and random salts are");
    run.assume("the expiry polling (run_timeout_checks) lives in the Interaction Model task, which this scenario does not run: expiry is observed through the handshake path only; O4 compares advertisement with the node's own window state and with harness-performed closures");
    run.assume("a mutation counts only if the mutated copy was the first copy of that message counter consumed by the receiving stack");
    let n = run.cases(4_000, 300_000);
    run.prop("pase-adversarial", n, case_strategy, check);
    let n = run.cases(400, 12_000);
    run.prop("failure-accounting", n, revoke_strategy, check_revoke);
    run.finish();
}
