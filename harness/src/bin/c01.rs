//! C01 — CASE admits only holders of a valid NOC of the addressed fabric.
//!
//! Sub-check `case-hostile-path`: honest endpoints (a device with 1-3 fabrics, a controller that
//! is a member of some of them, chains with/without ICAC, CATs, warm or cold resumption cache)
//! run a real CASE handshake while an on-path attacker mutates one message kind (Sigma1,
//! Sigma2, Sigma3, Sigma2Resume, final status) consistently or once, and drops / duplicates /
//! delays / reorders datagrams. Oracle: session-table invariants against generator ground
//! truth, evaluated from what the stacks consumed.

use std::cell::RefCell;
use std::collections::HashMap;

use proptest::prelude::*;
use serde::{Deserialize, Serialize};

use rs_matter::respond::Responder;
use rs_matter::sc::case::CaseInitiator;
use rs_matter::sc::{OpCode, SecureChannel, PROTO_ID_SECURE_CHANNEL};
use rs_matter::transport::exchange::Exchange;
use rs_matter::transport::network::NoNetwork;
use rs_matter::transport::session::verif::SessionSnapshot;
use rs_matter::transport::session::SessionMode;

use vh::sim::adv::{self, Act, Plan};
use vh::sim::fabric::{install, new_member, Ca};
use vh::sim::mutate::{self, Class, Mutation};
use vh::sim::net::{node_addr, Actions, Net, Sent};
use vh::sim::node::{mk_crypto, new_matter, sessions};
use vh::sim::{clock, Exec, Sched, Stop, MS, SEC};
use vh::{Case, Run};

const OP_SIGMA1: u8 = OpCode::CASESigma1 as u8;
const OP_SIGMA2: u8 = OpCode::CASESigma2 as u8;
const OP_SIGMA3: u8 = OpCode::CASESigma3 as u8;
const OP_SIGMA2R: u8 = OpCode::CASESigma2Resume as u8;
const OP_STATUS: u8 = OpCode::StatusReport as u8;

#[derive(Debug, Clone, Serialize, Deserialize)]
pub struct FabricSpec {
    icac: bool,
    /// the controller is a member of this fabric too
    on_ctrl: bool,
    /// the controller's CASE authenticated tags in this fabric (version in the upper 16 bits)
    cats: Vec<u32>,
}

#[derive(Debug, Clone, Serialize, Deserialize)]
pub struct C01Case {
    fabrics: Vec<FabricSpec>,
    /// which of the controller's fabrics is addressed (selector)
    target: u16,
    /// the same node ids are used in every fabric
    same_node_ids: bool,
    /// run an honest handshake first so that both resumption caches are warm
    warm: bool,
    mutation: Option<Mutation>,
    plan: Plan,
    sched: Option<u64>,
    seed: u32,
}

fn cat() -> impl Strategy<Value = u32> {
    (1u32..4, 1u32..4).prop_map(|(ver, id)| (id << 16) | ver).prop_map(|v| {
        // CAT = identifier (upper 16) | version (lower 16); version must be non-zero
        v
    })
}

pub fn case_strategy() -> impl Strategy<Value = C01Case> {
    let fabric = (
        any::<bool>(),
        prop::bool::weighted(0.6),
        prop::collection::vec(cat(), 0..4),
    )
        .prop_map(|(icac, on_ctrl, mut cats)| {
            // distinct identifiers only (a NOC must not carry the same CAT id twice)
            cats.sort_by_key(|c| c >> 16);
            cats.dedup_by_key(|c| *c >> 16);
            cats.truncate(3);
            FabricSpec { icac, on_ctrl, cats }
        });
    let mutation = (
        prop::sample::select(vec![
            OP_SIGMA1, OP_SIGMA1, OP_SIGMA2, OP_SIGMA2, OP_SIGMA3, OP_SIGMA3, OP_SIGMA2R, OP_STATUS,
        ]),
        mutate::mut_kind(),
        prop::bool::weighted(0.7),
    )
        .prop_map(|(opcode, kind, consistent)| Mutation {
            opcode,
            kind,
            consistent,
        });
    (
        prop::collection::vec(fabric, 1..4),
        any::<u16>(),
        any::<bool>(),
        prop::bool::weighted(0.4),
        prop_oneof![1 => Just(None), 4 => mutation.prop_map(Some)],
        prop_oneof![2 => Just(Plan::default()), 2 => adv::plan(8)],
        prop_oneof![1 => Just(None), 3 => any::<u64>().prop_map(Some)],
        any::<u32>(),
    )
        .prop_map(
            |(mut fabrics, target, same_node_ids, warm, mutation, plan, sched, seed)| {
                if !fabrics.iter().any(|f| f.on_ctrl) {
                    fabrics[0].on_ctrl = true;
                }
                C01Case {
                    fabrics,
                    target,
                    same_node_ids,
                    warm,
                    mutation,
                    plan,
                    sched,
                    seed,
                }
            },
        )
}

#[derive(Default)]
struct Shared {
    recording: bool,
    recorded: HashMap<u8, Vec<u8>>,
    mutated_once: bool,
    /// origin seq -> (class, first differing payload offset)
    classes: HashMap<usize, (Class, Option<usize>)>,
}

fn first_diff(a: &[u8], b: &[u8]) -> Option<usize> {
    let n = a.len().min(b.len());
    for i in 0..n {
        if a[i] != b[i] {
            return Some(i);
        }
    }
    if a.len() != b.len() {
        Some(n)
    } else {
        None
    }
}

fn cat_ids_of(cats: &[u32]) -> [u32; 3] {
    let mut out = [0u32; 3];
    for (i, c) in cats.iter().take(3).enumerate() {
        out[i] = *c;
    }
    out
}

fn same_cats(a: &[u32; 3], b: &[u32; 3]) -> bool {
    let mut x: Vec<u32> = a.iter().copied().filter(|c| *c != 0).collect();
    let mut y: Vec<u32> = b.iter().copied().filter(|c| *c != 0).collect();
    x.sort();
    y.sort();
    x == y
}

#[allow(clippy::too_many_arguments)]
fn do_handshake<'a, C: rs_matter::crypto::Crypto>(
    ex: &mut Exec<'a>,
    name: &str,
    budget: u64,
    m: &'a rs_matter::Matter<'static>,
    c: &'a C,
    res: &'a RefCell<Option<bool>>,
    fab_idx: core::num::NonZeroU8,
    peer: u64,
) -> Stop {
    *res.borrow_mut() = None;
    let t = ex.spawn(name, async move {
        let r = async {
            let exch = Exchange::initiate_plaintext(m, c, node_addr(0)).await?;
            CaseInitiator::perform(exch, c, fab_idx, peer).await
        }
        .await;
        *res.borrow_mut() = Some(r.is_ok());
    });
    let dl = clock::now() + budget;
    let st = ex.run_until(dl, || res.borrow().is_some());
    // let the last status/acks drain; the task is gone by now or gets cancelled
    ex.run_for(2 * SEC);
    ex.kill(t);
    st
}

fn check(case: &C01Case) -> Case {
    check_with(case, None)
}

/// Run the scenario; with `post` the given oracle decides instead of the C01 one (used by C15).
pub fn check_with(
    case: &C01Case,
    post: Option<&dyn Fn(&Net, &rs_matter::Matter<'static>, &rs_matter::Matter<'static>) -> Case>,
) -> Case {
    vh::sim::reset_universe();
    let net = Net::new(2);
    let cd = mk_crypto(case.seed);
    let cc = mk_crypto(case.seed.wrapping_mul(0x9E37_79B9).wrapping_add(99));
    let cgen = mk_crypto(case.seed ^ 0x0BAD_5EED);
    let device = new_matter(5540);
    let ctrl = new_matter(5541);

    // ---------------------------------------------------------------- fabrics
    struct Fab {
        dev_idx: u8,
        ctrl_idx: Option<u8>,
        dev_node: u64,
        ctrl_node: u64,
        cats: [u32; 3],
    }
    let mut fabs: Vec<Fab> = Vec::new();
    for (i, spec) in case.fabrics.iter().enumerate() {
        let (dev_node, ctrl_node) = if case.same_node_ids {
            (0x2000, 0x1000)
        } else {
            (0x2000 + i as u64, 0x1000 + i as u64)
        };
        let ca = match Ca::new(&cgen, 0x100 + i as u64, spec.icac, i as u8 + 1) {
            Ok(c) => c,
            Err(e) => return Case::inconclusive(format!("CA: {e:?}")),
        };
        let r: Result<Fab, rs_matter::error::Error> = (|| {
            let dm = new_member(&cgen, &ca, dev_node, &[])?;
            let dev_idx = install(&device, &cd, &ca, &dm, ctrl_node)?.get();
            let ctrl_idx = if spec.on_ctrl {
                let cm = new_member(&cgen, &ca, ctrl_node, &spec.cats)?;
                Some(install(&ctrl, &cc, &ca, &cm, ctrl_node)?.get())
            } else {
                None
            };
            Ok(Fab {
                dev_idx,
                ctrl_idx,
                dev_node,
                ctrl_node,
                cats: cat_ids_of(&spec.cats),
            })
        })();
        match r {
            Ok(f) => fabs.push(f),
            Err(e) => return Case::inconclusive(format!("fabric setup: {e:?}")),
        }
    }
    let ctrl_fabs: Vec<usize> = (0..fabs.len()).filter(|i| fabs[*i].ctrl_idx.is_some()).collect();
    let tgt = ctrl_fabs[vh::util::pick(case.target, ctrl_fabs.len())];
    let tf = &fabs[tgt];
    let ctrl_fab_idx = core::num::NonZeroU8::new(tf.ctrl_idx.unwrap()).unwrap();

    // ---------------------------------------------------------------- adversary
    let shared = std::rc::Rc::new(RefCell::new(Shared::default()));
    {
        let shared = shared.clone();
        let plan = case.plan.clone();
        let mutation = case.mutation.clone();
        let mut idx = [0usize; 2];
        net.set_adversary(move |s: &Sent| -> Actions {
            let mut sh = shared.borrow_mut();
            let mut bytes = s.bytes.clone();
            if let Some((w, off)) = mutate::payload_offset(&s.bytes) {
                if w.proto_id == PROTO_ID_SECURE_CHANNEL {
                    if sh.recording {
                        sh.recorded.entry(w.opcode).or_insert_with(|| w.payload.clone());
                    } else if let Some(m) = &mutation {
                        if m.opcode == w.opcode && (m.consistent || !sh.mutated_once) {
                            // every byte of Sigma1/2/3 is transcript-bound
                            let bound = matches!(w.opcode, OP_SIGMA1 | OP_SIGMA2 | OP_SIGMA3);
                            let old = sh.recorded.get(&w.opcode).cloned();
                            let (nb, class) = mutate::apply(&s.bytes, &m.kind, old.as_deref(), bound);
                            if class != Class::None {
                                sh.mutated_once = true;
                                let d = first_diff(&s.bytes[off..], &nb[off.min(nb.len())..]);
                                sh.classes.insert(s.seq, (class, d));
                                bytes = nb;
                            }
                        }
                    }
                }
            }
            if sh.recording {
                return vec![(0, bytes)];
            }
            let d = if s.src == 0 { 0 } else { 1 };
            let i = idx[d];
            idx[d] += 1;
            let mut act = plan.dir[d].get(i).cloned().unwrap_or(Act::Deliver);
            if let Some(from) = plan.blackhole_from[d] {
                if i >= from as usize {
                    act = Act::Drop;
                }
            }
            match act {
                Act::Deliver => vec![(0, bytes)],
                Act::Drop => vec![],
                Act::Dup(n) => (0..=n).map(|_| (0, bytes.clone())).collect(),
                Act::Delay(ms) => vec![(ms as u64 * MS, bytes)],
                Act::DupDelay(ms) => vec![(0, bytes.clone()), (ms as u64 * MS, bytes)],
            }
        });
    }

    // ---------------------------------------------------------------- run
    let result: RefCell<Option<bool>> = RefCell::new(None);
    let before_dev: Vec<u32>;
    let before_ctrl: Vec<u32>;
    let stop;
    {
        let sc = SecureChannel::new(&cd, &());
        let responder = Responder::new("device", sc, &device, 0);
        let mut ex = Exec::new(match case.sched {
            None => Sched::Fifo,
            Some(s) => Sched::Seeded(s),
        });
        ex.add_time_source(&net);
        ex.spawn("dev.run", async {
            let _ = device.run(&cd, net.end(0), net.end(0), NoNetwork).await;
        });
        ex.spawn("dev.resp", async {
            let _ = responder.run::<3>().await;
        });
        ex.spawn("ctrl.run", async {
            let _ = ctrl.run(&cc, net.end(1), net.end(1), NoNetwork).await;
        });

        if case.warm {
            shared.borrow_mut().recording = true;
            let st = do_handshake(&mut ex, "warmup", 40 * SEC, &ctrl, &cc, &result, ctrl_fab_idx, tf.dev_node);
            if st == Stop::PollLimit {
                return Case::inconclusive("poll watchdog (warm-up)");
            }
            if *result.borrow() != Some(true) {
                return Case::fail(
                    "warmup:honest-handshake-failed",
                    format!("an undisturbed CASE handshake on a shared fabric failed (fabrics: {:?})", case.fabrics),
                );
            }
            shared.borrow_mut().recording = false;
        }
        before_dev = sessions(&device).iter().map(|s| s.id).collect();
        before_ctrl = sessions(&ctrl).iter().map(|s| s.id).collect();

        stop = do_handshake(&mut ex, "attack", 60 * SEC, &ctrl, &cc, &result, ctrl_fab_idx, tf.dev_node);
    }
    if stop == Stop::PollLimit {
        return Case::inconclusive("poll watchdog");
    }
    if let Some(post) = post {
        return post(&net, &device, &ctrl);
    }

    // ---------------------------------------------------------------- oracle
    let sh = shared.borrow();
    let mut labels: Vec<String> = Vec::new();
    let new_dev: Vec<SessionSnapshot> = sessions(&device)
        .into_iter()
        .filter(|s| !before_dev.contains(&s.id) && matches!(s.mode, SessionMode::Case { .. }) && !s.reserved)
        .collect();
    let new_ctrl: Vec<SessionSnapshot> = sessions(&ctrl)
        .into_iter()
        .filter(|s| !before_ctrl.contains(&s.id) && matches!(s.mode, SessionMode::Case { .. }) && !s.reserved)
        .collect();

    // what was consumed first, per (receiver, sender, counter)
    struct Orig {
        src: usize,
        opcode: u8,
        ctr: u32,
        sc: bool,
        payload: Vec<u8>,
    }
    let origs: Vec<Option<Orig>> = net.with_tap(|t| {
        t.sent
            .iter()
            .map(|s| {
                mutate::payload_offset(&s.bytes).map(|(w, _)| Orig {
                    src: s.src,
                    opcode: w.opcode,
                    ctr: w.ctr,
                    sc: w.proto_id == PROTO_ID_SECURE_CHANNEL,
                    payload: w.payload,
                })
            })
            .collect()
    });
    let mut first: HashMap<(usize, usize, u32), (bool, usize)> = HashMap::new();
    net.with_tap(|t| {
        for c in &t.consumed {
            if let Some(o) = c.origin {
                if let Some(Some(orig)) = origs.get(o) {
                    first.entry((c.dst, orig.src, orig.ctr)).or_insert((c.mutated, o));
                }
            }
        }
    });
    // effective value-level mutation: opcode -> field index (string value hit), if identifiable
    let mut effective: Vec<(u8, Option<usize>)> = Vec::new();
    let mut responder_answered = false;
    for o in origs.iter().flatten() {
        if o.src == 0 && o.sc && (o.opcode == OP_SIGMA2 || o.opcode == OP_SIGMA2R) {
            responder_answered = true;
        }
    }
    for ((_dst, _src, _ctr), (mutated, o)) in first.iter() {
        if !*mutated {
            continue;
        }
        let Some(Some(orig)) = origs.get(*o) else { continue };
        if !orig.sc {
            continue;
        }
        if let Some((Class::Value, diff)) = sh.classes.get(o) {
            let field = diff.and_then(|d| {
                mutate::tlv_string_values(&orig.payload)
                    .iter()
                    .position(|(vo, vl)| d >= *vo && d < vo + vl)
            });
            effective.push((orig.opcode, field));
        }
    }
    let resumed = origs.iter().flatten().any(|o| o.src == 0 && o.sc && o.opcode == OP_SIGMA2R)
        && !origs.iter().flatten().any(|o| o.src == 0 && o.sc && o.opcode == OP_SIGMA2 && !case.warm);

    // I2: every new device session is bound to the addressed fabric, the controller's node id
    // in that fabric and its CATs.
    for s in &new_dev {
        let SessionMode::Case { fab_idx, cat_ids } = &s.mode else { continue };
        if fab_idx.get() != tf.dev_idx || s.peer_nodeid != Some(tf.ctrl_node) || !same_cats(cat_ids, &tf.cats) || s.local_nodeid != tf.dev_node {
            return Case::fail(
                "I2:device-session-bound-wrongly",
                format!(
                    "device session {} bound to fabric {} / peer {:?} / CATs {:?} / local node {:#x}; the handshake addressed device fabric {} as node {:#x} with CATs {:?} (device node {:#x})",
                    s.local_sess_id, fab_idx, s.peer_nodeid, cat_ids, s.local_nodeid, tf.dev_idx, tf.ctrl_node, tf.cats, tf.dev_node
                ),
            );
        }
    }
    for s in &new_ctrl {
        let SessionMode::Case { fab_idx, .. } = &s.mode else { continue };
        if fab_idx.get() != tf.ctrl_idx.unwrap() || s.peer_nodeid != Some(tf.dev_node) {
            return Case::fail(
                "I2:controller-session-bound-wrongly",
                format!("controller session bound to fabric {} / peer {:?}; expected fabric {} / peer {:#x}", fab_idx, s.peer_nodeid, tf.ctrl_idx.unwrap(), tf.dev_node),
            );
        }
    }
    // I3: sessions that reference each other hold the same directional keys
    let mut paired = 0;
    for d in &new_dev {
        for c in &new_ctrl {
            if d.peer_sess_id == c.local_sess_id && c.peer_sess_id == d.local_sess_id {
                paired += 1;
                if d.enc_key != c.dec_key || d.dec_key != c.enc_key {
                    return Case::fail(
                        "I3:keys-do-not-pair",
                        format!("device session {} and controller session {} reference each other but hold different directional keys", d.local_sess_id, c.local_sess_id),
                    );
                }
            }
        }
    }
    // Both ends hold a new session: they must hold the same keys even if the (unauthenticated)
    // session ids were tampered with.
    if new_dev.len() == 1 && new_ctrl.len() == 1 {
        let (d, c) = (&new_dev[0], &new_ctrl[0]);
        if d.enc_key != c.dec_key || d.dec_key != c.enc_key {
            return Case::fail(
                "I3:both-ends-different-keys",
                format!("both ends hold one new CASE session (ids {}/{}) with different directional keys", d.local_sess_id, c.local_sess_id),
            );
        }
    }
    if new_dev.len() > 1 || new_ctrl.len() > 1 {
        return Case::fail(
            "I1:more-than-one-session",
            format!("one handshake produced {} device and {} controller sessions", new_dev.len(), new_ctrl.len()),
        );
    }

    // I4: consumed value-level mutations
    for (opcode, field) in &effective {
        labels.push(format!("effective-mutation-op{opcode:#x}"));
        let full_path = !case.warm;
        match *opcode {
            OP_SIGMA1 => {
                // cold: transcript-bound. warm: random (field 0), resumption id (3), MIC (4) are
                // bound (a failed resumption falls back to the full handshake whose transcript
                // then differs); other fields are not authenticated on the resumption path.
                let bound = full_path || matches!(field, Some(0) | Some(3) | Some(4));
                if bound && (!new_dev.is_empty() || !new_ctrl.is_empty()) {
                    return Case::fail(
                        "I4:session-despite-sigma1-mutation",
                        format!("Sigma1 was altered (field {field:?}, warm={}) and consumed first, yet {} device / {} controller session(s) exist", case.warm, new_dev.len(), new_ctrl.len()),
                    );
                }
            }
            OP_SIGMA2 => {
                if !new_dev.is_empty() || !new_ctrl.is_empty() {
                    return Case::fail(
                        "I4:session-despite-sigma2-mutation",
                        format!("Sigma2 was altered (field {field:?}) and consumed first, yet {} device / {} controller session(s) exist", new_dev.len(), new_ctrl.len()),
                    );
                }
            }
            OP_SIGMA3 => {
                if !new_dev.is_empty() {
                    return Case::fail(
                        "I4:session-despite-sigma3-mutation",
                        format!("Sigma3 was altered (field {field:?}) and consumed first, yet the responder holds a session"),
                    );
                }
            }
            OP_SIGMA2R => {
                // resumption id (field 0) and MIC (field 1)
                if matches!(field, Some(0) | Some(1)) && (!new_dev.is_empty() || !new_ctrl.is_empty()) {
                    return Case::fail(
                        "I4:session-despite-sigma2resume-mutation",
                        format!("Sigma2Resume field {field:?} was altered and consumed first, yet {} device / {} controller session(s) exist", new_dev.len(), new_ctrl.len()),
                    );
                }
            }
            _ => {}
        }
    }

    if paired > 0 {
        labels.push("session-both-ends".into());
    }
    if !new_dev.is_empty() {
        labels.push("device-session".into());
    }
    if case.warm {
        labels.push("warm".into());
    }
    if resumed {
        labels.push("resumed".into());
    }
    if !case.plan.is_noop() {
        labels.push("lossy".into());
    }
    labels.push(format!("fabrics-{}", fabs.len()));
    Case::pass(responder_answered && !effective.is_empty()).labels(labels)
}

// ------------------------------------------------------------------ impostor initiator

#[derive(Debug, Clone, Serialize, Deserialize)]
pub enum Impostor {
    /// honest member (control group)
    None,
    /// the fabric record names the device's root (so Sigma1 addresses the device's fabric) but
    /// the NOC was issued by another root that uses the same fabric id
    OtherRootSameFabricId,
    /// the NOC is a valid NOC of the addressed fabric, but the initiator signs with another key
    WrongKey,
    /// as OtherRootSameFabricId, with an intermediate certificate of the foreign CA
    OtherRootWithIcac,
}

#[derive(Debug, Clone, Serialize, Deserialize)]
pub struct ImpostorCase {
    kind: Impostor,
    icac: bool,
    node_id_same_as_member: bool,
    plan: Plan,
    seed: u32,
}

fn impostor_strategy() -> impl Strategy<Value = ImpostorCase> {
    (
        prop_oneof![
            1 => Just(Impostor::None),
            2 => Just(Impostor::OtherRootSameFabricId),
            2 => Just(Impostor::WrongKey),
            1 => Just(Impostor::OtherRootWithIcac),
        ],
        any::<bool>(),
        any::<bool>(),
        prop_oneof![3 => Just(Plan::default()), 1 => adv::plan(6)],
        any::<u32>(),
    )
        .prop_map(|(kind, icac, node_id_same_as_member, plan, seed)| ImpostorCase {
            kind,
            icac,
            node_id_same_as_member,
            plan,
            seed,
        })
}

fn check_impostor(case: &ImpostorCase) -> Case {
    vh::sim::reset_universe();
    let net = Net::new(2);
    let cd = mk_crypto(case.seed);
    let cc = mk_crypto(case.seed ^ 0x7777);
    let cgen = mk_crypto(case.seed ^ 0x0BAD_5EED);
    let device = new_matter(5540);
    let ctrl = new_matter(5541);
    const FABRIC_ID: u64 = 0x1;
    const DEV_NODE: u64 = 0x2000;
    const CTRL_NODE: u64 = 0x1000;

    let setup = (|| -> Result<core::num::NonZeroU8, rs_matter::error::Error> {
        let ca = Ca::new(&cgen, FABRIC_ID, case.icac, 5)?;
        let dm = new_member(&cgen, &ca, DEV_NODE, &[])?;
        install(&device, &cd, &ca, &dm, CTRL_NODE)?;
        let node = if case.node_id_same_as_member { CTRL_NODE } else { CTRL_NODE + 5 };
        match case.kind {
            Impostor::None => {
                let m = new_member(&cgen, &ca, node, &[])?;
                install(&ctrl, &cc, &ca, &m, CTRL_NODE)
            }
            Impostor::WrongKey => {
                // a genuine NOC of the fabric (say, a captured one) - but not its private key
                let mut m = new_member(&cgen, &ca, node, &[])?;
                let other = new_member(&cgen, &ca, node + 100, &[])?;
                m.key = other.key;
                install(&ctrl, &cc, &ca, &m, CTRL_NODE)
            }
            Impostor::OtherRootSameFabricId | Impostor::OtherRootWithIcac => {
                // the attacker runs a CA of their own with the same fabric id and IPK
                let mut evil = Ca::new(&cgen, FABRIC_ID, matches!(case.kind, Impostor::OtherRootWithIcac), 5)?;
                let m = new_member(&cgen, &evil, node, &[])?;
                // ... and claims the device's root in its fabric record
                evil.rcac = ca.rcac.clone();
                evil.ipk = ca.ipk;
                install(&ctrl, &cc, &evil, &m, CTRL_NODE)
            }
        }
    })();
    let fab = match setup {
        Ok(f) => f,
        Err(e) => return Case::inconclusive(format!("setup: {e:?}")),
    };
    let adv_log = adv::install(&net, &case.plan);
    let result: RefCell<Option<bool>> = RefCell::new(None);
    let stop;
    {
        let sc = SecureChannel::new(&cd, &());
        let responder = Responder::new("device", sc, &device, 0);
        let mut ex = Exec::new(Sched::Fifo);
        ex.add_time_source(&net);
        ex.spawn("dev.run", async {
            let _ = device.run(&cd, net.end(0), net.end(0), NoNetwork).await;
        });
        ex.spawn("dev.resp", async {
            let _ = responder.run::<2>().await;
        });
        ex.spawn("ctrl.run", async {
            let _ = ctrl.run(&cc, net.end(1), net.end(1), NoNetwork).await;
        });
        stop = do_handshake(&mut ex, "impostor", 60 * SEC, &ctrl, &cc, &result, fab, DEV_NODE);
    }
    if stop == Stop::PollLimit {
        return Case::inconclusive("poll watchdog");
    }
    let _ = adv_log;
    let dev_case: Vec<SessionSnapshot> = sessions(&device)
        .into_iter()
        .filter(|s| matches!(s.mode, SessionMode::Case { .. }) && !s.reserved)
        .collect();
    let sigma3_sent = net.with_tap(|t| {
        t.sent
            .iter()
            .filter_map(|s| mutate::payload_offset(&s.bytes))
            .any(|(w, _)| w.proto_id == PROTO_ID_SECURE_CHANNEL && w.opcode == OP_SIGMA3)
    });
    match case.kind {
        Impostor::None => {
            if case.plan.is_noop() && dev_case.is_empty() {
                return Case::fail(
                    "impostor:honest-member-refused",
                    "an honest member of the fabric could not establish a CASE session over an undisturbed network".to_string(),
                );
            }
            Case::pass(false).label("honest")
        }
        _ => {
            if !dev_case.is_empty() {
                return Case::fail(
                    format!("impostor:session-for-{:?}", case.kind),
                    format!("the device established CASE session(s) {:?} for an initiator that is not a member of the addressed fabric ({:?})", dev_case.iter().map(|s| (s.local_sess_id, s.peer_nodeid)).collect::<Vec<_>>(), case.kind),
                );
            }
            let ctrl_case = sessions(&ctrl).into_iter().filter(|s| matches!(s.mode, SessionMode::Case { .. }) && !s.reserved).count();
            if ctrl_case > 0 {
                return Case::fail(
                    format!("impostor:initiator-session-for-{:?}", case.kind),
                    "the impostor ended up with a CASE session".to_string(),
                );
            }
            Case::pass(sigma3_sent).label(format!("{:?}", case.kind))
        }
    }
}

fn main() {
    let mut run = Run::new(
        "C01",
        "exploration",
        "honest endpoints, hostile path: a device with 1-3 fabrics (chains with/without ICAC, generated CATs, node ids optionally reused across fabrics) and a controller that is a member of some of them run a real CASE handshake (cold, or warm = after an honest handshake so that resumption is attempted) while one message kind (Sigma1, Sigma2, Sigma3, Sigma2Resume, final status) is mutated consistently or once (value bit flip, payload bit flip, truncation, extension, hostile curve point, replay of the recorded message of the earlier handshake) and datagrams are dropped/duplicated/delayed. Non-trivial: the responder answered Sigma1 and a value-level mutated message was the first copy consumed; distinct = distinct serialized case",
    );
    run.assume("a mutation counts only if the mutated copy was the first copy of that message counter consumed by the receiving stack");
    run.assume("on the resumption path the session ids, destination id and public key of Sigma1 are not authenticated by the protocol; only initiator random, resumption id and MIC mutations are required to prevent a session there");
    run.assume("case-impostor drives the responder with initiators that address the device's fabric (same root in their fabric record, same fabric id and IPK) but hold a NOC from a foreign root, or a genuine NOC without its private key; the full single-deviation chain space is checked against CaseP::validate_certs directly in C19");
    let n = run.cases(2_500, 150_000);
    run.prop("case-hostile-path", n, case_strategy, check);
    let n = run.cases(1_500, 60_000);
    run.prop("case-impostor", n, impostor_strategy, check_impostor);
    run.finish();
}
