//! C01 — CASE admits only holders of a valid NOC of the addressed fabric.
//!
//! Sub-check `case-hostile-path`: honest endpoints (a device with 1-3 fabrics, a controller that
//! is a member of some of them, chains with/without ICAC, CATs, warm or cold resumption cache)
//! run a real CASE handshake while an on-path attacker mutates one message kind (Sigma1,
//! Sigma2, Sigma3, Sigma2Resume, final status) consistently or once, and drops / duplicates /
//! delays / reorders datagrams. Oracle: session-table invariants against generator ground
//! truth, evaluated from what the stacks consumed.
//!
//! Sub-check `case-impostor`: initiators that address the device's fabric without being a member.
//!
//! Sub-check `case-reissue`: histories of 2-5 handshakes between one controller and one device
//! whose NOCs are re-issued (other CATs, other node id) and whose resumption records are dropped
//! or kept in between. Oracle: a session of a full handshake carries the node id and CATs of the
//! NOC just presented; a resumed session those of the latest full handshake that end completed
//! with that peer node id - never superseded ones.

use std::cell::RefCell;
use std::collections::HashMap;

use proptest::prelude::*;
use serde::{Deserialize, Serialize};

use rs_matter::respond::Responder;
use rs_matter::sc::case::CaseInitiator;
use rs_matter::sc::{OpCode, SecureChannel, PROTO_ID_SECURE_CHANNEL};
use rs_matter::transport::exchange::Exchange;
use rs_matter::transport::network::NoNetwork;
use rs_matter::transport::session::verif::SessionSnapshot;
use rs_matter::transport::session::SessionMode;

use vh::sim::adv::{self, Act, Plan};
use vh::sim::fabric::{install, new_member, Ca};
use vh::sim::mutate::{self, Class, Mutation};
use vh::sim::net::{node_addr, Actions, Net, Sent};
use vh::sim::node::{mk_crypto, new_matter, sessions};
use vh::sim::{clock, Exec, Sched, Stop, MS, SEC};
use vh::{Case, Run};

const OP_SIGMA1: u8 = OpCode::CASESigma1 as u8;
const OP_SIGMA2: u8 = OpCode::CASESigma2 as u8;
const OP_SIGMA3: u8 = OpCode::CASESigma3 as u8;
const OP_SIGMA2R: u8 = OpCode::CASESigma2Resume as u8;
const OP_STATUS: u8 = OpCode::StatusReport as u8;

#[derive(Debug, Clone, Serialize, Deserialize)]
pub struct FabricSpec {
    icac: bool,
    /// the controller is a member of this fabric too
    on_ctrl: bool,
    /// the controller's CASE authenticated tags in this fabric (version in the upper 16 bits)
    cats: Vec<u32>,
}

#[derive(Debug, Clone, Serialize, Deserialize)]
pub struct C01Case {
    fabrics: Vec<FabricSpec>,
    /// which of the controller's fabrics is addressed (selector)
    target: u16,
    /// the same node ids are used in every fabric
    same_node_ids: bool,
    /// run an honest handshake first so that both resumption caches are warm
    warm: bool,
    mutation: Option<Mutation>,
    plan: Plan,
    sched: Option<u64>,
    seed: u32,
    /// both nodes sign with randomised ECDSA (as the OpenSSL / MbedTLS back-ends do)
    #[serde(default)]
    rand_sign: bool,
}

fn cat() -> impl Strategy<Value = u32> {
    (1u32..4, 1u32..4).prop_map(|(ver, id)| (id << 16) | ver).prop_map(|v| {
        // CAT = identifier (upper 16) | version (lower 16); version must be non-zero
        v
    })
}

pub fn case_strategy() -> impl Strategy<Value = C01Case> {
    let fabric = (
        any::<bool>(),
        prop::bool::weighted(0.6),
        prop::collection::vec(cat(), 0..4),
    )
        .prop_map(|(icac, on_ctrl, mut cats)| {
            // distinct identifiers only (a NOC must not carry the same CAT id twice)
            cats.sort_by_key(|c| c >> 16);
            cats.dedup_by_key(|c| *c >> 16);
            cats.truncate(3);
            FabricSpec { icac, on_ctrl, cats }
        });
    let mutation = (
        prop::sample::select(vec![
            OP_SIGMA1, OP_SIGMA1, OP_SIGMA2, OP_SIGMA2, OP_SIGMA3, OP_SIGMA3, OP_SIGMA2R, OP_STATUS,
        ]),
        mutate::mut_kind(),
        prop::bool::weighted(0.7),
    )
        .prop_map(|(opcode, kind, consistent)| Mutation {
            opcode,
            kind,
            consistent,
        });
    (
        prop::collection::vec(fabric, 1..4),
        any::<u16>(),
        any::<bool>(),
        prop::bool::weighted(0.4),
        prop_oneof![1 => Just(None), 4 => mutation.prop_map(Some)],
        prop_oneof![2 => Just(Plan::default()), 2 => adv::plan(8)],
        prop_oneof![1 => Just(None), 3 => any::<u64>().prop_map(Some)],
        any::<u32>(),
        any::<bool>(),
    )
        .prop_map(
            |(mut fabrics, target, same_node_ids, warm, mutation, plan, sched, seed, rand_sign)| {
                if !fabrics.iter().any(|f| f.on_ctrl) {
                    fabrics[0].on_ctrl = true;
                }
                C01Case {
                    fabrics,
                    target,
                    same_node_ids,
                    warm,
                    mutation,
                    plan,
                    sched,
                    seed,
                    rand_sign,
                }
            },
        )
}

#[derive(Default)]
struct Shared {
    recording: bool,
    recorded: HashMap<u8, Vec<u8>>,
    mutated_once: bool,
    /// origin seq -> (class, first differing payload offset)
    classes: HashMap<usize, (Class, Option<usize>)>,
}

fn first_diff(a: &[u8], b: &[u8]) -> Option<usize> {
    let n = a.len().min(b.len());
    for i in 0..n {
        if a[i] != b[i] {
            return Some(i);
        }
    }
    if a.len() != b.len() {
        Some(n)
    } else {
        None
    }
}

fn cat_ids_of(cats: &[u32]) -> [u32; 3] {
    let mut out = [0u32; 3];
    for (i, c) in cats.iter().take(3).enumerate() {
        out[i] = *c;
    }
    out
}

fn same_cats(a: &[u32; 3], b: &[u32; 3]) -> bool {
    let mut x: Vec<u32> = a.iter().copied().filter(|c| *c != 0).collect();
    let mut y: Vec<u32> = b.iter().copied().filter(|c| *c != 0).collect();
    x.sort();
    y.sort();
    x == y
}

#[allow(clippy::too_many_arguments)]
fn do_handshake<'a, C: rs_matter::crypto::Crypto>(
    ex: &mut Exec<'a>,
    name: &str,
    budget: u64,
    m: &'a rs_matter::Matter<'static>,
    c: &'a C,
    res: &'a RefCell<Option<bool>>,
    fab_idx: core::num::NonZeroU8,
    peer: u64,
) -> Stop {
    *res.borrow_mut() = None;
    let t = ex.spawn(name, async move {
        let r = async {
            let exch = Exchange::initiate_plaintext(m, c, node_addr(0)).await?;
            CaseInitiator::perform(exch, c, fab_idx, peer).await
        }
        .await;
        *res.borrow_mut() = Some(r.is_ok());
    });
    let dl = clock::now() + budget;
    let st = ex.run_until(dl, || res.borrow().is_some());
    // let the last status/acks drain; the task is gone by now or gets cancelled
    ex.run_for(2 * SEC);
    ex.kill(t);
    st
}

fn check(case: &C01Case) -> Case {
    check_with(case, None)
}

/// Run the scenario; with `post` the given oracle decides instead of the C01 one (used by C15).
pub fn check_with(
    case: &C01Case,
    post: Option<&dyn Fn(&Net, &rs_matter::Matter<'static>, &rs_matter::Matter<'static>) -> Case>,
) -> Case {
    vh::sim::reset_universe();
    let net = Net::new(2);
    let cd = vh::sim::rsign::RandomisedSigning::new(mk_crypto(case.seed), case.rand_sign);
    let cc = vh::sim::rsign::RandomisedSigning::new(
        mk_crypto(case.seed.wrapping_mul(0x9E37_79B9).wrapping_add(99)),
        case.rand_sign,
    );
    let cgen = mk_crypto(case.seed ^ 0x0BAD_5EED);
    let device = new_matter(5540);
    let ctrl = new_matter(5541);

    // ---------------------------------------------------------------- fabrics
    struct Fab {
        dev_idx: u8,
        ctrl_idx: Option<u8>,
        dev_node: u64,
        ctrl_node: u64,
        cats: [u32; 3],
    }
    let mut fabs: Vec<Fab> = Vec::new();
    for (i, spec) in case.fabrics.iter().enumerate() {
        let (dev_node, ctrl_node) = if case.same_node_ids {
            (0x2000, 0x1000)
        } else {
            (0x2000 + i as u64, 0x1000 + i as u64)
        };
        let ca = match Ca::new(&cgen, 0x100 + i as u64, spec.icac, i as u8 + 1) {
            Ok(c) => c,
            Err(e) => return Case::inconclusive(format!("CA: {e:?}")),
        };
        let r: Result<Fab, rs_matter::error::Error> = (|| {
            let dm = new_member(&cgen, &ca, dev_node, &[])?;
            let dev_idx = install(&device, &cd, &ca, &dm, ctrl_node)?.get();
            let ctrl_idx = if spec.on_ctrl {
                let cm = new_member(&cgen, &ca, ctrl_node, &spec.cats)?;
                Some(install(&ctrl, &cc, &ca, &cm, ctrl_node)?.get())
            } else {
                None
            };
            Ok(Fab {
                dev_idx,
                ctrl_idx,
                dev_node,
                ctrl_node,
                cats: cat_ids_of(&spec.cats),
            })
        })();
        match r {
            Ok(f) => fabs.push(f),
            Err(e) => return Case::inconclusive(format!("fabric setup: {e:?}")),
        }
    }
    let ctrl_fabs: Vec<usize> = (0..fabs.len()).filter(|i| fabs[*i].ctrl_idx.is_some()).collect();
    let tgt = ctrl_fabs[vh::util::pick(case.target, ctrl_fabs.len())];
    let tf = &fabs[tgt];
    let ctrl_fab_idx = core::num::NonZeroU8::new(tf.ctrl_idx.unwrap()).unwrap();

    // ---------------------------------------------------------------- adversary
    let shared = std::rc::Rc::new(RefCell::new(Shared::default()));
    {
        let shared = shared.clone();
        let plan = case.plan.clone();
        let mutation = case.mutation.clone();
        let mut idx = [0usize; 2];
        net.set_adversary(move |s: &Sent| -> Actions {
            let mut sh = shared.borrow_mut();
            let mut bytes = s.bytes.clone();
            if let Some((w, off)) = mutate::payload_offset(&s.bytes) {
                if w.proto_id == PROTO_ID_SECURE_CHANNEL {
                    if sh.recording {
                        sh.recorded.entry(w.opcode).or_insert_with(|| w.payload.clone());
                    } else if let Some(m) = &mutation {
                        if m.opcode == w.opcode && (m.consistent || !sh.mutated_once) {
                            // every byte of Sigma1/2/3 is transcript-bound
                            let bound = matches!(w.opcode, OP_SIGMA1 | OP_SIGMA2 | OP_SIGMA3);
                            let old = sh.recorded.get(&w.opcode).cloned();
                            let (nb, class) = mutate::apply(&s.bytes, &m.kind, old.as_deref(), bound);
                            if class != Class::None {
                                sh.mutated_once = true;
                                let d = first_diff(&s.bytes[off..], &nb[off.min(nb.len())..]);
                                sh.classes.insert(s.seq, (class, d));
                                bytes = nb;
                            }
                        }
                    }
                }
            }
            if sh.recording {
                return vec![(0, bytes)];
            }
            let d = if s.src == 0 { 0 } else { 1 };
            let i = idx[d];
            idx[d] += 1;
            let mut act = plan.dir[d].get(i).cloned().unwrap_or(Act::Deliver);
            if let Some(from) = plan.blackhole_from[d] {
                if i >= from as usize {
                    act = Act::Drop;
                }
            }
            match act {
                Act::Deliver => vec![(0, bytes)],
                Act::Drop => vec![],
                Act::Dup(n) => (0..=n).map(|_| (0, bytes.clone())).collect(),
                Act::Delay(ms) => vec![(ms as u64 * MS, bytes)],
                Act::DupDelay(ms) => vec![(0, bytes.clone()), (ms as u64 * MS, bytes)],
            }
        });
    }

    // ---------------------------------------------------------------- run
    let result: RefCell<Option<bool>> = RefCell::new(None);
    let before_dev: Vec<u32>;
    let before_ctrl: Vec<u32>;
    let stop;
    {
        let sc = SecureChannel::new(&cd, &());
        let responder = Responder::new("device", sc, &device, 0);
        let mut ex = Exec::new(match case.sched {
            None => Sched::Fifo,
            Some(s) => Sched::Seeded(s),
        });
        ex.add_time_source(&net);
        ex.spawn("dev.run", async {
            let _ = device.run(&cd, net.end(0), net.end(0), NoNetwork).await;
        });
        ex.spawn("dev.resp", async {
            let _ = responder.run::<3>().await;
        });
        ex.spawn("ctrl.run", async {
            let _ = ctrl.run(&cc, net.end(1), net.end(1), NoNetwork).await;
        });

        if case.warm {
            shared.borrow_mut().recording = true;
            let st = do_handshake(&mut ex, "warmup", 40 * SEC, &ctrl, &cc, &result, ctrl_fab_idx, tf.dev_node);
            if st == Stop::PollLimit {
                return Case::inconclusive("poll watchdog (warm-up)");
            }
            if *result.borrow() != Some(true) {
                return Case::fail(
                    "warmup:honest-handshake-failed",
                    format!("an undisturbed CASE handshake on a shared fabric failed (fabrics: {:?})", case.fabrics),
                );
            }
            shared.borrow_mut().recording = false;
        }
        before_dev = sessions(&device).iter().map(|s| s.id).collect();
        before_ctrl = sessions(&ctrl).iter().map(|s| s.id).collect();

        stop = do_handshake(&mut ex, "attack", 60 * SEC, &ctrl, &cc, &result, ctrl_fab_idx, tf.dev_node);
    }
    if stop == Stop::PollLimit {
        return Case::inconclusive("poll watchdog");
    }
    if let Some(post) = post {
        return post(&net, &device, &ctrl);
    }

    // ---------------------------------------------------------------- oracle
    let sh = shared.borrow();
    let mut labels: Vec<String> = Vec::new();
    let new_dev: Vec<SessionSnapshot> = sessions(&device)
        .into_iter()
        .filter(|s| !before_dev.contains(&s.id) && matches!(s.mode, SessionMode::Case { .. }) && !s.reserved)
        .collect();
    let new_ctrl: Vec<SessionSnapshot> = sessions(&ctrl)
        .into_iter()
        .filter(|s| !before_ctrl.contains(&s.id) && matches!(s.mode, SessionMode::Case { .. }) && !s.reserved)
        .collect();

    // what was consumed first, per (receiver, sender, counter)
    struct Orig {
        src: usize,
        opcode: u8,
        ctr: u32,
        sc: bool,
        payload: Vec<u8>,
    }
    let origs: Vec<Option<Orig>> = net.with_tap(|t| {
        t.sent
            .iter()
            .map(|s| {
                mutate::payload_offset(&s.bytes).map(|(w, _)| Orig {
                    src: s.src,
                    opcode: w.opcode,
                    ctr: w.ctr,
                    sc: w.proto_id == PROTO_ID_SECURE_CHANNEL,
                    payload: w.payload,
                })
            })
            .collect()
    });
    let mut first: HashMap<(usize, usize, u32), (bool, usize)> = HashMap::new();
    net.with_tap(|t| {
        for c in &t.consumed {
            if let Some(o) = c.origin {
                if let Some(Some(orig)) = origs.get(o) {
                    first.entry((c.dst, orig.src, orig.ctr)).or_insert((c.mutated, o));
                }
            }
        }
    });
    // effective value-level mutation: opcode -> field index (string value hit), if identifiable
    let mut effective: Vec<(u8, Option<usize>)> = Vec::new();
    let mut responder_answered = false;
    for o in origs.iter().flatten() {
        if o.src == 0 && o.sc && (o.opcode == OP_SIGMA2 || o.opcode == OP_SIGMA2R) {
            responder_answered = true;
        }
    }
    for ((_dst, _src, _ctr), (mutated, o)) in first.iter() {
        if !*mutated {
            continue;
        }
        let Some(Some(orig)) = origs.get(*o) else { continue };
        if !orig.sc {
            continue;
        }
        if let Some((Class::Value, diff)) = sh.classes.get(o) {
            let field = diff.and_then(|d| {
                mutate::tlv_string_values(&orig.payload)
                    .iter()
                    .position(|(vo, vl)| d >= *vo && d < vo + vl)
            });
            effective.push((orig.opcode, field));
        }
    }
    let resumed = origs.iter().flatten().any(|o| o.src == 0 && o.sc && o.opcode == OP_SIGMA2R)
        && !origs.iter().flatten().any(|o| o.src == 0 && o.sc && o.opcode == OP_SIGMA2 && !case.warm);

    // I2: every new device session is bound to the addressed fabric, the controller's node id
    // in that fabric and its CATs.
    for s in &new_dev {
        let SessionMode::Case { fab_idx, cat_ids } = &s.mode else { continue };
        if fab_idx.get() != tf.dev_idx || s.peer_nodeid != Some(tf.ctrl_node) || !same_cats(cat_ids, &tf.cats) || s.local_nodeid != tf.dev_node {
            return Case::fail(
                "I2:device-session-bound-wrongly",
                format!(
                    "device session {} bound to fabric {} / peer {:?} / CATs {:?} / local node {:#x}; the handshake addressed device fabric {} as node {:#x} with CATs {:?} (device node {:#x})",
                    s.local_sess_id, fab_idx, s.peer_nodeid, cat_ids, s.local_nodeid, tf.dev_idx, tf.ctrl_node, tf.cats, tf.dev_node
                ),
            );
        }
    }
    for s in &new_ctrl {
        let SessionMode::Case { fab_idx, .. } = &s.mode else { continue };
        if fab_idx.get() != tf.ctrl_idx.unwrap() || s.peer_nodeid != Some(tf.dev_node) {
            return Case::fail(
                "I2:controller-session-bound-wrongly",
                format!("controller session bound to fabric {} / peer {:?}; expected fabric {} / peer {:#x}", fab_idx, s.peer_nodeid, tf.ctrl_idx.unwrap(), tf.dev_node),
            );
        }
    }
    // I3: sessions that reference each other hold the same directional keys
    let mut paired = 0;
    for d in &new_dev {
        for c in &new_ctrl {
            if d.peer_sess_id == c.local_sess_id && c.peer_sess_id == d.local_sess_id {
                paired += 1;
                if d.enc_key != c.dec_key || d.dec_key != c.enc_key {
                    return Case::fail(
                        "I3:keys-do-not-pair",
                        format!("device session {} and controller session {} reference each other but hold different directional keys", d.local_sess_id, c.local_sess_id),
                    );
                }
            }
        }
    }
    // Both ends hold a new session: they must hold the same keys even if the (unauthenticated)
    // session ids were tampered with.
    if new_dev.len() == 1 && new_ctrl.len() == 1 {
        let (d, c) = (&new_dev[0], &new_ctrl[0]);
        if d.enc_key != c.dec_key || d.dec_key != c.enc_key {
            return Case::fail(
                "I3:both-ends-different-keys",
                format!("both ends hold one new CASE session (ids {}/{}) with different directional keys", d.local_sess_id, c.local_sess_id),
            );
        }
    }
    if new_dev.len() > 1 || new_ctrl.len() > 1 {
        return Case::fail(
            "I1:more-than-one-session",
            format!("one handshake produced {} device and {} controller sessions", new_dev.len(), new_ctrl.len()),
        );
    }

    // I4: consumed value-level mutations
    for (opcode, field) in &effective {
        labels.push(format!("effective-mutation-op{opcode:#x}"));
        let full_path = !case.warm;
        match *opcode {
            OP_SIGMA1 => {
                // cold: transcript-bound. warm: random (field 0), resumption id (3), MIC (4) are
                // bound (a failed resumption falls back to the full handshake whose transcript
                // then differs); other fields are not authenticated on the resumption path.
                let bound = full_path || matches!(field, Some(0) | Some(3) | Some(4));
                if bound && (!new_dev.is_empty() || !new_ctrl.is_empty()) {
                    return Case::fail(
                        "I4:session-despite-sigma1-mutation",
                        format!("Sigma1 was altered (field {field:?}, warm={}) and consumed first, yet {} device / {} controller session(s) exist", case.warm, new_dev.len(), new_ctrl.len()),
                    );
                }
            }
            OP_SIGMA2 => {
                if !new_dev.is_empty() || !new_ctrl.is_empty() {
                    return Case::fail(
                        "I4:session-despite-sigma2-mutation",
                        format!("Sigma2 was altered (field {field:?}) and consumed first, yet {} device / {} controller session(s) exist", new_dev.len(), new_ctrl.len()),
                    );
                }
            }
            OP_SIGMA3 => {
                if !new_dev.is_empty() {
                    return Case::fail(
                        "I4:session-despite-sigma3-mutation",
                        format!("Sigma3 was altered (field {field:?}) and consumed first, yet the responder holds a session"),
                    );
                }
            }
            OP_SIGMA2R => {
                // resumption id (field 0) and MIC (field 1)
                if matches!(field, Some(0) | Some(1)) && (!new_dev.is_empty() || !new_ctrl.is_empty()) {
                    return Case::fail(
                        "I4:session-despite-sigma2resume-mutation",
                        format!("Sigma2Resume field {field:?} was altered and consumed first, yet {} device / {} controller session(s) exist", new_dev.len(), new_ctrl.len()),
                    );
                }
            }
            _ => {}
        }
    }

    if paired > 0 {
        labels.push("session-both-ends".into());
    }
    if !new_dev.is_empty() {
        labels.push("device-session".into());
    }
    if case.warm {
        labels.push("warm".into());
    }
    if resumed {
        labels.push("resumed".into());
    }
    if !case.plan.is_noop() {
        labels.push("lossy".into());
    }
    labels.push(format!("fabrics-{}", fabs.len()));
    Case::pass(responder_answered && !effective.is_empty()).labels(labels)
}

// ------------------------------------------------------------------ impostor initiator

#[derive(Debug, Clone, Serialize, Deserialize)]
pub enum Impostor {
    /// honest member (control group)
    None,
    /// the fabric record names the device's root (so Sigma1 addresses the device's fabric) but
    /// the NOC was issued by another root that uses the same fabric id
    OtherRootSameFabricId,
    /// the NOC is a valid NOC of the addressed fabric, but the initiator signs with another key
    WrongKey,
    /// as OtherRootSameFabricId, with an intermediate certificate of the foreign CA
    OtherRootWithIcac,
}

#[derive(Debug, Clone, Serialize, Deserialize)]
pub struct ImpostorCase {
    kind: Impostor,
    icac: bool,
    node_id_same_as_member: bool,
    plan: Plan,
    seed: u32,
    /// after the (refused) handshake the impostor tries again, this time offering to resume with
    /// whatever the device kept about the first attempt (it knows that handshake's secrets: it
    /// was one end of it)
    #[serde(default)]
    second_attempt: bool,
}

fn impostor_strategy() -> impl Strategy<Value = ImpostorCase> {
    (
        prop_oneof![
            1 => Just(Impostor::None),
            2 => Just(Impostor::OtherRootSameFabricId),
            2 => Just(Impostor::WrongKey),
            1 => Just(Impostor::OtherRootWithIcac),
        ],
        any::<bool>(),
        any::<bool>(),
        prop_oneof![3 => Just(Plan::default()), 1 => adv::plan(6)],
        any::<u32>(),
        any::<bool>(),
    )
        .prop_map(|(kind, icac, node_id_same_as_member, plan, seed, second_attempt)| ImpostorCase {
            kind,
            icac,
            node_id_same_as_member,
            plan,
            seed,
            second_attempt,
        })
}

fn check_impostor(case: &ImpostorCase) -> Case {
    vh::sim::reset_universe();
    let net = Net::new(2);
    let cd = mk_crypto(case.seed);
    let cc = mk_crypto(case.seed ^ 0x7777);
    let cgen = mk_crypto(case.seed ^ 0x0BAD_5EED);
    let device = new_matter(5540);
    let ctrl = new_matter(5541);
    const FABRIC_ID: u64 = 0x1;
    const DEV_NODE: u64 = 0x2000;
    const CTRL_NODE: u64 = 0x1000;

    let setup = (|| -> Result<core::num::NonZeroU8, rs_matter::error::Error> {
        let ca = Ca::new(&cgen, FABRIC_ID, case.icac, 5)?;
        let dm = new_member(&cgen, &ca, DEV_NODE, &[])?;
        install(&device, &cd, &ca, &dm, CTRL_NODE)?;
        let node = if case.node_id_same_as_member { CTRL_NODE } else { CTRL_NODE + 5 };
        match case.kind {
            Impostor::None => {
                let m = new_member(&cgen, &ca, node, &[])?;
                install(&ctrl, &cc, &ca, &m, CTRL_NODE)
            }
            Impostor::WrongKey => {
                // a genuine NOC of the fabric (say, a captured one) - but not its private key
                let mut m = new_member(&cgen, &ca, node, &[])?;
                let other = new_member(&cgen, &ca, node + 100, &[])?;
                m.key = other.key;
                install(&ctrl, &cc, &ca, &m, CTRL_NODE)
            }
            Impostor::OtherRootSameFabricId | Impostor::OtherRootWithIcac => {
                // the attacker runs a CA of their own with the same fabric id and IPK
                let mut evil = Ca::new(&cgen, FABRIC_ID, matches!(case.kind, Impostor::OtherRootWithIcac), 5)?;
                let m = new_member(&cgen, &evil, node, &[])?;
                // ... and claims the device's root in its fabric record
                evil.rcac = ca.rcac.clone();
                evil.ipk = ca.ipk;
                install(&ctrl, &cc, &evil, &m, CTRL_NODE)
            }
        }
    })();
    let fab = match setup {
        Ok(f) => f,
        Err(e) => return Case::inconclusive(format!("setup: {e:?}")),
    };
    let adv_log = adv::install(&net, &case.plan);
    let result: RefCell<Option<bool>> = RefCell::new(None);
    let stop;
    let mut resumption_offered = false;
    {
        let sc = SecureChannel::new(&cd, &());
        let responder = Responder::new("device", sc, &device, 0);
        let mut ex = Exec::new(Sched::Fifo);
        ex.add_time_source(&net);
        ex.spawn("dev.run", async {
            let _ = device.run(&cd, net.end(0), net.end(0), NoNetwork).await;
        });
        ex.spawn("dev.resp", async {
            let _ = responder.run::<2>().await;
        });
        ex.spawn("ctrl.run", async {
            let _ = ctrl.run(&cc, net.end(1), net.end(1), NoNetwork).await;
        });
        let mut st = do_handshake(&mut ex, "impostor", 60 * SEC, &ctrl, &cc, &result, fab, DEV_NODE);
        if case.second_attempt && !matches!(case.kind, Impostor::None) && st != Stop::PollLimit {
            // What the impostor knows about its first attempt: the resumption id the device
            // minted in Sigma2 and the ECDH secret. If the device kept a record of that attempt,
            // this is it - mirrored into the impostor's own cache, so that its initiator offers
            // the resumption.
            let claimed = if case.node_id_same_as_member { CTRL_NODE } else { CTRL_NODE + 5 };
            let recs: Vec<rs_matter::sc::case::resumption::ResumableSession> =
                device.with_state(|st| st.resumption.iter().filter(|r| r.peer_nodeid == claimed).cloned().collect());
            if !recs.is_empty() {
                resumption_offered = true;
            }
            for r in recs {
                ctrl.with_state(|st| {
                    st.resumption.insert_or_update(rs_matter::sc::case::resumption::ResumableSession {
                        fab_idx: fab,
                        peer_nodeid: DEV_NODE,
                        peer_cat_ids: Default::default(),
                        resumption_id: r.resumption_id.clone(),
                        shared_secret: r.shared_secret.clone(),
                    })
                });
            }
            st = do_handshake(&mut ex, "impostor.again", 60 * SEC, &ctrl, &cc, &result, fab, DEV_NODE);
        }
        stop = st;
    }
    if stop == Stop::PollLimit {
        return Case::inconclusive("poll watchdog");
    }
    let _ = adv_log;
    let dev_case: Vec<SessionSnapshot> = sessions(&device)
        .into_iter()
        .filter(|s| matches!(s.mode, SessionMode::Case { .. }) && !s.reserved)
        .collect();
    let sigma3_sent = net.with_tap(|t| {
        t.sent
            .iter()
            .filter_map(|s| mutate::payload_offset(&s.bytes))
            .any(|(w, _)| w.proto_id == PROTO_ID_SECURE_CHANNEL && w.opcode == OP_SIGMA3)
    });
    match case.kind {
        Impostor::None => {
            if case.plan.is_noop() && dev_case.is_empty() {
                return Case::fail(
                    "impostor:honest-member-refused",
                    "an honest member of the fabric could not establish a CASE session over an undisturbed network".to_string(),
                );
            }
            Case::pass(false).label("honest")
        }
        _ => {
            if !dev_case.is_empty() {
                return Case::fail(
                    format!("impostor:session-for-{:?}", case.kind),
                    format!("the device established CASE session(s) {:?} for an initiator that is not a member of the addressed fabric ({:?})", dev_case.iter().map(|s| (s.local_sess_id, s.peer_nodeid)).collect::<Vec<_>>(), case.kind),
                );
            }
            let ctrl_case = sessions(&ctrl).into_iter().filter(|s| matches!(s.mode, SessionMode::Case { .. }) && !s.reserved).count();
            if ctrl_case > 0 {
                return Case::fail(
                    format!("impostor:initiator-session-for-{:?}", case.kind),
                    "the impostor ended up with a CASE session".to_string(),
                );
            }
            Case::pass(sigma3_sent)
                .label(format!("{:?}", case.kind))
                .label(if case.second_attempt { "second-attempt" } else { "single-attempt" })
                .label(if resumption_offered { "device-kept-a-record-of-the-refused-attempt" } else { "no-record-kept" })
        }
    }
}

// ------------------------------------------------------------------ re-issued credentials
//
// Sub-check `case-reissue`: a history of 2-5 CASE handshakes between one controller and one
// device of one fabric. Between the handshakes the harness re-issues the NOC of either end (other
// CATs, optionally another node id of the same fabric; `Fabrics::update`, what `UpdateNOC` ends
// up calling) and drops or keeps the resumption records of either end. Nothing is mutated on the
// wire; each handshake runs under a light loss plan.
//
// Oracle (written from the statement, it does not predict whether a handshake resumes): every
// session that appears is classified by the message that carried its responder session id
// (Sigma2 = full handshake, Sigma2Resume = resumption).
//  * full handshake: the session is bound to the node id and CATs of the NOC the peer holds
//    right now (that is the NOC it presented);
//  * resumption: the session is bound to the node id and CATs the peer presented in the LATEST
//    full handshake this end completed with that peer node id - the resumption state of a
//    (fabric, node id) is superseded by every later full handshake of that (fabric, node id).

const CTRL_NODES: [u64; 3] = [0x1000, 0x1001, 0x1002];
const DEV_NODES: [u64; 3] = [0x2000, 0x2001, 0x2002];
/// virtual time between two handshakes: longer than any delay the loss plan can introduce, so
/// that no datagram of a handshake is still in flight when the credentials change
const QUIESCE: u64 = 12 * SEC;

#[derive(Debug, Clone, Serialize, Deserialize)]
pub enum CatEdit {
    /// same CATs, fresh key and certificate only
    Same,
    /// add this CAT; if its identifier is present already, its version is replaced
    Add(u32),
    /// remove one CAT (selector)
    Remove(u16),
    /// give one CAT (selector) this version
    Version(u16, u16),
    /// no CATs at all
    Clear,
}

#[derive(Debug, Clone, Serialize, Deserialize)]
pub struct Reissue {
    cats: CatEdit,
    /// index into the node id pool of that end; `None` keeps the node id
    node: Option<u8>,
}

#[derive(Debug, Clone, PartialEq, Eq, Serialize, Deserialize)]
pub enum DropRec {
    Keep,
    /// `ResumableSessions::remove_by_peer` for the peer's current node id
    Peer,
    /// `ResumableSessions::reset`
    All,
}

#[derive(Debug, Clone, Serialize, Deserialize)]
pub struct Step {
    ctrl_reissue: Option<Reissue>,
    dev_reissue: Option<Reissue>,
    drop_ctrl: DropRec,
    drop_dev: DropRec,
    /// the controller still addresses the node id the device had before its last change
    stale_addr: bool,
    plan: Plan,
}

#[derive(Debug, Clone, Serialize, Deserialize)]
pub struct ReissueCase {
    icac: bool,
    ctrl_cats: Vec<u32>,
    dev_cats: Vec<u32>,
    steps: Vec<Step>,
    sched: Option<u64>,
    seed: u32,
}

fn cat_set() -> impl Strategy<Value = Vec<u32>> {
    prop::collection::vec(cat(), 0..4).prop_map(|mut cats| {
        cats.sort_by_key(|c| c >> 16);
        cats.dedup_by_key(|c| *c >> 16);
        cats.truncate(3);
        cats
    })
}

fn light_plan() -> impl Strategy<Value = Plan> {
    (
        prop::collection::vec(adv::act(), 0..4),
        prop::collection::vec(adv::act(), 0..4),
        prop_oneof![14 => Just(None), 1 => (0u16..10).prop_map(Some)],
        prop_oneof![14 => Just(None), 1 => (0u16..10).prop_map(Some)],
    )
        .prop_map(|(a, b, ha, hb)| Plan {
            dir: [a, b],
            blackhole_from: [ha, hb],
        })
}

fn reissue_strategy() -> impl Strategy<Value = ReissueCase> {
    let edit = || {
        prop_oneof![
            1 => Just(CatEdit::Same),
            3 => cat().prop_map(CatEdit::Add),
            2 => any::<u16>().prop_map(CatEdit::Remove),
            2 => (any::<u16>(), 1u16..4).prop_map(|(s, v)| CatEdit::Version(s, v)),
            1 => Just(CatEdit::Clear),
        ]
    };
    let reissue = move || {
        (edit(), prop_oneof![3 => Just(None), 1 => (0u8..3).prop_map(Some)])
            .prop_map(|(cats, node)| Reissue { cats, node })
    };
    let drop_rec = |keep: u32| {
        prop_oneof![keep => Just(DropRec::Keep), 2 => Just(DropRec::Peer), 1 => Just(DropRec::All)]
    };
    let step = (
        prop_oneof![5 => Just(None), 4 => reissue().prop_map(Some)],
        prop_oneof![7 => Just(None), 3 => reissue().prop_map(Some)],
        drop_rec(6),
        drop_rec(9),
        prop::bool::weighted(0.06),
        prop_oneof![3 => Just(Plan::default()), 2 => light_plan()],
    )
        .prop_map(|(ctrl_reissue, dev_reissue, drop_ctrl, drop_dev, stale_addr, plan)| Step {
            ctrl_reissue,
            dev_reissue,
            drop_ctrl,
            drop_dev,
            stale_addr,
            plan,
        });
    (
        any::<bool>(),
        cat_set(),
        cat_set(),
        prop::collection::vec(step, 2..6),
        prop_oneof![1 => Just(None), 2 => any::<u64>().prop_map(Some)],
        any::<u32>(),
    )
        .prop_map(|(icac, ctrl_cats, dev_cats, steps, sched, seed)| ReissueCase {
            icac,
            ctrl_cats,
            dev_cats,
            steps,
            sched,
            seed,
        })
}

/// Apply a CAT edit; the result never carries an identifier twice and never more than 3 CATs.
fn apply_cat_edit(cats: &mut Vec<u32>, edit: &CatEdit) {
    match edit {
        CatEdit::Same => {}
        CatEdit::Add(c) => {
            if let Some(old) = cats.iter_mut().find(|o| **o >> 16 == *c >> 16) {
                *old = *c;
            } else if cats.len() < 3 {
                cats.push(*c);
            } else {
                cats[0] = *c;
            }
        }
        CatEdit::Remove(sel) => {
            if !cats.is_empty() {
                cats.remove(vh::util::pick(*sel, cats.len()));
            }
        }
        CatEdit::Version(sel, ver) => {
            if !cats.is_empty() {
                let i = vh::util::pick(*sel, cats.len());
                cats[i] = (cats[i] & 0xffff_0000) | (*ver as u32 & 0xffff).max(1);
            }
        }
        CatEdit::Clear => cats.clear(),
    }
}

/// How two CAT sets differ (labels).
fn cat_diff(old: &[u32], new: &[u32]) -> Vec<&'static str> {
    let mut out = Vec::new();
    if new.is_empty() && !old.is_empty() {
        out.push("cats-cleared");
    }
    if new.iter().any(|n| !old.iter().any(|o| o >> 16 == n >> 16)) {
        out.push("cat-added");
    }
    if old.iter().any(|o| !new.iter().any(|n| o >> 16 == n >> 16)) {
        out.push("cat-removed");
    }
    if new.iter().any(|n| old.iter().any(|o| o >> 16 == n >> 16 && o != n)) {
        out.push("cat-version");
    }
    out
}

#[derive(Debug, Clone)]
struct Cred {
    node: u64,
    cats: Vec<u32>,
}

/// What the device answered with since datagram `from`: responder session ids carried by Sigma2
/// and by Sigma2Resume messages, and whether a Sigma1 offered resumption.
fn responder_answers(net: &Net, from: usize) -> (Vec<u16>, Vec<u16>, bool) {
    let mut full = Vec::new();
    let mut resumed = Vec::new();
    let mut offered = false;
    net.with_tap(|t| {
        for s in t.sent.iter().skip(from) {
            let Some((w, _)) = mutate::payload_offset(&s.bytes) else { continue };
            if w.proto_id != PROTO_ID_SECURE_CHANNEL {
                continue;
            }
            let el = rs_matter::tlv::TLVElement::new(w.payload.as_slice());
            let Ok(seq) = el.structure() else { continue };
            if s.src == 0 && w.opcode == OP_SIGMA2 {
                if let Ok(id) = seq.ctx(2).and_then(|e| e.u16()) {
                    full.push(id);
                }
            } else if s.src == 0 && w.opcode == OP_SIGMA2R {
                if let Ok(id) = seq.ctx(3).and_then(|e| e.u16()) {
                    resumed.push(id);
                }
            } else if s.src == 1 && w.opcode == OP_SIGMA1 && seq.ctx(6).is_ok() {
                offered = true;
            }
        }
    });
    (full, resumed, offered)
}

fn check_reissue(case: &ReissueCase) -> Case {
    use rs_matter::crypto::CanonPkcSecretKeyRef;
    use std::collections::BTreeMap;

    vh::sim::reset_universe();
    let net = Net::new(2);
    let cd = mk_crypto(case.seed);
    let cc = mk_crypto(case.seed.wrapping_mul(0x9E37_79B9).wrapping_add(99));
    let cgen = mk_crypto(case.seed ^ 0x0BAD_5EED);
    let device = new_matter(5540);
    let ctrl = new_matter(5541);

    let mut cur_c = Cred { node: CTRL_NODES[0], cats: case.ctrl_cats.clone() };
    let mut cur_d = Cred { node: DEV_NODES[0], cats: case.dev_cats.clone() };
    let ca = match Ca::new(&cgen, 0x100, case.icac, 1) {
        Ok(c) => c,
        Err(e) => return Case::inconclusive(format!("CA: {e:?}")),
    };
    let setup = (|| -> Result<(core::num::NonZeroU8, core::num::NonZeroU8), rs_matter::error::Error> {
        let dm = new_member(&cgen, &ca, cur_d.node, &cur_d.cats)?;
        let dev_idx = install(&device, &cd, &ca, &dm, CTRL_NODES[0])?;
        let cm = new_member(&cgen, &ca, cur_c.node, &cur_c.cats)?;
        let ctrl_idx = install(&ctrl, &cc, &ca, &cm, CTRL_NODES[0])?;
        Ok((dev_idx, ctrl_idx))
    })();
    let (dev_idx, ctrl_idx) = match setup {
        Ok(x) => x,
        Err(e) => return Case::inconclusive(format!("fabric setup: {e:?}")),
    };

    // the loss plan of the handshake in progress, with the per-direction datagram counters
    let plan_cell = std::rc::Rc::new(RefCell::new((Plan::default(), [0usize; 2])));
    {
        let plan_cell = plan_cell.clone();
        net.set_adversary(move |s: &Sent| -> Actions {
            let mut g = plan_cell.borrow_mut();
            let d = if s.src == 0 { 0 } else { 1 };
            let i = g.1[d];
            g.1[d] += 1;
            let mut act = g.0.dir[d].get(i).cloned().unwrap_or(Act::Deliver);
            if let Some(from) = g.0.blackhole_from[d] {
                if i >= from as usize {
                    act = Act::Drop;
                }
            }
            let bytes = s.bytes.clone();
            match act {
                Act::Deliver => vec![(0, bytes)],
                Act::Drop => vec![],
                Act::Dup(n) => (0..=n).map(|_| (0, bytes.clone())).collect(),
                Act::Delay(ms) => vec![(ms as u64 * MS, bytes)],
                Act::DupDelay(ms) => vec![(0, bytes.clone()), (ms as u64 * MS, bytes)],
            }
        });
    }

    // peer node id -> CATs presented in the latest full handshake this end completed with it
    let mut dev_view: BTreeMap<u64, [u32; 3]> = BTreeMap::new();
    let mut ctrl_view: BTreeMap<u64, [u32; 3]> = BTreeMap::new();
    // the device's node id before its last actual change
    let mut dev_prev_node: Option<u64> = None;
    // pending "CATs changed" marks per end: 1 = re-issued, 2 = ... and a full handshake seen by
    // the other end since
    let mut ctrl_changed = 0u8;
    let mut dev_changed = 0u8;
    let mut undisturbed_so_far = true;
    let mut nontrivial = false;
    let mut labels: Vec<String> = Vec::new();
    let result: RefCell<Option<bool>> = RefCell::new(None);

    let sc = SecureChannel::new(&cd, &());
    let responder = Responder::new("device", sc, &device, 0);
    let mut ex = Exec::new(match case.sched {
        None => Sched::Fifo,
        Some(s) => Sched::Seeded(s),
    });
    ex.add_time_source(&net);
    ex.spawn("dev.run", async {
        let _ = device.run(&cd, net.end(0), net.end(0), NoNetwork).await;
    });
    ex.spawn("dev.resp", async {
        let _ = responder.run::<3>().await;
    });
    ex.spawn("ctrl.run", async {
        let _ = ctrl.run(&cc, net.end(1), net.end(1), NoNetwork).await;
    });

    for (k, step) in case.steps.iter().enumerate() {
        // ------------------------------------------------------------ between the handshakes
        if let Some(r) = &step.ctrl_reissue {
            let old = cur_c.clone();
            apply_cat_edit(&mut cur_c.cats, &r.cats);
            if let Some(n) = r.node {
                cur_c.node = CTRL_NODES[n as usize % CTRL_NODES.len()];
            }
            let done = new_member(&cgen, &ca, cur_c.node, &cur_c.cats).and_then(|m| {
                ctrl.with_state(|st| {
                    st.fabrics
                        .update(&cc, ctrl_idx, CanonPkcSecretKeyRef::new(&m.key), &m.noc, ca.icac_bytes())
                        .map(|_| ())
                })
            });
            if let Err(e) = done {
                return Case::inconclusive(format!("re-issue (controller): {e:?}"));
            }
            let diff = cat_diff(&old.cats, &cur_c.cats);
            if !diff.is_empty() && k > 0 {
                ctrl_changed = 1;
            }
            labels.extend(diff.iter().map(|d| format!("ctrl-{d}")));
            if old.node != cur_c.node {
                labels.push("ctrl-node-id-changed".into());
            }
        }
        if let Some(r) = &step.dev_reissue {
            let old = cur_d.clone();
            apply_cat_edit(&mut cur_d.cats, &r.cats);
            if let Some(n) = r.node {
                cur_d.node = DEV_NODES[n as usize % DEV_NODES.len()];
            }
            let done = new_member(&cgen, &ca, cur_d.node, &cur_d.cats).and_then(|m| {
                device.with_state(|st| {
                    st.fabrics
                        .update(&cd, dev_idx, CanonPkcSecretKeyRef::new(&m.key), &m.noc, ca.icac_bytes())
                        .map(|_| ())
                })
            });
            if let Err(e) = done {
                return Case::inconclusive(format!("re-issue (device): {e:?}"));
            }
            let diff = cat_diff(&old.cats, &cur_d.cats);
            if !diff.is_empty() && k > 0 {
                dev_changed = 1;
            }
            labels.extend(diff.iter().map(|d| format!("dev-{d}")));
            if old.node != cur_d.node {
                dev_prev_node = Some(old.node);
                labels.push("dev-node-id-changed".into());
            }
        }
        match step.drop_ctrl {
            DropRec::Keep => {}
            DropRec::Peer => ctrl.with_state(|st| st.resumption.remove_by_peer(ctrl_idx, cur_d.node)),
            DropRec::All => ctrl.with_state(|st| st.resumption.reset()),
        }
        match step.drop_dev {
            DropRec::Keep => {}
            DropRec::Peer => device.with_state(|st| st.resumption.remove_by_peer(dev_idx, cur_c.node)),
            DropRec::All => device.with_state(|st| st.resumption.reset()),
        }
        let addressed = match (step.stale_addr, dev_prev_node) {
            (true, Some(prev)) => {
                labels.push("stale-address".into());
                prev
            }
            _ => cur_d.node,
        };

        // ------------------------------------------------------------ the handshake
        let before_dev: Vec<u32> = sessions(&device).iter().map(|s| s.id).collect();
        let before_ctrl: Vec<u32> = sessions(&ctrl).iter().map(|s| s.id).collect();
        let from = net.sent_count();
        *plan_cell.borrow_mut() = (step.plan.clone(), [0; 2]);
        let stop = do_handshake(&mut ex, "handshake", 60 * SEC, &ctrl, &cc, &result, ctrl_idx, addressed);
        if stop == Stop::PollLimit {
            return Case::inconclusive("poll watchdog");
        }
        *plan_cell.borrow_mut() = (Plan::default(), [0; 2]);
        if ex.run_for(QUIESCE) == Stop::PollLimit {
            return Case::inconclusive("poll watchdog (quiesce)");
        }
        if net.pending_count() != 0 {
            return Case::inconclusive("datagrams still in flight after the quiet period");
        }
        let disturbed = !step.plan.is_noop();

        // ------------------------------------------------------------ what happened
        let (full_ids, resumed_ids, offered) = responder_answers(&net, from);
        let new_dev: Vec<SessionSnapshot> = sessions(&device)
            .into_iter()
            .filter(|s| !before_dev.contains(&s.id) && matches!(s.mode, SessionMode::Case { .. }) && !s.reserved)
            .collect();
        let new_ctrl: Vec<SessionSnapshot> = sessions(&ctrl)
            .into_iter()
            .filter(|s| !before_ctrl.contains(&s.id) && matches!(s.mode, SessionMode::Case { .. }) && !s.reserved)
            .collect();
        if new_dev.len() > 1 || new_ctrl.len() > 1 {
            return Case::fail(
                "reissue:more-than-one-session",
                format!("handshake {k} produced {} device and {} controller sessions", new_dev.len(), new_ctrl.len()),
            );
        }
        let classify = |sess_id: u16| -> Option<bool> {
            match (full_ids.contains(&sess_id), resumed_ids.contains(&sess_id)) {
                (true, false) => Some(false),
                (false, true) => Some(true),
                _ => None,
            }
        };

        // the device's view of the controller
        for s in &new_dev {
            let SessionMode::Case { fab_idx, cat_ids } = &s.mode else { continue };
            let Some(resumed) = classify(s.local_sess_id) else {
                return Case::inconclusive(format!("handshake {k}: device session {} matches no Sigma2 / Sigma2Resume", s.local_sess_id));
            };
            if *fab_idx != dev_idx {
                return Case::fail(
                    "reissue:device-session-wrong-fabric",
                    format!("handshake {k}: device session bound to fabric {fab_idx}, the only fabric is {dev_idx}"),
                );
            }
            if resumed {
                let want = s.peer_nodeid.and_then(|n| dev_view.get(&n));
                if want.map(|w| same_cats(w, cat_ids)) != Some(true) {
                    return Case::fail(
                        "reissue:device-resumed-session-superseded-attrs",
                        format!(
                            "handshake {k} was a resumption; the device session is bound to peer {:x?} with CATs {:x?}, but the latest full handshake the device completed with that node id presented CATs {:x?} (per node id: {:x?}); controller NOC now: node {:#x} CATs {:x?}",
                            s.peer_nodeid, cat_ids, want, dev_view, cur_c.node, cur_c.cats
                        ),
                    );
                }
                labels.push("device-resumed".into());
                if ctrl_changed >= 1 {
                    nontrivial = true;
                    labels.push("ctrl-reissue-then-resumption".into());
                }
                if ctrl_changed == 2 {
                    labels.push("ctrl-reissue-full-resumption".into());
                }
            } else {
                if s.peer_nodeid != Some(cur_c.node) || !same_cats(cat_ids, &cat_ids_of(&cur_c.cats)) || s.local_nodeid != cur_d.node {
                    return Case::fail(
                        "reissue:device-session-not-from-presented-noc",
                        format!(
                            "handshake {k} was a full handshake; the device session is bound to peer {:x?} with CATs {:x?} (local node {:#x}), the controller's NOC says node {:#x} CATs {:x?} (device node {:#x})",
                            s.peer_nodeid, cat_ids, s.local_nodeid, cur_c.node, cur_c.cats, cur_d.node
                        ),
                    );
                }
                dev_view.insert(cur_c.node, cat_ids_of(&cur_c.cats));
                labels.push("device-full".into());
                if ctrl_changed == 1 {
                    ctrl_changed = 2;
                }
            }
        }
        // the controller's view of the device
        for s in &new_ctrl {
            let SessionMode::Case { fab_idx, cat_ids } = &s.mode else { continue };
            let Some(resumed) = classify(s.peer_sess_id) else {
                return Case::inconclusive(format!("handshake {k}: controller session (peer id {}) matches no Sigma2 / Sigma2Resume", s.peer_sess_id));
            };
            if *fab_idx != ctrl_idx || s.peer_nodeid != Some(addressed) {
                return Case::fail(
                    "reissue:controller-session-wrong-peer",
                    format!("handshake {k}: the controller asked for node {addressed:#x} on fabric {ctrl_idx}, its session is bound to peer {:x?} on fabric {fab_idx}", s.peer_nodeid),
                );
            }
            if resumed {
                let want = s.peer_nodeid.and_then(|n| ctrl_view.get(&n));
                if want.map(|w| same_cats(w, cat_ids)) != Some(true) {
                    return Case::fail(
                        "reissue:controller-resumed-session-superseded-attrs",
                        format!(
                            "handshake {k} was a resumption; the controller session is bound to peer {:x?} with CATs {:x?}, but the latest full handshake the controller completed with that node id presented CATs {:x?} (per node id: {:x?}); device NOC now: node {:#x} CATs {:x?}",
                            s.peer_nodeid, cat_ids, want, ctrl_view, cur_d.node, cur_d.cats
                        ),
                    );
                }
                labels.push("controller-resumed".into());
                if dev_changed >= 1 {
                    nontrivial = true;
                    labels.push("dev-reissue-then-resumption".into());
                }
                if dev_changed == 2 {
                    labels.push("dev-reissue-full-resumption".into());
                }
            } else {
                if s.peer_nodeid != Some(cur_d.node) || !same_cats(cat_ids, &cat_ids_of(&cur_d.cats)) || s.local_nodeid != cur_c.node {
                    return Case::fail(
                        "reissue:controller-session-not-from-presented-noc",
                        format!(
                            "handshake {k} was a full handshake; the controller session is bound to peer {:x?} with CATs {:x?} (local node {:#x}), the device's NOC says node {:#x} CATs {:x?} (controller node {:#x})",
                            s.peer_nodeid, cat_ids, s.local_nodeid, cur_d.node, cur_d.cats, cur_c.node
                        ),
                    );
                }
                ctrl_view.insert(cur_d.node, cat_ids_of(&cur_d.cats));
                labels.push("controller-full".into());
                if dev_changed == 1 {
                    dev_changed = 2;
                }
            }
        }
        // I3: both ends hold a new session: same directional keys (nothing was tampered with, so
        // they also reference each other)
        if let (Some(d), Some(c)) = (new_dev.first(), new_ctrl.first()) {
            if d.enc_key != c.dec_key || d.dec_key != c.enc_key {
                return Case::fail(
                    "reissue:keys-do-not-pair",
                    format!("handshake {k}: both ends hold a new CASE session (ids {}/{}) with different directional keys", d.local_sess_id, c.local_sess_id),
                );
            }
            if d.peer_sess_id != c.local_sess_id || c.peer_sess_id != d.local_sess_id {
                return Case::fail(
                    "reissue:session-ids-do-not-pair",
                    format!("handshake {k}: device session {}->{} and controller session {}->{} do not reference each other", d.local_sess_id, d.peer_sess_id, c.local_sess_id, c.peer_sess_id),
                );
            }
            labels.push("session-both-ends".into());
        }
        // A controller that reports success holds the session.
        if *result.borrow() == Some(true) && new_ctrl.is_empty() {
            return Case::fail(
                "reissue:success-without-session",
                format!("handshake {k}: CaseInitiator::perform returned Ok but the controller holds no new CASE session"),
            );
        }
        // The very first handshake of an undisturbed history is a plain full handshake between
        // two members of the fabric: it has to work, or everything below is vacuous.
        if k == 0 && !disturbed && addressed == cur_d.node && (new_dev.is_empty() || new_ctrl.is_empty()) {
            return Case::fail(
                "reissue:honest-handshake-failed",
                format!("an undisturbed first CASE handshake between two members of one fabric failed (controller {cur_c:x?}, device {cur_d:x?})"),
            );
        }
        if offered {
            labels.push("resumption-offered".into());
            if !full_ids.is_empty() {
                labels.push("fell-back-to-full".into());
            }
        }
        if undisturbed_so_far && !disturbed && addressed == cur_d.node && (new_dev.is_empty() || new_ctrl.is_empty()) {
            labels.push("undisturbed-without-session".into());
        }
        if disturbed {
            undisturbed_so_far = false;
            labels.push("lossy".into());
        }
        if new_dev.is_empty() != new_ctrl.is_empty() {
            labels.push("session-one-end-only".into());
        }
    }
    drop(ex);
    labels.push(format!("handshakes-{}", case.steps.len()));
    Case::pass(nontrivial).labels(labels)
}

fn main() {
    let mut run = Run::new(
        "C01",
        "exploration",
        "honest endpoints, hostile path: a device with 1-3 fabrics (chains with/without ICAC, generated CATs, node ids optionally reused across fabrics) and a controller that is a member of some of them run a real CASE handshake (cold, or warm = after an honest handshake so that resumption is attempted) while one message kind (Sigma1, Sigma2, Sigma3, Sigma2Resume, final status) is mutated consistently or once (value bit flip, payload bit flip, truncation, extension, hostile curve point, replay of the recorded message of the earlier handshake) and datagrams are dropped/duplicated/delayed. Non-trivial: the responder answered Sigma1 and a value-level mutated message was the first copy consumed; distinct = distinct serialized case. case-reissue: histories of 2-5 handshakes of one controller and one device (one fabric, with/without ICAC, generated CATs at both ends) under light loss plans; before each handshake either end's NOC may be re-issued (CAT added / removed / version changed / all cleared / same, optionally another node id of the fabric), either end's resumption records dropped (for the peer / all) or kept, and the controller may address the device's previous node id. Non-trivial there: after the first handshake an end was re-issued with CATs that differ, and a later (or that very) handshake was a resumption at the other end",
    );
    run.assume("a mutation counts only if the mutated copy was the first copy of that message counter consumed by the receiving stack");
    run.assume("on the resumption path the session ids, destination id and public key of Sigma1 are not authenticated by the protocol; only initiator random, resumption id and MIC mutations are required to prevent a session there");
    run.assume("case-impostor drives the responder with initiators that address the device's fabric (same root in their fabric record, same fabric id and IPK) but hold a NOC from a foreign root, or a genuine NOC without its private key; the full single-deviation chain space is checked against CaseP::validate_certs directly in C19");
    let n = run.cases(2_500, 150_000);
    run.prop("case-hostile-path", n, case_strategy, check);
    let n = run.cases(1_500, 60_000);
    run.prop("case-impostor", n, impostor_strategy, check_impostor);
    run.assume("case-reissue: a session is attributed to a full handshake or to a resumption by the message (Sigma2 / Sigma2Resume) that carried its responder session id; a resumption descends from the latest full handshake that end completed with the session's peer node id (a later full handshake of the same fabric and node id supersedes the resumption state); credentials change only while no handshake datagram is in flight (12 s quiet period, longer than any generated delay); re-issuing goes through Fabrics::update (as UpdateNOC does) and keeps existing sessions and resumption records");
    let n = run.cases(3_000, 120_000);
    run.prop("case-reissue", n, reissue_strategy, check_reissue);
    run.finish();
}
